"""C20 - the generated stand-alone solver agrees with the in-process solver (decided structural clauses).

R1 implicit-name closure : names the shared parser injects on its own (identifiers in right-hand sides it appends
                           itself, e.g. 'k' of the default `t = k`) must be bound by each consumer of the parser: the
                           in-process solver and the code generator's template scope (sibling cross-check).
R2 emitter agreement     : the generator's emitters (vector, unpack, iterator body, return, variable list) range over the
                           same ordered list, built index-aligned with the equation list; the unpack of results indexes
                           a prefix of it in the same order; lag/exogenous pack indices are STEP-1 / STEP.
R3 table output          : BaseSolver's table renderer is an accessor in the sense of C16 (no mutation of the shared
                           variable list, fresh return) and puts the time axis first, every variable once."""
import ast

from .. import cfg as cfgmod
from ..cfg import atomic_facts
from ..loader import AnalysisError, unparse, call_name, attr_chain
from ..dataflow import target_names, linform, lin_eq, lin_str
from ..solver_model import solver_function
from .C10 import parser_line_loop
from .C16 import Summaries, check_accessor, discover_accessors

TECHNIQUE = ("static analysis: sibling cross-check of the two consumers of the shared parser (injected-name closure), agreement of the code emitters by term evaluation (variable vector and equation list as concatenated maps over the parser lists, iteration canonicalised to index ranges), must-pass-through of the list builders before the file writer, symbolic per-path evaluation of the column sequence, alias analysis of the flattened table renderer, three-valued NaN walk of the template's stop test; statement order of the generated sweep; the class-exclusivity clauses of C14.R2 recorded as R1")
EXPLANATION = (
    'Extracts the identifiers the shared parser injects by itself and checks that each consumer binds them (the in-process '
    'solver defines k as an exogenous series; the generator must put it into its template scope). Checks that all emitters '
    'of the generator range over one ordered variable list built in lock-step with the equation list, that results are '
    'unpacked from a prefix in the same order, and that lagged / exogenous values are packed at STEP-1 / STEP. The generated '
    "module's numerics are not decided.")


def injected_names(prog):
    """identifiers appearing in right-hand sides that the parser appends by itself (string literals)"""
    f, loop = parser_line_loop(prog)
    out = {}
    for n in ast.walk(f.node):
        if isinstance(n, ast.Call) and call_name(n) == 'append' and n.args and isinstance(n.args[0], ast.Tuple) and \
                len(n.args[0].elts) == 2 and all(isinstance(e, ast.Constant) and isinstance(e.value, str) for e in n.args[0].elts):
            lhs, rhs = n.args[0].elts[0].value, n.args[0].elts[1].value
            try:
                tree = ast.parse(rhs, mode='eval')
            except SyntaxError:
                continue
            for x in ast.walk(tree):
                if isinstance(x, ast.Name):
                    out.setdefault(x.id, []).append('%s = %s' % (lhs, rhs))
    return f, out


def run(prog, check):
    check.explanation = EXPLANATION
    check.not_decided = "the generated module's numerics; equality with the in-process series"
    check.assumptions = ['the template scope of the generated module is: the unpacked variable vector, math.*, builtins']
    pf, inj = injected_names(prog)
    check.saw(pf)
    gen_cls = None
    for ci in prog.classes.values():
        if 'GenerateFunction' in ci.methods and 'GenerateEquations' in ci.methods:
            gen_cls = ci
    if gen_cls is None:
        raise AnalysisError('code generator class not found')
    ic = solver_function(prog, 'initial_conditions')
    check.saw(ic)
    if not inj:
        check.note('the shared parser injects no identifiers of its own')
    # ---- R1 ----------------------------------------------------------------------------------------
    for name, eqs in sorted(inj.items()):
        # consumer 1: the in-process solver binds the name as a series
        bound1 = any(isinstance(n, ast.Call) and call_name(n) == 'append' and n.args and isinstance(n.args[0], ast.Tuple)
                     and isinstance(n.args[0].elts[0], ast.Constant) and n.args[0].elts[0].value == name
                     for n in ast.walk(ic.node))
        check.ob('C20.R1', '%s::implicit-name(%r) bound' % (ic.key.rsplit('.', 1)[0], name), bound1, ic.where,
                 'in-process solver defines %r as a series' % name if bound1 else 'in-process solver does not bind %r' % name,
                 'a block without a user-defined t (parser adds %s)' % eqs[0])
        # consumer 2: the generator: the name must enter AllVariables / Exogenous / the template
        bound2 = False
        for f in gen_cls.methods.values():
            for n in ast.walk(f.node):
                if isinstance(n, ast.Constant) and n.value == name:
                    p = getattr(n, '_parent', None)
                    # ('k', ...) appended / 'k' added to a variable list
                    while p is not None and not isinstance(p, ast.stmt):
                        if isinstance(p, ast.Call) and call_name(p) in ('append', 'insert', 'extend'):
                            bound2 = True
                        p = getattr(p, '_parent', None)
        mod = gen_cls.module
        for n in ast.walk(mod.tree):
            if isinstance(n, ast.Constant) and isinstance(n.value, str) and '\n' in n.value and 'class SFCModel' in n.value:
                import re
                if re.search(r'^\s+%s\s*=' % re.escape(name), n.value, re.M):
                    bound2 = True
        check.ob('C20.R1', '%s::%s::implicit-name(%r) unbound' % (gen_cls.module.rel, gen_cls.name, name), bound2,
                 '%s:%d' % (gen_cls.module.rel, gen_cls.node.lineno),
                 'generator binds %r in the generated scope' % name if bound2 else
                 'the shared parser injects `%s` but the generated module never defines %r: NameError at the first step' % (eqs[0], name),
                 'every block without a user-defined time variable')
    # ---- R2 ----------------------------------------------------------------------------------------
    from ..inline import flatten
    from ..tableterm import TermEval, canon_index, show, rep_parts, alpha_eq
    allvar, eqlist = 'AllVariables', 'EquationList'
    ge_raw = gen_cls.methods['GenerateEquations']
    gf_raw = gen_cls.methods['GenerateFunction']
    check.saw(ge_raw)
    ge = flatten(prog, ge_raw)
    list_names = set()
    for n in ast.walk(ge.node):
        if isinstance(n, ast.Assign) and isinstance(n.targets[0], ast.Attribute) and isinstance(n.value, ast.List) and not n.value.elts:
            list_names.add(n.targets[0].attr)
    te = TermEval(ge.node)
    te.run(ge.params())
    finals = [env for env, a_ in te.finals] or [{}]
    if len(finals) != 1 or [r_ for r_ in te.returns if r_[0] != ('opaque', 'None')]:
        raise AnalysisError('C20.R2: %s does not have one straight path building the lists' % ge.qualname)
    env = finals[0]

    def segments(term):
        """[(source attribute, element term with the index variable, index variable)] or None"""
        t = canon_index(term)
        segs = t[1] if t[0] == 'concat' else ((t,) if t != ('lit', ()) else ())
        out = []
        for sg in segs:
            if sg[0] != 'map' or sg[3][0] != 'range' or sg[3][1] != ('int', 0) or sg[3][2][0] != 'len' or sg[3][2][1][0] != 'attr':
                return None
            out.append((sg[3][2][1][1], sg[2], sg[1]))
        return out
    av = segments(env.get('self.' + allvar, ('opaque', 'never assigned')))
    eq = segments(env.get('self.' + eqlist, ('opaque', 'never assigned')))
    if av is None or eq is None:
        check.ob('C20.R2', '%s::lockstep(lists)' % ge_raw.key, False, ge_raw.where,
                 'the variable vector / equation list are not built as one element per item of the parser lists: %s / %s' % (
                     show(canon_index(env.get('self.' + allvar, ('opaque', '?'))))[:200], show(canon_index(env.get('self.' + eqlist, ('opaque', '?'))))[:200]),
                 'any block: NEW_x must be computed from the equation of x')
        av, eq = av or [], eq or []
    srcs = []
    for k_ in range(max(len(av), len(eq))):
        sa = av[k_][0] if k_ < len(av) else None
        se = eq[k_][0] if k_ < len(eq) else None
        src = sa or se
        srcs.append(src)
        ok = sa == se
        check.ob('C20.R2', '%s::lockstep(self.%s)' % (ge_raw.key, src), ok, ge_raw.where,
                 'one variable and one equation appended per item of self.%s' % src if ok else
                 'segment %d of the variable vector ranges over self.%s, of the equation list over self.%s: the lists are not index-aligned' % (k_, sa, se),
                 'any block: NEW_x must be computed from the equation of x')
    check.ob('C20.R2', '%s::endogenous-first' % ge_raw.key, srcs[:1] == ['Endogenous'], ge_raw.where,
             'variable vector order: %s' % srcs, 'results are unpacked from a prefix of the vector')
    roles_ok = bool(av) and bool(eq) and len(av) == len(eq)
    why = []
    for (sa, ta, va), (se, te_, ve) in zip(av, eq):
        name_a = ('idx', ('idx', ('attr', sa), va), ('int', 0))
        if ta != name_a:
            roles_ok = False
            why.append('the vector holds `%s` for self.%s' % (show(ta), sa))
        want = ('idx', ('idx', ('attr', se), ve), ('int', 1 if se == 'Endogenous' else 0))
        if te_ != want:
            roles_ok = False
            why.append('the equation list holds `%s` for self.%s, required `%s`' % (show(te_), se, show(want)))
    check.ob('C20.R2', '%s::name-and-equation-roles' % ge_raw.key, roles_ok, ge_raw.where,
             'names go to the vector; right-hand sides (endogenous) / the carried-over name (lagged, exogenous) to the equation list'
             if roles_ok else '; '.join(why)[:500], 'any block')
    # the reported variables: the vector without the lag carriers, same order
    if 'NonLagged' in list_names or 'self.NonLagged' in env:
        nl = segments(env.get('self.NonLagged', ('opaque', 'never assigned')))
        want_nl = [sg for sg in av if sg[0] != 'Lagged']
        ok_nl = nl is not None and len(nl) == len(want_nl) and all(
            a_[0] == b_[0] and alpha_eq(('map', a_[2], a_[1], ('attr', a_[0])), ('map', b_[2], b_[1], ('attr', b_[0]))) for a_, b_ in zip(nl, want_nl))
        check.ob('C20.R2', '%s::reported-variables' % ge_raw.key, ok_nl, ge_raw.where,
                 'the reported variables are the names of self.Endogenous and self.Exogenous (the vector without the lag carriers)' if ok_nl else
                 'the reported variables are `%s`, required the names of every endogenous and exogenous item and no lag carrier' %
                 show(canon_index(env.get('self.NonLagged', ('opaque', '?'))))[:240],
                 'a lag carrier not named LAG_*, or an ordinary variable named LAG_*')
    check.saw(gf_raw)
    gf = flatten(prog, gf_raw)
    uses = [n for n in ast.walk(gf.node) if isinstance(n, ast.Attribute) and n.attr in list_names | {allvar, eqlist}]
    srcs_ = sorted({n.attr for n in uses})
    tf = TermEval(gf.node)
    tf.run(gf.params())
    from ..tableterm import expand_empty_joins
    texts = [expand_empty_joins(canon_index(t_)) for t_, a_, l_ in tf.returns]
    ok_one, okb, whyb = bool(texts), bool(texts), ''
    for t_ in texts:
        parts = t_[1] if t_[0] == 'cat' else (t_,)
        joins = [p_ for p_ in parts if p_[0] == 'join']
        reps = [p_ for p_ in parts if p_[0] == 'rep']
        # unpack line joins the vector itself, the return line joins the decorated vector
        plain = [j for j in joins if j[2] == ('attr', allvar)]
        deco = [j for j in joins if j[2][0] == 'map' and j[2][3] == ('range', ('int', 0), ('len', ('attr', allvar)))
                and j[2][2][0] == 'cat' and len(j[2][2][1]) == 2 and j[2][2][1][0][0] == 'str' and j[2][2][1][1] == ('idx', ('attr', allvar), j[2][1])]
        if not (len(joins) == 2 and len(plain) == 1 and len(deco) == 1 and set(srcs_) <= {allvar, eqlist}):
            ok_one = False
        prefix = deco[0][2][2][1][0][1] if deco else None
        if len(reps) != 1:
            okb, whyb = False, 'the text has %d repeated parts' % len(reps)
            continue
        rp = reps[0]
        rparts = rep_parts(rp)
        dyn = [p_ for p_ in rparts if p_[0] != 'str']
        i_ = rp[1]
        want = [('idx', ('attr', allvar), i_), ('idx', ('attr', eqlist), i_)]
        rng_ok = rp[3] in (('range', ('int', 0), ('len', ('attr', allvar))), ('range', ('int', 0), ('len', ('attr', eqlist))))
        before = None
        for k_, p_ in enumerate(rparts):
            if p_ == want[0] and k_ > 0 and rparts[k_ - 1][0] == 'str':
                before = rparts[k_ - 1][1]
        between = [p_ for p_ in rparts[[k_ for k_, p_ in enumerate(rparts) if p_ == want[0]][0] + 1:] if p_[0] == 'str'][:1] if want[0] in rparts else []
        if dyn != want or not rng_ok or prefix is None or before is None or not before.endswith(prefix) or not (between and '=' in between[0][1]):
            okb = False
            whyb = 'one line of the body is `%s` for the index in `%s`' % (show(('cat', rparts))[:200], show(rp[3]))
    check.ob('C20.R2', '%s::iterator-uses-one-list' % gf_raw.key, ok_one, gf_raw.where,
             'iterator unpack / body / return range over %s' % srcs_, 'any block')
    check.ob('C20.R2', '%s::body-indexed-consistently' % gf_raw.key, okb, gf_raw.where,
             'NEW_<var>[i] = EquationList[i] for i in range(len(AllVariables))' if okb else
             'iterator body does not pair decorated[i] with EquationList[i] over the whole vector (%s)' % whyb, 'any block')
    # the derived lists and the iterator text are rebuilt by every call of the entry point that writes the file
    writer_names = {m_ for m_ in gen_cls.methods if m_ == 'GenerateFile'}
    for m_ in gen_cls.methods.values():
        calls_ = {call_name(c_) for c_ in ast.walk(m_.node) if isinstance(c_, ast.Call) and isinstance(c_.func, ast.Attribute)
                  and isinstance(c_.func.value, ast.Name) and c_.func.value.id == 'self'}
        if not (writer_names & calls_) or m_.name in writer_names:
            continue
        mf = flatten(prog, m_)
        gm = cfgmod.build(mf)

        def calls_to(name):
            return [n_ for n_ in gm.stmt_nodes() if any(isinstance(c_, ast.Call) and call_name(c_) == name and isinstance(c_.func, ast.Attribute)
                                                      and unparse(c_.func.value) == 'self' for c_ in ast.walk(n_.ast if n_.ast is not None else ast.Pass()))
                    and n_.kind in ('stmt', 'test')]
        wr = calls_to('GenerateFile')
        eqs, fns = calls_to(ge_raw.name), calls_to(gf_raw.name)
        ok = bool(wr) and bool(eqs) and bool(fns) and all(gm.must_pass(gm.entry.id, w_, eqs) and gm.must_pass(gm.entry.id, w_, fns) for w_ in wr) \
            and all(gm.must_pass(gm.entry.id, f_, eqs) for f_ in fns)
        check.saw(m_)
        check.ob('C20.R2', '%s::lists-rebuilt-before-writing' % m_.key, ok, m_.where,
                 'every path to the file writer first rebuilds the variable / equation lists and then the iterator text' if ok else
                 'the file can be written without rebuilding the variable / equation lists and the iterator text: after a second '
                 'ParseString the module gets the new declarations and the old iterator', 'ParseString(block1); main(f1); ParseString(block2); main(f2)')
    # a stated initial condition is pasted into the generated module as written (the in-process solver evaluates it as an
    # expression): it is not put through float() first, which would drop every condition that is not a plain literal
    for m_ in gen_cls.methods.values():
        if not any(isinstance(n_, ast.Attribute) and n_.attr == 'InitialConditions' and isinstance(n_.ctx, ast.Load) for n_ in ast.walk(m_.node)):
            continue
        mf = flatten(prog, m_)
        tainted = set()
        grew = True
        while grew:
            grew = False
            for n_ in ast.walk(mf.node):
                src_, tg_ = None, []
                if isinstance(n_, ast.Assign):
                    src_, tg_ = n_.value, [x_.id for t_ in n_.targets for x_ in ast.walk(t_) if isinstance(x_, ast.Name)]
                elif isinstance(n_, (ast.For, ast.comprehension)):
                    src_, tg_ = n_.iter, [x_.id for x_ in ast.walk(n_.target) if isinstance(x_, ast.Name)]
                if src_ is None:
                    continue
                hit = any((isinstance(x_, ast.Attribute) and x_.attr == 'InitialConditions') or (isinstance(x_, ast.Name) and x_.id in tainted)
                          for x_ in ast.walk(src_))
                for nm_ in tg_:
                    if hit and nm_ not in tainted:
                        tainted.add(nm_)
                        grew = True
        bad_f = [c_ for c_ in ast.walk(mf.node) if isinstance(c_, ast.Call) and isinstance(c_.func, ast.Name) and c_.func.id == 'float' and c_.args and
                 any((isinstance(x_, ast.Name) and x_.id in tainted) or (isinstance(x_, ast.Attribute) and x_.attr == 'InitialConditions')
                     for x_ in ast.walk(c_.args[0]))]
        check.saw(m_)
        check.ob('C20.R2', '%s::initial-condition-text-used-as-written' % m_.key, not bad_f,
                 '%s:%d' % (mf.module.rel, bad_f[0].lineno) if bad_f else m_.where,
                 'the initial-condition text reaches the generated module without a numeric conversion in between' if not bad_f else
                 'the initial-condition text is tried with `%s` first: a condition written as an expression (0.4*200) is dropped and the '
                 'generated module starts that variable elsewhere than the in-process solver' % unparse(bad_f[0])[:60],
                 'H(0) = 0.4*200')
    go = gen_cls.methods.get('GenerateOrigVector')
    if go is not None:
        check.saw(go)
        ok = any(isinstance(n, ast.Attribute) and n.attr == allvar for n in ast.walk(go.node))
        check.ob('C20.R2', '%s::orig-vector' % go.key, ok, go.where, 'packed vector is AllVariables', 'any block')
    gu = gen_cls.methods['GenerateUnpackVars']
    check.saw(gu)
    lp = [n for n in ast.walk(gu.node) if isinstance(n, ast.For)]
    ok = len(lp) == 1 and unparse(lp[0].iter) == 'self.Endogenous'
    cnt_ok = False
    if ok:
        incs = [n for n in ast.walk(lp[0]) if isinstance(n, ast.AugAssign) and isinstance(n.op, ast.Add) and lin_eq(linform(n.value), {'': 1})]
        inits = [n for n in ast.walk(gu.node) if isinstance(n, ast.Assign) and isinstance(n.targets[0], ast.Name)
                 and incs and n.targets[0].id == target_names(incs[0].target)[0] and lin_eq(linform(n.value), {'': 0})]
        cnt_ok = len(incs) == 1 and len(inits) == 1
    elif len(lp) == 1 and isinstance(lp[0].iter, ast.Call) and call_name(lp[0].iter) == 'enumerate' and lp[0].iter.args and \
            unparse(lp[0].iter.args[0]) == 'self.Endogenous' and (len(lp[0].iter.args) == 1 or lin_eq(linform(lp[0].iter.args[1]), {'': 0})) \
            and not any(k.arg == 'start' and not lin_eq(linform(k.value), {'': 0}) for k in lp[0].iter.keywords):
        # for cnt, (name, eqn) in enumerate(self.Endogenous): the index is the position in the prefix
        idx = target_names(lp[0].target)[0]
        uses = any(isinstance(x, ast.Name) and x.id == idx and isinstance(x.ctx, ast.Load) for x in ast.walk(lp[0]))
        rebinds = any(isinstance(x, ast.Name) and x.id == idx and isinstance(x.ctx, ast.Store) for st in lp[0].body for x in ast.walk(st))
        ok, cnt_ok = True, uses and not rebinds
    check.ob('C20.R2', '%s::unpack-prefix' % gu.key, ok and cnt_ok, gu.where,
             'results are read from orig_vector[0..n_endogenous) in Endogenous order' if (ok and cnt_ok) else
             'result unpacking does not index the Endogenous prefix 0,1,2,...', 'a block with lagged and exogenous variables')
    gp = gen_cls.methods['GeneratePackVars']
    check.saw(gp)
    for lp in [n for n in ast.walk(gp.node) if isinstance(n, ast.For)]:
        part = unparse(lp.iter).split('.')[-1]
        lits = [c.value for c in ast.walk(lp) if isinstance(c, ast.Constant) and isinstance(c.value, str) and '[' in c.value]
        for lit in lits:
            inner = lit[lit.index('[') + 1: lit.index(']')]
            try:
                lf = linform(ast.parse(inner.strip(), mode='eval').body)
            except SyntaxError:
                lf = None
            want = {'Endogenous': {'': -1}, 'Lagged': {'self.STEP': 1, '': -1}, 'Exogenous': {'self.STEP': 1, '': 0}}.get(part)
            ok = want is not None and lin_eq(lf, want)
            check.ob('C20.R2', '%s::pack-index(%s)' % (gp.key, part), ok, '%s:%d' % (gp.module.rel, lp.lineno),
                     '%s packed from index %s (required %s)' % (part, lin_str(lf), lin_str(want)),
                     'lags from its own previous period, exogenous from the supplied path at the current period')
        if part == 'Lagged':
            tv = target_names(lp.target)
            # the source series is the second component
            src_ok = any(isinstance(b, ast.BinOp) and any(isinstance(x, ast.Name) and x.id == tv[1] for x in ast.walk(b))
                         for b in ast.walk(lp))
            check.ob('C20.R2', '%s::lag-source' % gp.key, src_ok, '%s:%d' % (gp.module.rel, lp.lineno),
                     'a lag reads the series of its source variable', 'LAG_x = x(k-1)')
    # generator consumes the validated parser lists including decoration (C11.R3 checks the validation)
    ps = gen_cls.methods['ParseString']
    deco = any(isinstance(n, ast.Attribute) and n.attr == 'Decoration' for n in ast.walk(ps.node))
    check.ob('C20.R2', '%s::decoration-consumed' % ps.key, deco, ps.where,
             'decorative equations are carried over (appended to the endogenous block)' if deco else
             'decorative equations of a reduced block are dropped', 'generator with equation reduction on')
    # every emission starts from empty lists (a generator object may emit more than once)
    g_ge = cfgmod.build(ge)
    for L in sorted(list_appended_attrs(ge.node)):
        resets = [n for n in g_ge.stmt_nodes() if n.kind == 'stmt' and isinstance(n.ast, ast.Assign) and
                  isinstance(n.ast.targets[0], ast.Attribute) and n.ast.targets[0].attr == L and isinstance(n.ast.value, ast.List)
                  and not n.ast.value.elts]
        apps = [n for n in g_ge.stmt_nodes() if n.kind == 'stmt' and any(
            isinstance(c, ast.Call) and call_name(c) == 'append' and isinstance(c.func.value, ast.Attribute) and c.func.value.attr == L
            for c in ast.walk(n.ast))]
        ok = bool(resets) and all(any(g_ge.dominates(r, a) for r in resets) for a in apps)
        check.ob('C20.R2', '%s::fresh-list-per-emission(%s)' % (ge.key, L), ok, ge.where,
                 'self.%s is re-created empty before it is filled' % L if ok else
                 'self.%s is appended to without being reset: a second emission from the same generator doubles every entry' % L,
                 'gen.main(a.py); gen.main(b.py) on one generator object: every column appears twice')
    # the convergence measure inside the generated module agrees with the generator's own (tested) CalcError
    tmpl = None
    for n in ast.walk(gen_cls.module.tree):
        if isinstance(n, ast.Constant) and isinstance(n.value, str) and 'class SFCModel' in n.value:
            tmpl = n
    if tmpl is None:
        raise AnalysisError('module template not found')
    import re as _re
    lines = tmpl.value.replace('$$$', '"""').split('\n')
    out_lines, prev_indent = [], ''
    for ln in lines:
        m_ph = _re.match(r'^\s*(<[A-Z_]+>|VAR_DECLARATION|ITERATOR)\s*$', ln)
        if m_ph:
            # a block of generated statements: stands as one statement (named after the placeholder) at the depth of its surroundings
            ind_ = prev_indent + ('    ' if out_lines and out_lines[-1].rstrip().endswith(':') else '')
            if m_ph.group(1) in ('VAR_DECLARATION', 'ITERATOR'):
                out_lines.append(ind_ + 'pass')
            else:
                out_lines.append(ind_ + 'PLACEHOLDER_' + m_ph.group(1).strip('<>'))
            continue
        ln = _re.sub(r'<[A-Z_]+>', 'PLACEHOLDER', ln).replace('MAXTIME', '0')
        if ln.strip():
            prev_indent = ln[:len(ln) - len(ln.lstrip())]
        out_lines.append(ln)
    src = '\n'.join(out_lines)
    try:
        ttree = ast.parse(src)
    except SyntaxError as e:
        raise AnalysisError('module template is not parseable after placeholder substitution: %s' % e)
    tcalc = [f for c in ast.walk(ttree) if isinstance(c, ast.ClassDef) for f in c.body if isinstance(f, ast.FunctionDef) and f.name == 'CalcError']
    own = gen_cls.methods.get('CalcError')
    if not tcalc or own is None:
        raise AnalysisError('CalcError not found in the template / the generator')

    def body_dump(fn):
        """structure of the body with local names canonicalised by order of first appearance (alpha-equivalence)"""
        import copy as _copy
        body = [_copy.deepcopy(st) for st in fn.body if not (isinstance(st, ast.Expr) and isinstance(st.value, ast.Constant))]
        names = {}
        for st in body:
            for x in ast.walk(st):
                if isinstance(x, ast.Name) and x.id not in ('abs', 'zip', 'sum', 'len', 'range', 'float', 'max', 'min'):
                    names.setdefault(x.id, 'v%d' % len(names))
                    x.id = names[x.id]
        return [ast.dump(st) for st in body]
    same = body_dump(tcalc[0]) == body_dump(own.node)
    # each pair contributes abs(a - b)
    per_pair = any(isinstance(a, ast.AugAssign) and isinstance(a.op, ast.Add) and isinstance(a.value, ast.Call) and call_name(a.value) == 'abs'
                   and isinstance(a.value.args[0], ast.BinOp) and isinstance(a.value.args[0].op, ast.Sub) for a in ast.walk(tcalc[0]))
    check.ob('C20.R2', '%s::template-CalcError-agrees' % gen_cls.key, same and per_pair, '%s:%d' % (gen_cls.module.rel, tmpl.lineno),
             'the generated CalcError is the sum of abs(new - old) over the vector, identical to the generator\'s own' if (same and per_pair) else
             'the CalcError emitted into the generated module differs from IterativeMachineGenerator.CalcError / is not a sum of absolute differences: '
             'offsetting movements cancel and the sweep stops early', 'a block with mirror entries such as ASSET = 2*M, LIAB = -2*M')
    # the stop test of the generated sweep uses that measure against the tolerance, with an iteration cap
    runstep = [f for c in ast.walk(ttree) if isinstance(c, ast.ClassDef) for f in c.body if isinstance(f, ast.FunctionDef) and f.name == 'RunOneStep']
    ok_loop = False
    if runstep:
        for w in ast.walk(runstep[0]):
            if isinstance(w, ast.While) and 'Err_Tolerance' in unparse(w.test) and any(isinstance(x, ast.Raise) for x in ast.walk(w)) and \
                    any(isinstance(c, ast.Call) and call_name(c) == 'CalcError' for c in ast.walk(w)):
                ok_loop = True
    check.ob('C20.R2', '%s::template-sweep-loop' % gen_cls.key, ok_loop, '%s:%d' % (gen_cls.module.rel, tmpl.lineno),
             'the generated sweep iterates until CalcError <= Err_Tolerance and raises at the cap' if ok_loop else
             'the generated sweep loop lost its error test or its cap', 'a non-converging block')
    # the measure compares the vector before the sweep with the vector after it: inside the loop the order is
    #   new = Iterator(old);  err = CalcError(old, new);  old = new      (copying first makes the error identically zero)
    if runstep:
        for w in ast.walk(runstep[0]):
            if not (isinstance(w, ast.While) and any(isinstance(c, ast.Call) and call_name(c) == 'CalcError' for c in ast.walk(w))):
                continue
            i_it = i_err = i_cp = None
            new_nm = old_nm = None
            for i_, st_ in enumerate(w.body):
                if isinstance(st_, ast.Assign) and len(st_.targets) == 1 and isinstance(st_.targets[0], ast.Name):
                    v_ = st_.value
                    if isinstance(v_, ast.Call) and call_name(v_) == 'Iterator' and len(v_.args) == 1 and isinstance(v_.args[0], ast.Name) and i_it is None:
                        i_it, new_nm, old_nm = i_, st_.targets[0].id, v_.args[0].id
                    elif isinstance(v_, ast.Call) and call_name(v_) == 'CalcError' and i_err is None:
                        i_err = i_
                        err_args = [a_.id for a_ in v_.args if isinstance(a_, ast.Name)]
                    elif isinstance(v_, ast.Name) and new_nm is not None and st_.targets[0].id == old_nm and v_.id == new_nm and i_cp is None:
                        i_cp = i_
            if i_it is None or i_err is None:
                continue          # another shape of the loop: not judged here
            ok_ord = i_it < i_err and (i_cp is None or i_err < i_cp) and set(err_args) == {old_nm, new_nm}
            check.ob('C20.R2', '%s::template-error-compares-before-and-after' % gen_cls.key, ok_ord, '%s:%d' % (gen_cls.module.rel, tmpl.lineno),
                     'the generated sweep measures the change between the vector before and after Iterator()' if ok_ord else
                     'in the generated sweep the old vector is overwritten (or the wrong vectors are compared) before the error is taken: the error '
                     'is zero after one sweep and unconverged values are stored', 'any simultaneous block: Y = C + G is violated at the stored values')
    # the period counter is advanced before the generated statements read the lags (STEP - 1) and the exogenous values (STEP)
    if runstep:
        body_ = runstep[0].body
        i_step = [i_ for i_, st_ in enumerate(body_) if isinstance(st_, ast.AugAssign) and isinstance(st_.target, ast.Attribute) and
                  st_.target.attr == 'STEP']
        i_pack = [i_ for i_, st_ in enumerate(body_) if isinstance(st_, ast.Expr) and isinstance(st_.value, ast.Name) and
                  st_.value.id == 'PLACEHOLDER_PACK_VARS']
        if i_step and i_pack:
            ok_st = i_step[0] < i_pack[0]
            check.ob('C20.R2', '%s::template-step-advanced-before-inputs-are-read' % gen_cls.key, ok_st, '%s:%d' % (gen_cls.module.rel, tmpl.lineno),
                     'self.STEP is advanced before the lags and exogenous values of the period are read' if ok_st else
                     'the generated step reads its lags and exogenous values before self.STEP is advanced: they are those of the previous period',
                     'any block with a lag or a time-varying exogenous path, from the second period on')
    # the generated module solves periods 1..MaxTime: its driver loop runs while STEP < MaxTime (STEP starts at 0 and is advanced first
    # thing in the step); `<=` runs one period past the exogenous paths, which were cut to MaxTime + 1 points
    tmain = [f for c in ast.walk(ttree) if isinstance(c, ast.ClassDef) for f in c.body if isinstance(f, ast.FunctionDef) and f.name == 'main']
    for fm_ in tmain:
        for w in ast.walk(fm_):
            if isinstance(w, ast.While) and isinstance(w.test, ast.Compare) and len(w.test.ops) == 1 and 'STEP' in unparse(w.test) and \
                    any(isinstance(c_, ast.Call) and call_name(c_) == 'RunOneStep' for c_ in ast.walk(w)):
                l_, r_, op_ = w.test.left, w.test.comparators[0], w.test.ops[0]
                ok_b = ('STEP' in unparse(l_) and isinstance(op_, ast.Lt)) or ('STEP' in unparse(r_) and isinstance(op_, ast.Gt))
                check.ob('C20.R2', '%s::template-driver-runs-MaxTime-steps' % gen_cls.key, ok_b, '%s:%d' % (gen_cls.module.rel, tmpl.lineno),
                         'the generated driver steps while STEP < MaxTime' if ok_b else
                         'the generated driver loop tests `%s`: it runs a step beyond the horizon (the exogenous lists end at MaxTime)' % unparse(w.test),
                         'any block with an exogenous variable: IndexError in the last step')
    # the table of the generated module lists the non-lagged variables: the list handed to BaseSolver is that collection
    for gf_ in gen_cls.methods.values():
        for c_ in ast.walk(gf_.node):
            if isinstance(c_, ast.Call) and call_name(c_) == 'replace' and len(c_.args) == 2 and isinstance(c_.args[0], ast.Constant) and \
                    c_.args[0].value == '<VARIABLE_LIST>':
                src_ = [x_.attr for x_ in ast.walk(c_.args[1]) if isinstance(x_, ast.Attribute) and isinstance(x_.value, ast.Name) and x_.value.id == 'self']
                ok_v = src_ == ['NonLagged']
                check.ob('C20.R2', '%s::variable-list-is-the-non-lagged-variables' % gf_.key, ok_v, '%s:%d' % (gf_.module.rel, c_.lineno),
                         'the generated module is given self.NonLagged as its variable list' if ok_v else
                         'the generated module is given `%s` as its variable list: the table lists other columns than the non-lagged variables'
                         % unparse(c_.args[1]), 'a block with a lagged variable: LAG_x must not be a column, every other variable once')
    # ---- R4: the generated sweep cannot report a period whose error measure is NaN (same rule as C02.R1) ------------
    from .C02 import tv, mentions
    if runstep:
        rs = runstep[0]
        for node in ast.walk(rs):
            for ch in ast.iter_child_nodes(node):
                ch._parent = node
        gr = cfgmod.CFG(rs)
        loops_t = [w for w in ast.walk(rs) if isinstance(w, ast.While) and 'Err_Tolerance' in unparse(w.test)]
        okn, whyn = False, 'sweep loop not found in the template'
        if loops_t:
            w = loops_t[0]
            meas = [x.id for x in ast.walk(w.test) if isinstance(x, ast.Name)]
            E = meas[0] if meas else None
            inside = set(id(x) for x in ast.walk(w))
            starts = [n for n in gr.nodes if n.kind == 'stmt' and id(n.ast) in inside and isinstance(n.ast, ast.Assign) and
                      any(isinstance(t, ast.Name) and t.id == E for t in n.ast.targets)]

            def edge_ok(a, b, lab):
                na = gr.nodes[a]
                if na.kind == 'test' and mentions(na.ast, E):
                    return lab in tv(na.ast, E)
                return True
            seen_n = gr.reach(starts, avoid={gr.raise_exit.id}, edge_ok=edge_ok)
            okn = gr.exit.id not in seen_n
            whyn = ('with %s = NaN the generated step cannot finish normally (stop test `%s`)' % (E, unparse(w.test))) if okn else \
                ('stop test `%s`: a NaN %s (overflowed iterates) ends the loop and the period is unpacked as solved' % (unparse(w.test), E))
        check.ob('C20.R4', '%s::template-NaN-safe-stop' % gen_cls.key, okn, '%s:%d' % (gen_cls.module.rel, tmpl.lineno), whyn,
                 'a block whose iterates overflow, e.g. x = 1000*x + 1: the in-process solver raises, the generated module returns inf')
    # the generator and the in-process solver read the block through one parser: a run parameter that is also filed as a variable
    # becomes an attribute of the generated class and collides with its settings (the class-exclusivity clauses of C14.R2)
    if not getattr(check, '_borrowing', False):
        from ..report import Borrowed
        from . import C14 as _c14
        b14 = Borrowed(check, lambda rule, key: rule == 'C14.R2' and ('one-class' in key or 'class-has-a-store' in key), 'C20.R1',
                       'a block that states its Err_Tolerance or MaxTime: the generated module must still import and run')
        b14.run_lender(_c14, prog)
    check.floor('C20.R4', 1)
    # ---- R3 ----------------------------------------------------------------------------------------
    acc = discover_accessors(prog)
    base = [f for f in acc['renderer'] if f.cls is not None and f.cls.name == 'BaseSolver']
    if len(base) != 1:
        raise AnalysisError('BaseSolver table renderer not found')
    b = base[0]
    summ = Summaries(prog)
    check_accessor(prog, check, b, 'renderer', summ, pid_rules=('C20.R3', 'C20.R3'))
    # time axis first, each variable once: on every path to the header, the column sequence is evaluated symbolically
    #   L = copy of VariableList;  L.remove('t') -> L-t;  ['t'] + X / X.insert(0, 't') -> t+X
    # required:  t+(L-t) on paths where `'t' in L` held,  L on paths where it did not
    gb = cfgmod.build(b)
    header = None
    for nd in gb.stmt_nodes():
        if nd.kind == 'stmt' and header is None:
            for c in ast.walk(nd.ast):
                if isinstance(c, ast.Call) and call_name(c) == 'join' and isinstance(c.func, ast.Attribute) and \
                        isinstance(c.func.value, ast.Constant) and c.func.value.value == '\t' and c.args and isinstance(c.args[0], ast.Name):
                    header = (nd, c.args[0].id)
                    break
    ok = False
    why_t = 'the header row is not the tab-join of a column sequence'
    if header is not None:
        hnode, seqname = header

        def symv(e, env):
            if isinstance(e, ast.Name):
                return env.get(e.id, ('?', e.id))
            if isinstance(e, ast.Call) and call_name(e) in ('list', 'copy') and len(e.args) == 1:
                inner = symv(e.args[0], env)
                return inner
            if isinstance(e, ast.Attribute) and e.attr == 'VariableList':
                return ('L',)
            if isinstance(e, ast.Subscript) and isinstance(e.slice, ast.Slice) and e.slice.lower is None and e.slice.upper is None:
                return symv(e.value, env)
            if isinstance(e, ast.BinOp) and isinstance(e.op, ast.Add) and isinstance(e.left, ast.List) and len(e.left.elts) == 1 \
                    and getattr(e.left.elts[0], 'value', None) == 't':
                return ('t+', symv(e.right, env))
            return ('?', unparse(e))
        ok = True
        npaths = 0
        for path in gb.paths(gb.entry, hnode, cap=2000):
            env, conds = {}, []
            for i_, nid in enumerate(path[:-1]):
                nd = gb.nodes[nid]
                out_labs_ = [lab for b_, lab in gb.succ[nid] if b_ == path[i_ + 1]]
                failed_ = bool(out_labs_) and out_labs_[0] in ('exc', 'raise')
                if nd.kind == 'stmt' and isinstance(nd.ast, ast.Assign) and len(nd.ast.targets) == 1 and isinstance(nd.ast.targets[0], ast.Name) and \
                        isinstance(nd.ast.value, ast.Call) and isinstance(nd.ast.value.func, ast.Attribute) and nd.ast.value.func.attr == 'index' and \
                        isinstance(nd.ast.value.func.value, ast.Name) and len(nd.ast.value.args) == 1 and getattr(nd.ast.value.args[0], 'value', None) == 't':
                    # p = X.index('t'): raises ValueError exactly when 't' is not in X; otherwise p is the position of 't'
                    lst_ = nd.ast.value.func.value.id
                    cur_ = env.get(lst_, ('?', lst_))
                    conds.append((cur_, not failed_))
                    if not failed_:
                        env[nd.ast.targets[0].id] = ('pos-of-t', lst_)
                elif nd.kind == 'stmt' and isinstance(nd.ast, ast.Delete) and len(nd.ast.targets) == 1 and isinstance(nd.ast.targets[0], ast.Subscript) and \
                        isinstance(nd.ast.targets[0].value, ast.Name) and isinstance(nd.ast.targets[0].slice, ast.Name) and \
                        env.get(nd.ast.targets[0].slice.id) == ('pos-of-t', nd.ast.targets[0].value.id):
                    nm_ = nd.ast.targets[0].value.id
                    env[nm_] = ('L-t',) if env.get(nm_) == ('L',) else ('?', 'del on %s' % (env.get(nm_),))
                elif nd.kind == 'stmt' and isinstance(nd.ast, ast.Assign) and len(nd.ast.targets) == 1 and isinstance(nd.ast.targets[0], ast.Name):
                    env[nd.ast.targets[0].id] = symv(nd.ast.value, env)
                elif nd.kind == 'stmt' and isinstance(nd.ast, ast.Expr) and isinstance(nd.ast.value, ast.Call) and \
                        isinstance(nd.ast.value.func, ast.Attribute) and isinstance(nd.ast.value.func.value, ast.Name):
                    c = nd.ast.value
                    nm = c.func.value.id
                    cur = env.get(nm, ('?', nm))
                    out_labs = [lab for b_, lab in gb.succ[nid] if b_ == path[i_ + 1]]
                    failed = bool(out_labs) and out_labs[0] in ('exc', 'raise')
                    if c.func.attr in ('remove', 'index') and len(c.args) == 1 and getattr(c.args[0], 'value', None) == 't' and failed:
                        # list.remove / list.index raise ValueError exactly when 't' is not in the list
                        conds.append((cur, False))
                    elif c.func.attr == 'remove' and len(c.args) == 1 and getattr(c.args[0], 'value', None) == 't':
                        if cur == ('L',):
                            conds.append((cur, True))
                        env[nm] = ('L-t',) if cur == ('L',) else ('?', 'remove on %s' % (cur,))
                    elif c.func.attr == 'insert' and len(c.args) == 2 and getattr(c.args[0], 'value', None) == 0 and \
                            getattr(c.args[1], 'value', None) == 't':
                        env[nm] = ('t+', cur)
                    elif c.func.attr in ('append', 'extend', 'insert', 'remove', 'pop', 'sort', 'reverse', 'clear'):
                        env[nm] = ('?', unparse(c))
                elif nd.kind == 'test':
                    labs = [lab for b_, lab in gb.succ[nid] if b_ == path[i_ + 1]]
                    if labs and labs[0] in (True, False):
                        for _, v, e in atomic_facts(nd.ast, labs[0]):
                            if isinstance(e, ast.Compare) and len(e.ops) == 1 and isinstance(e.ops[0], ast.In) and \
                                    getattr(e.left, 'value', None) == 't':
                                conds.append((symv(e.comparators[0], env), v))
            npaths += 1
            val = env.get(seqname, ('?', seqname))
            has_t = [v for x, v in conds if x == ('L',)]
            if not has_t:
                ok, why_t = False, "a path reaches the header without testing whether 't' is a variable"
            elif has_t[-1] and val != ('t+', ('L-t',)):
                ok, why_t = False, "with a 't' variable the column sequence is %s, not ['t'] + (the others)" % (val,)
            elif not has_t[-1] and val != ('L',):
                ok, why_t = False, "without a 't' variable the column sequence is %s, not the variable list" % (val,)
        if not npaths:
            ok, why_t = False, 'no path to the header'
    check.ob('C20.R3', '%s::time-axis-first-once' % b.key, ok, b.where,
             "'t' is moved to the front (removed once, prepended once)" if ok else "'t' is not moved to the front exactly once (%s)" % why_t,
             'a block with a t variable')
    # every row lists, in the order of the header, the value of that variable at the row index
    if header is not None:
        from ..tableterm import TermEval as _TE, SEQ as _SEQ, line_groups as _lg, show as _show, canon_index as _ci
        seqname_ = header[1]

        class _SolverTable(_TE):
            def ev(self, e, env):
                if isinstance(e, ast.Name) and e.id == seqname_:
                    return _SEQ
                if isinstance(e, ast.Call) and call_name(e) == 'str' and len(e.args) == 1 and not e.keywords:
                    return ('fmt', ('str', '%s'), self.ev(e.args[0], env))
                return _TE.ev(self, e, env)

            def source_call(self, e, nm, env):
                if nm == 'getattr' and len(e.args) == 2 and unparse(e.args[0]) == 'self':
                    return ('series', self.ev(e.args[1], env))
                return None
        te_ = _SolverTable(b.node)
        te_.run(b.params())
        bad_rows = []
        for term_, assum_, line_ in te_.returns:
            groups_ = _lg(term_) if term_[0] in ('cat', 'str', 'join', 'rep') else None
            where_ = '%s:%d' % (b.module.rel, line_)
            if groups_ is None:
                bad_rows.append((where_, 'the text returned is not a sequence of lines built from the variables: %s' % _show(term_)[:160]))
                continue
            hdr_ok = bool(groups_) and groups_[0] == ('line', ('join', ('str', '\t'), _SEQ))
            rows_ = [g_ for g_ in groups_[1:] if g_[0] == 'lines']
            if not hdr_ok or len(groups_) != 2 or len(rows_) != 1:
                bad_rows.append((where_, 'the table is %s, required the header line and one line per period' % [_show(g_)[:80] for g_ in groups_]))
                continue
            r_ = rows_[0]
            body_ = r_[2]
            want_ = None
            if body_[0] == 'join' and body_[1] == ('str', '\t') and body_[2][0] == 'map' and body_[2][3] == _SEQ:
                want_ = ('fmt', ('str', '%s'), ('cell', body_[2][1], r_[1]))
            if want_ is None or body_[2][2] != want_:
                bad_rows.append((where_, 'a row is `%s`: not the value of every header column, in header order, at the row index' % _show(body_)[:200]))
            if not (r_[3][0] == 'range' and r_[3][1] == ('int', 0)):
                bad_rows.append((where_, 'the rows run over `%s`: the first period is not row 0' % _show(r_[3])[:120]))
        check.ob('C20.R3', '%s::rows-follow-header' % b.key, not bad_rows, bad_rows[0][0] if bad_rows else b.where,
                 'each row holds str(series[i]) for the variables of the header, in header order' if not bad_rows else
                 '; '.join(sorted({x[1] for x in bad_rows}))[:500], 'a block with a t variable that is not the first in the variable list')
    # the generated text is produced from the block that is parsed now: a generator method never hands back text it
    # remembered from an earlier call
    for gm_ in gen_cls.methods.values():
        assigned = {t.attr for n in ast.walk(gm_.node) if isinstance(n, ast.Assign) for t in n.targets
                    if isinstance(t, ast.Attribute) and isinstance(t.value, ast.Name) and t.value.id == 'self'}
        for r_ in ast.walk(gm_.node):
            if isinstance(r_, ast.Return) and isinstance(r_.value, ast.Attribute) and isinstance(r_.value.value, ast.Name) and \
                    r_.value.value.id == 'self' and r_.value.attr in assigned:
                gcf = cfgmod.build(gm_)
                rn = gcf.node_of(r_)
                asg = [nd for nd in gcf.stmt_nodes() if nd.kind == 'stmt' and isinstance(nd.ast, ast.Assign) and any(
                    isinstance(t, ast.Attribute) and t.attr == r_.value.attr for t in nd.ast.targets)]
                fresh = bool(asg) and gcf.must_pass(gcf.entry, rn, asg)
                check.saw(gm_)
                check.ob('C20.R2', '%s::text-not-remembered(%s)' % (gm_.key, r_.value.attr), fresh, '%s:%d' % (gm_.module.rel, r_.lineno),
                         'the returned text was produced in this call' if fresh else
                         'self.%s can be returned without being rebuilt: a second block with the same variables but other equations gets '
                         'the first block\'s iterator' % r_.value.attr, 'the same generator object parsed twice with a changed right-hand side')
    check.floor('C20.R1', 2)
    check.floor('C20.R2', 10)
    check.floor('C20.R3', 2)


def list_appended_attrs(fn):
    out = set()
    for c in ast.walk(fn):
        if isinstance(c, ast.Call) and call_name(c) == 'append' and isinstance(c.func.value, ast.Attribute) and \
                isinstance(c.func.value.value, ast.Name) and c.func.value.value.id == 'self':
            out.add(c.func.value.attr)
    return out
