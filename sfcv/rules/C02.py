"""C02 - whatever the solver returns satisfies the submitted equations (decided structural clauses).

R1 NaN-safe commit   : no CFG path from the error accumulation to a TimeSeries commit is feasible when the
                       convergence measure is NaN (three-valued evaluation of every branch mentioning it).
R2 error covers block: evaluation and error accumulation range over the same collection in the same loop; every
                       path through the per-variable body adds a term derived from abs(new - old).
R3 pinned inputs     : stores into the iterate inside the sweep are the identity copy or keyed by iteration over
                       .Endogenous; lagged values are read at step-1, exogenous at step.
R4 decoration source : decorative equations are evaluated on the committed iterate.
R5 error flag        : the commit is dominated by a raising test of the evaluation-error flag."""
import ast

from ..loader import AnalysisError, unparse, call_name
from ..dataflow import linform, lin_eq, lin_str, single_assign_subst, target_names
from ..solver_model import Sweep, iter_partition, eval_calls, series_mutation

TECHNIQUE = ('static analysis: three-valued (IEEE unordered) branch feasibility walk over a hand-built CFG of the sweep (private helpers inlined at the syntax level); feasible-path search with truthiness constants from every evaluation-error handler to the commit; value flow of the evaluation result through tuples; linear-form normalisation of index expressions; the token-exact renamer clause of C13.R1 and the generated-solver template clauses of C20 are decided by those rule modules and recorded here as R7 / R8')
EXPLANATION = (
    'Decides, on every path of the sweep function, that a NaN convergence measure cannot reach the commit of a period, '
    'that the error measure ranges over exactly the evaluated block with an abs(new-old) term on every path, that lagged '
    'and exogenous inputs are read at step-1 / step, that decorative equations are evaluated on the committed iterate and '
    'that a pending evaluation error blocks the commit. These are necessary conditions of "returned values satisfy the '
    'equations / a diverged period is never reported"; the numerical residual bound itself is not decided.')
T, F = True, False


def mentions(e, name):
    return any(isinstance(x, ast.Name) and x.id == name for x in ast.walk(e))


def nan_valued(e, name):
    """expression whose value is NaN whenever `name` is NaN"""
    if isinstance(e, ast.Name):
        return e.id == name
    if isinstance(e, ast.UnaryOp) and isinstance(e.op, (ast.USub, ast.UAdd)):
        return nan_valued(e.operand, name)
    if isinstance(e, ast.BinOp) and isinstance(e.op, (ast.Add, ast.Sub, ast.Mult, ast.Div)):
        return nan_valued(e.left, name) or nan_valued(e.right, name)
    if isinstance(e, ast.Call) and call_name(e) in ('abs', 'float', 'fabs') and len(e.args) == 1:
        return nan_valued(e.args[0], name)
    return False


def tv(e, name):
    """possible truth values of a branch condition when `name` is NaN"""
    if not mentions(e, name):
        return {T, F}
    if isinstance(e, ast.UnaryOp) and isinstance(e.op, ast.Not):
        return {not v for v in tv(e.operand, name)}
    if isinstance(e, ast.BoolOp):
        vals = [tv(v, name) for v in e.values]
        if isinstance(e.op, ast.And):
            out = set()
            if all(T in v for v in vals):
                out.add(T)
            if any(F in v for v in vals):
                out.add(F)
            return out
        out = set()
        if any(T in v for v in vals):
            out.add(T)
        if all(F in v for v in vals):
            out.add(F)
        return out
    if isinstance(e, ast.Compare):
        operands = [e.left] + list(e.comparators)
        res = {T}
        for i, op in enumerate(e.ops):
            a, b = operands[i], operands[i + 1]
            if nan_valued(a, name) or nan_valued(b, name):
                if isinstance(op, (ast.Lt, ast.LtE, ast.Gt, ast.GtE, ast.Eq)):
                    link = {F}
                elif isinstance(op, ast.NotEq):
                    link = {T}
                else:
                    link = {T, F}
            else:
                link = {T, F}
            new = set()
            if T in res and T in link:
                new.add(T)
            if F in res or F in link:
                new.add(F)
            res = new
        return res
    if isinstance(e, ast.Call):
        nm = call_name(e)
        if e.args and nan_valued(e.args[0], name):
            if nm == 'isnan':
                return {T}
            if nm in ('isfinite', 'isinf'):
                return {F}
    return {T, F}


def assigns_name(node, name):
    s = node.ast
    if node.kind != 'stmt':
        return False
    if isinstance(s, ast.Assign):
        return any(name in target_names(t) for t in s.targets)
    return False


def nan_walk(sw):
    """returns (reached commit nodes, start nodes)"""
    g, E = sw.cfg, sw.measure
    starts = [n for n in sw.loop_nodes if n.kind == 'stmt' and isinstance(n.ast, ast.AugAssign)
              and E in target_names(n.ast.target)]
    if not starts:
        # measure assigned (not accumulated): start after the last assignment in the loop
        starts = [n for n in sw.loop_nodes if assigns_name(n, E)]
    if not starts:
        raise AnalysisError('the convergence measure %s is never updated in the sweep loop' % E)

    def edge_ok(a, b, lab):
        na = g.nodes[a]
        if na.kind == 'test' and mentions(na.ast, E):
            vals = tv(na.ast, E)
            return lab in vals
        return True
    # nodes that reset the measure (plain assignment not derived from itself) stop the walk
    resets = {n.id for n in g.nodes if assigns_name(n, E) and not mentions(n.ast.value, E)}
    stop = resets | {g.raise_exit.id}
    seen = g.reach(starts, avoid=stop, edge_ok=edge_ok)
    commits = [n for n in sw.commit_nodes if n.id in seen]
    return commits, starts


def nan_stops_the_period(check, sw, rule, witness):
    """shared with C11.R2 / C15.R3: a period whose error measure is NaN (overflowing iterates) is not committed"""
    commits, _starts = nan_walk(sw)
    test_txt = unparse(sw.loop.test)
    check.saw(sw.f)
    check.ob(rule, '%s::not-a-number-is-not-convergence(%s)' % (sw.f.key, sw.measure), not commits, sw.where(sw.loop_test),
             ('stop test `%s`: with %s = NaN the loop ends as if converged and the period is committed (line(s) %s)'
              % (test_txt, sw.measure, [c.line for c in commits])) if commits else
             'with %s = NaN no commit is reachable (stop test `%s`)' % (sw.measure, test_txt), witness)


def run(prog, check):
    check.explanation = EXPLANATION
    check.not_decided = ('the size of the residual at the reported values (numerical analysis of the damped Jacobi map); '
                         'finiteness of decorative values')
    check.assumptions = ['exceptional control flow only along the handlers a try statement names',
                         'the error measure becomes NaN only through the accumulation statements in the sweep body']
    sw = Sweep(prog)
    f = sw.f
    check.saw(f)
    g = sw.cfg
    E = sw.measure
    # ---- R1 ----------------------------------------------------------------------------------------
    commits, starts = nan_walk(sw)
    test_txt = unparse(sw.loop.test)
    check.ob('C02.R1', '%s::commit-unreachable-with-NaN(%s)' % (f.key, E), not commits,
             sw.where(sw.loop_test),
             ('stop test `%s`: a NaN %s reaches the commit at line(s) %s' % (test_txt, E, [c.line for c in commits]))
             if commits else 'with %s = NaN no path from the accumulation reaches a TimeSeries commit (stop test `%s`)' % (E, test_txt),
             'a system whose iterates overflow (inf - inf = NaN), e.g. x = 1000*x + 1')
    for c in sw.commit_nodes:
        check.ob('C02.R1', '%s::commit(%s)' % (f.key, unparse(c.ast)[:80]), c not in commits, sw.where(c),
                 'reachable with NaN measure' if c in commits else 'not reachable with NaN measure',
                 'diverging system')
    # ---- R2 ----------------------------------------------------------------------------------------
    fr = sw.endo_for
    hdr = [n for n in g.nodes if n.kind == 'for' and n.stmt is fr][0]
    inside = set(id(x) for x in ast.walk(fr))
    accum = [n for n in g.nodes if n.kind == 'stmt' and id(n.ast) in inside and isinstance(n.ast, ast.AugAssign)
             and E in target_names(n.ast.target)]
    first = [b for b, lab in g.succ[hdr.id] if lab is True]
    # every header->header path through the body passes an accumulation
    every = bool(accum) and all(g.must_pass(b, hdr, accum) or g.nodes[b] in accum for b in first)
    check.ob('C02.R2', '%s::per-variable-body-accumulates(%s)' % (f.key, E), every, sw.where(hdr),
             'every path through the per-variable body adds to %s' % E if every else
             'a path through the evaluation loop body skips the error accumulation (or it is outside the loop)',
             'a variable whose change is not measured: the loop stops while that equation is violated')
    subst = single_assign_subst(f.node)
    loopvars = target_names(fr.target)
    loop_defs = {}
    for st in ast.walk(fr):
        if isinstance(st, ast.Assign) and len(st.targets) == 1 and isinstance(st.targets[0], ast.Name):
            loop_defs.setdefault(st.targets[0].id, []).append(st.value)

    def abs_derived(ex, depth=0, seen=frozenset()):
        """the expression contains abs(new[var] - old[var]) itself, or a local name all of whose definitions in the
        per-variable loop do (helpers are already inlined)"""
        for c in ast.walk(ex):
            if isinstance(c, ast.Call) and call_name(c) == 'abs' and c.args and isinstance(c.args[0], ast.BinOp) \
                    and isinstance(c.args[0].op, ast.Sub):
                l, r = c.args[0].left, c.args[0].right
                if all(isinstance(s_, ast.Subscript) and isinstance(s_.slice, ast.Name) and s_.slice.id in loopvars
                       for s_ in (l, r)) and unparse(l.value) != unparse(r.value):
                    return True
        if depth > 4:
            return False
        for x in ast.walk(ex):
            if isinstance(x, ast.Name) and x.id not in seen:
                defs = loop_defs.get(x.id) or ([subst[x.id]] if x.id in subst else [])
                # a definition in terms of the name itself (d = d / scale) keeps the property of the other definitions
                base = [d for d in defs if not any(isinstance(y, ast.Name) and y.id == x.id for y in ast.walk(d))]
                if base and all(abs_derived(d, depth + 1, seen | {x.id}) for d in base):
                    return True
        return False
    for a in accum:
        val = a.ast.value
        ok = abs_derived(val)
        check.ob('C02.R2', '%s::accumulated-term(%s)' % (f.key, unparse(val)), ok and isinstance(a.ast.op, ast.Add),
                 sw.where(a), 'term derives from abs(new[var] - old[var])' if ok else
                 'accumulated term is not abs(new[var]-old[var])-derived', 'non-converged variable')
    # the measure is reset at the top of every sweep (a stale/accumulating measure never falls below tol is safe, but
    # a measure reset inside the per-variable loop only measures the last variable)
    resets_in_for = [n for n in g.nodes if assigns_name(n, E) and id(n.ast) in inside]
    check.ob('C02.R2', '%s::measure-not-reset-per-variable' % f.key, not resets_in_for, sw.where(hdr),
             'the measure is not re-initialised inside the per-variable loop' if not resets_in_for else
             'the measure is re-initialised inside the per-variable loop: only the last variable is measured',
             'two-equation system where the first equation has not converged')
    # evaluation target and accumulation are in the same loop over .Endogenous; the value stored is the eval result
    stores = sw.eval_stores()
    ok = bool(stores) and all(isinstance(t.slice, ast.Name) and t.slice.id == loopvars[0] for _, t in stores)
    check.ob('C02.R2', '%s::eval-stored-under-own-name' % f.key, ok, '%s:%d' % (f.module.rel, sw.sweep_eval.lineno),
             'eval result stored under the variable it defines' if ok else 'eval result not stored under its own variable',
             'any system with two variables')
    # eval reads the equation text of the same item
    okeq = isinstance(sw.sweep_eval.args[0], ast.Name) and len(loopvars) > 1 and sw.sweep_eval.args[0].id == loopvars[1]
    check.ob('C02.R2', '%s::eval-of-own-equation' % f.key, okeq, '%s:%d' % (f.module.rel, sw.sweep_eval.lineno),
             'eval evaluates the equation paired with the variable', 'any system')
    # ---- R3 ----------------------------------------------------------------------------------------
    r3 = 0
    for n in ast.walk(sw.loop):
        if isinstance(n, ast.Assign):
            flat_targets = []
            for t in n.targets:
                flat_targets.extend(t.elts if isinstance(t, (ast.Tuple, ast.List)) else [t])
            for t in flat_targets:
                if isinstance(t, ast.Subscript) and isinstance(t.value, ast.Name) and not isinstance(t.slice, ast.Slice):
                    # find the enclosing for inside the while
                    p = n
                    encl = None
                    while p is not None and p is not sw.loop:
                        if isinstance(p, ast.For):
                            encl = p
                            break
                        p = getattr(p, '_parent', None)
                    key = unparse(t.slice)
                    ok = False
                    why = 'store outside any loop over the block'
                    if encl is not None:
                        part = iter_partition(encl)
                        tv_ = target_names(encl.target)
                        if part == 'Endogenous' and isinstance(t.slice, ast.Name) and t.slice.id == tv_[0]:
                            ok, why = True, 'keyed by iteration over .Endogenous'
                        elif isinstance(encl.iter, ast.Call) and call_name(encl.iter) == 'items' and len(tv_) == 2 and \
                                isinstance(t.slice, ast.Name) and t.slice.id == tv_[0] and isinstance(n.value, ast.Name) \
                                and n.value.id == tv_[1]:
                            ok, why = True, 'identity copy of the other iterate'
                        elif isinstance(encl.iter, ast.Name) and 'trace' in encl.iter.id:
                            ok, why = True, 'trace keys (diagnostics)'
                        else:
                            why = 'iterate store keyed by %s inside a loop over %s' % (key, unparse(encl.iter))
                    if isinstance(t.value, ast.Name) and t.value.id in _iterate_names(sw):
                        r3 += 1
                        check.ob('C02.R3', '%s::iterate-store(%s[%s])' % (f.key, t.value.id, key), ok,
                                 '%s:%d' % (f.module.rel, n.lineno), why,
                                 'a lagged or exogenous variable overwritten during the sweep')
    step = f.params()[1] if len(f.params()) > 1 else 'step'
    for n in f.node.body:
        if isinstance(n, ast.For) and iter_partition(n) in ('Exogenous', 'Lagged'):
            part = iter_partition(n)
            for a in ast.walk(n):
                if isinstance(a, ast.Assign) and isinstance(a.value, ast.Subscript):
                    idx = a.value.slice
                    lf = linform(idx, subst)
                    want = {step: 1, '': 0} if part == 'Exogenous' else {step: 1, '': -1}
                    ok = lin_eq(lf, want)
                    r3 += 1
                    check.ob('C02.R3', '%s::%s-read-index' % (f.key, part.lower()), ok, '%s:%d' % (f.module.rel, a.lineno),
                             '%s read at index %s, required %s' % (part, lin_str(lf), lin_str(want)),
                             'any model with a lag / a time-varying exogenous path')
                    if part == 'Lagged':
                        # the source series is the one named by the second loop component
                        tv_ = target_names(n.target)
                        src = a.value.value
                        oksrc = isinstance(src, ast.Subscript) and isinstance(src.slice, ast.Name) and len(tv_) > 1 \
                            and src.slice.id == tv_[1]
                        check.ob('C02.R3', '%s::lagged-source' % f.key, oksrc, '%s:%d' % (f.module.rel, a.lineno),
                                 'lag reads the series of its source variable' if oksrc else 'lag reads another series',
                                 'any model with a lag')
    # the pairing (lag variable, source variable) and the exogenous paths the step reads are the parsed ones: no parser
    # method re-assigns those partitions after the parse-time reset (reduction only moves endogenous equations)
    Pcls = prog.classes.get('EquationParser')
    if Pcls is not None:
        for pf in Pcls.methods.values():
            if pf.name == '__init__':
                continue
            for n in ast.walk(pf.node):
                tg = n.targets[0] if isinstance(n, ast.Assign) else (n.target if isinstance(n, ast.AugAssign) else None)
                if isinstance(tg, ast.Attribute) and isinstance(tg.value, ast.Name) and tg.value.id == 'self' and tg.attr in ('Lagged', 'Exogenous'):
                    reset = isinstance(n, ast.Assign) and isinstance(n.value, ast.List) and not n.value.elts
                    r3 += 1
                    check.saw(pf)
                    check.ob('C02.R3', '%s::pinned-partition-assigned(%s)' % (pf.key, tg.attr), reset, '%s:%d' % (pf.module.rel, n.lineno),
                             'parse-time reset' if reset else
                             'the %s partition is rewritten after parsing: the step then pins a lag to another source / another path '
                             'than the submitted block says' % tg.attr,
                             'an alias x = y with its own initial condition and a lag of x')
    # ---- R4 ----------------------------------------------------------------------------------------
    committed = set()
    for c in sw.commit_nodes:
        for m in series_mutation(c.ast):
            if isinstance(m, ast.Call) and m.args:
                v = m.args[-1]
                if isinstance(v, ast.Name):
                    # a temporary of the commit loop (`val = initial[var]`): its one definition in that loop
                    for lp_ in c.loops:
                        ds_ = [a_ for a_ in ast.walk(lp_) if isinstance(a_, ast.Assign) and len(a_.targets) == 1 and
                               isinstance(a_.targets[0], ast.Name) and a_.targets[0].id == v.id]
                        if len(ds_) == 1:
                            v = ds_[0].value
                            break
                if isinstance(v, ast.Subscript) and isinstance(v.value, ast.Name):
                    committed.add(v.value.id)
    post_ids = {n.id for n in sw.post_nodes}
    post_evals = []
    for n in sw.post_nodes:
        if n.kind == 'stmt':
            for ev in eval_calls(n.ast):
                post_evals.append((n, ev))
    if len(committed) != 1:
        raise AnalysisError('cannot identify the committed iterate: %s' % sorted(committed))
    C = sorted(committed)[0]
    for n, ev in post_evals:
        env = ev.args[2] if len(ev.args) > 2 else None
        ok = _same_mapping(env, C, subst)
        check.ob('C02.R4', '%s::decoration-eval-env' % f.key, ok, sw.where(n),
                 'decorative equations evaluated on `%s`, committed iterate is `%s`' % (unparse(env), C),
                 'any model with a decorative variable')
    reassigned = [n for n in sw.post_nodes if assigns_name(n, C)]
    check.ob('C02.R4', '%s::committed-iterate-not-rebound-after-loop' % f.key, not reassigned,
             sw.where(reassigned[0]) if reassigned else f.where,
             'the committed iterate is not re-bound between the sweep loop and the commit', 'any model')
    # the iterate handed to the next sweep / committed is the freshly computed one
    lastassign = [n for n in sw.loop_nodes if assigns_name(n, C)]
    newnames = {t.value.id for _, t in sw.eval_stores() if isinstance(t.value, ast.Name)}
    ok = bool(lastassign) and all(isinstance(n.ast.value, ast.Name) and n.ast.value.id in newnames for n in lastassign)
    check.ob('C02.R4', '%s::iterate-advances' % f.key, ok, sw.where(lastassign[0]) if lastassign else f.where,
             '`%s` is re-bound to the newly computed values at the end of each sweep' % C if ok else
             'the committed iterate is not the newly computed one', 'any simultaneous system')
    # ---- R5 ----------------------------------------------------------------------------------------
    # a sweep in which an evaluation error was stepped over must not be followed by a commit: from every handler of a
    # try around an evaluation, walk the feasible paths (truthiness constants propagated, so `flag = True` / an error
    # message that is a non-empty literal is remembered and `if flag: raise` is honoured) up to the start of the next
    # sweep; no commit may be reached.
    from ..solver_model import stepped_over_errors
    for h, ok, wit in stepped_over_errors(sw):
        ty = unparse(h.ast.type) if h.ast.type is not None else 'bare'
        check.ob('C02.R5', '%s::stepped-over-error-blocks-commit(%s)' % (f.key, ty), ok, sw.where(h),
                 'no commit is reachable from this handler before the next sweep starts' if ok else
                 'a commit is reachable after an error was stepped over in the same sweep' + wit,
                 'a system whose last sweep stepped over a division by zero in an equation that is not the last one')
    # the flag is cleared at the start of each sweep and only raised in handlers: its post-loop value is the last sweep's
    # ---- R6: the tolerance the sweep stops at is the submitted one -------------------------------------------------
    n6 = 0
    from ..inline import judged_at_callers as _jac, flatten as _flat
    cands6 = [fn for fn in prog.all_functions() if not (fn.cls is not None and fn.cls.name == 'EquationParser') and
              '/deprecated/' not in fn.module.rel and '/gl_book/' not in fn.module.rel]
    at_callers6 = _jac(prog, [fn for fn in cands6 if fn.cls is not None and fn.cls is sw.f.cls])
    seen6 = set()
    for fn_raw in prog.all_functions():
        if fn_raw.cls is not None and fn_raw.cls.name == 'EquationParser':
            continue
        if fn_raw.key in at_callers6:
            continue      # a private helper is read where it is inlined (its `self` may be a working copy there)
        fn = _flat(prog, fn_raw) if (fn_raw.cls is not None and fn_raw.cls is sw.f.cls) else fn_raw
        for a in ast.walk(fn.node):
            if isinstance(a, ast.Assign) and isinstance(a.targets[0], ast.Attribute) and a.targets[0].attr in ('Err_Tolerance', 'ParameterErrorTolerance'):
                if (fn.module.rel, a.lineno, a.col_offset) in seen6:
                    continue
                seen6.add((fn.module.rel, a.lineno, a.col_offset))
                root = a.targets[0].value
                while isinstance(root, ast.Attribute):
                    root = root.value
                through_self = isinstance(root, ast.Name) and root.id == 'self'
                in_ctor = fn.name == '__init__'
                is_parse = through_self and isinstance(a.targets[0].value, ast.Name) and 'pars' in fn.name.lower()
                ok = (not through_self) or in_ctor or is_parse
                n6 += 1
                check.ob('C02.R6', '%s::tolerance-write(%s)' % (fn.key, unparse(a.targets[0])), ok, '%s:%d' % (fn.module.rel, a.lineno),
                         'the tolerance is set on a private copy / at construction / from the parsed block' if ok else
                         'the stop tolerance of the live solver is overwritten here: later periods iterate to this tolerance, not the submitted one',
                         'Err_Tolerance = 1e-10 submitted, then an initial steady-state search, then the main solve')
    # the sweep reads the tolerance from the parsed block unless an explicit override is set
    tol_src = [x for x in ast.walk(f.node) if isinstance(x, ast.Attribute) and x.attr in ('Err_Tolerance', 'ParameterErrorTolerance')]
    check.ob('C02.R6', '%s::tolerance-source' % f.key, len({x.attr for x in tol_src}) == 2, f.where,
             'stop tolerance = ParameterErrorTolerance if set, else the block\'s Err_Tolerance', 'any tolerance')
    # ---- R7: the system that is solved is the submitted one --------------------------------------------------------------------
    # with reduction on, aliases are substituted away before solving: the renamer the parser calls must rename whole name tokens
    # only (the clause C13.R1 decides for that function), otherwise another equation is solved than the one submitted
    from ..report import Borrowed
    from . import C13 as _c13
    P_ = prog.classes.get('EquationParser')
    renamers_ = set()
    for pm_ in (P_.methods.values() if P_ else []):
        for c_ in ast.walk(pm_.node):
            if isinstance(c_, ast.Call) and (call_name(c_) or '').startswith('replace_token'):
                renamers_.add(call_name(c_))
    if renamers_:
        b13 = Borrowed(check, lambda rule, key: rule == 'C13.R1' and any(('::%s::' % r_) in key for r_ in renamers_), 'C02.R7',
                       'inc = wage next to inc_tax = 0.2*inc: substituting inc must leave inc_tax alone')
        b13.run_lender(_c13, prog)
    # ---- R8: the stand-alone solver the package generates stops on the same terms (template clauses of C20.R2 / C20.R4) ------------
    if not getattr(check, '_borrowing', False):
        from . import C20 as _c20
        b20 = Borrowed(check, lambda rule, key: rule in ('C20.R2', 'C20.R4') and '::template-' in key, 'C02.R8',
                       'a generated module run on a simultaneous block: its stored values must satisfy the equations')
        b20.run_lender(_c20, prog)
    # ---- R3 (cont.): the optional steady-state start touches the submitted paths at k=0 only (the write-set clause of C15.R2) ---------
    if not getattr(check, '_borrowing', False):
        from . import C15 as _c15
        b15 = Borrowed(check, lambda rule, key: rule == 'C15.R2' and '::self-write(' in key, 'C02.R3',
                       'an exogenous path with a step at the last period, solved with the initial steady-state option on')
        b15.run_lender(_c15, prog)
    # what is reported is what was solved: reading the results does not shift or shorten them (alias analysis shared with C16.R2)
    from .C16 import discover_accessors as _disc2, check_accessor as _chk2, Summaries as _Summ2
    summ2_ = _Summ2(prog)
    for f_acc in _disc2(prog)['series']:
        _chk2(prog, check, f_acc, 'series', summ2_, pid_rules=(None, 'C02.R3'))
    check.floor('C02.R6', 2)
    check.floor('C02.R1', 2)
    check.floor('C02.R2', 4)
    check.floor('C02.R3', 5)
    check.floor('C02.R4', 3)
    check.floor('C02.R5', 1)
    check.control('NaN walk control (`while E > tol` admits NaN; `while not (E <= tol)` does not)', _control())
    if check.tier == 'thorough':
        _thorough(sw, check)


def _same_mapping(env, C, subst, depth=0):
    """env denotes the committed iterate C or a copy of it (dict(C), C.copy(), copy.copy(C), a local alias)"""
    if isinstance(env, ast.Name):
        if env.id == C:
            return True
        if env.id in subst and depth < 3:
            return _same_mapping(subst[env.id], C, subst, depth + 1)
        return False
    if isinstance(env, ast.Call):
        nm = call_name(env)
        if nm in ('dict', 'copy', 'deepcopy') and isinstance(env.func, ast.Name) and len(env.args) == 1:
            return _same_mapping(env.args[0], C, subst, depth + 1)
        if nm in ('copy', 'deepcopy') and isinstance(env.func, ast.Attribute):
            if env.args:
                return _same_mapping(env.args[0], C, subst, depth + 1)
            return _same_mapping(env.func.value, C, subst, depth + 1)
    return False


def _iterate_names(sw):
    names = set()
    if isinstance(sw.sweep_env, ast.Name):
        names.add(sw.sweep_env.id)
    for _, t in sw.eval_stores():
        if isinstance(t.value, ast.Name):
            names.add(t.value.id)
    return names


def _thorough(sw, check):
    """second formulation of R1 by explicit path enumeration; must agree with the reachability formulation"""
    g, E = sw.cfg, sw.measure
    commits, starts = nan_walk(sw)
    feasible = 0
    total = 0
    for s in starts:
        for c in sw.commit_nodes:
            for path in g.paths(s, c, cap=20000):
                total += 1
                ok = True
                for i, a in enumerate(path[:-1]):
                    na = g.nodes[a]
                    if i > 0 and assigns_name(na, E) and not mentions(na.ast.value, E):
                        ok = False
                        break
                    if na.kind == 'test' and mentions(na.ast, E):
                        labs = [lab for b, lab in g.succ[a] if b == path[i + 1]]
                        if not any(l in tv(na.ast, E) for l in labs):
                            ok = False
                            break
                if ok:
                    feasible += 1
    agree = (feasible > 0) == bool(commits)
    check.audit.append('R1 path enumeration: %d acyclic paths accumulation->commit, %d NaN-feasible; agrees with '
                       'reachability formulation: %s' % (total, feasible, agree))
    if not agree:
        raise AnalysisError('R1 formulations disagree (reachability vs path enumeration)')


CONTROL = '''
def step(self):
    err = 1.
    n = 0
    while %s:
        err = 0.
        for v, e in self.P.Endogenous:
            new[v] = eval(e, globals(), old)
            err += abs(new[v] - old[v])
        n += 1
        if n > 10:
            raise ValueError('x')
    for v, e in self.P.Endogenous:
        self.TimeSeries[v].append(old[v])
'''


def _control():
    from .. import cfg as cfgmod

    class Dummy(object):
        pass
    res = []
    for test in ('err > tol', 'not (err <= tol)'):
        fn = ast.parse(CONTROL % test).body[0]
        for node in ast.walk(fn):
            for ch in ast.iter_child_nodes(node):
                ch._parent = node
        sw = Dummy()
        sw.cfg = cfgmod.CFG(fn)
        sw.measure = 'err'
        loop = [n for n in ast.walk(fn) if isinstance(n, ast.While)][0]
        inside = set(id(x) for x in ast.walk(loop))
        sw.loop_nodes = [n for n in sw.cfg.nodes if n.stmt is not None and id(n.stmt) in inside]
        sw.commit_nodes = [n for n in sw.cfg.stmt_nodes() if n.kind == 'stmt' and series_mutation(n.ast)]
        commits, _ = nan_walk(sw)
        res.append(bool(commits))
    return res == [True, False]
