"""Re-run every check on every stored seed and record the current catch matrix in each meta.json (development helper)."""
import glob, json, os, shutil, subprocess, tempfile
for sd in sorted(glob.glob('/verif/seeded/*')):
    meta = json.load(open(sd + '/meta.json'))
    d = tempfile.mkdtemp(prefix='sfcv_us_')
    try:
        shutil.copytree('/repo/sfc_models', d + '/sfc_models', ignore=shutil.ignore_patterns('__pycache__'))
        subprocess.run(['git', 'init', '-q'], cwd=d)
        subprocess.run(['git', 'apply', sd + '/patch.diff'], cwd=d, check=True)
        now = {}
        for i in range(1, 21):
            pid = 'C%02d' % i
            r = subprocess.run(['/venv/bin/python', '-m', 'sfcv', 'check', pid, '--root', d], cwd='/verif', capture_output=True, text=True)
            if r.returncode != 0:
                rules = sorted({l.split()[1] for l in r.stdout.splitlines() if l.startswith('  ') and len(l.split()) > 1 and l.split()[1].startswith(pid + '.')})
                now[pid] = {'rc': r.returncode, 'rules': rules}
        if 'caught_by_at_intake' not in meta:
            meta['caught_by_at_intake'] = meta.get('caught_by', [])
        meta['caught_by'] = sorted(k for k, v in now.items() if v['rc'] == 1)
        meta['caught_by_rules'] = {k: v['rules'] for k, v in now.items() if v['rc'] == 1}
        meta['analysis_errors'] = sorted(k for k, v in now.items() if v['rc'] == 2)
        meta['caught_by_own_property_check'] = meta['property'] in meta['caught_by']
        meta.pop('checks', None)
        json.dump(meta, open(sd + '/meta.json', 'w'), indent=1)
        print(os.path.basename(sd), meta['caught_by_rules'], meta['analysis_errors'])
    finally:
        shutil.rmtree(d, ignore_errors=True)
subprocess.run(['git', '-C', '/verif', 'checkout', '--', 'evidence'], capture_output=True)
