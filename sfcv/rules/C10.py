"""C10 - exogenous paths, initial conditions and horizon are honoured verbatim (decided structural clauses).

R1 bound agreement  : every length / slice / broadcast / loop bound normalises to MaxTime+1 (loop [1, MaxTime+1));
                      the too-short test raises before the store.
R2 one append/step  : each commit loop appends exactly once per iteration; the commit loops cover
                      Endogenous + Lagged and Decoration, each exactly once.
R3 lag/exo indices  : lag reads step-1, exogenous reads step.
R4 IC protected     : after the IC pass, stores to k=0 values in the constant passes are guarded by non-membership
                      in the initial-condition / time-zero set.
R5 default time axis: 't = k' is appended iff the user supplied no t.
R6 loud evaluation  : evals of initial-condition / exogenous text have handlers that raise ValueError; none swallows."""
import ast

from .. import cfg as cfgmod
from ..loader import AnalysisError, unparse, call_name, attr_chain
from ..dataflow import linform, lin_eq, lin_str, single_assign_subst, target_names, resolve_expr
from ..inline import flatten
from ..solver_model import Sweep, solver_function, iter_partition, eval_calls, series_mutation, is_series_append
from ..cfg import handler_types, raised_name, exc_is_a

TECHNIQUE = ('static analysis on flattened functions: linear-form normalisation of all horizon bounds with temporaries resolved, dominance of raising guards over stores, branch-outcome facts for k=0 protection (followed through derived work lists), collection-provenance of commit loops, handler tables of eval sites; alias analysis of the series accessors (shared with C16.R2); registration-order lint')
EXPLANATION = (
    'Every bound that mentions the horizon in the initial-condition and solve functions is normalised to a linear form and '
    'must equal MaxTime+1; the short-series test must dominate the truncating store; commit loops append exactly once per '
    'variable and partition; lag/exogenous indices are step-1/step; constant-propagation stores at k=0 are guarded by the '
    'initial-condition set; the default time axis is conditional on the absence of a user t; evals of user-supplied '
    'initial/exogenous text raise ValueError. Decided for all inputs because the rules are over the code paths.')


def _maxtime_atom(f):
    atoms = set()
    for n in ast.walk(f.node):
        if isinstance(n, ast.Attribute) and n.attr == 'MaxTime':
            ch = attr_chain(n)
            if ch:
                atoms.add('.'.join(ch))
    return atoms


def _mentions_attr(e, attr):
    return any(isinstance(x, ast.Attribute) and x.attr == attr for x in ast.walk(e))


def check_bounds(check, f, subst, rule='C10.R1'):
    """R1 on one function: classify every arithmetic context mentioning .MaxTime"""
    n_ob = 0
    for n in ast.walk(f.node):
        # range(...) bounds
        if isinstance(n, ast.Call) and call_name(n) == 'range' and _mentions_attr(resolve_expr(n, subst), 'MaxTime'):
            args = n.args
            lo = args[0] if len(args) >= 2 else ast.Constant(0)
            hi = args[1] if len(args) >= 2 else args[0]
            lf = linform(hi, subst)
            atom = [k for k in (lf or {}) if k.endswith('MaxTime')]
            ok = lf is not None and len(atom) == 1 and lin_eq(lf, {atom[0]: 1, '': 1})
            parent_for = getattr(n, '_parent', None)
            is_step_loop = isinstance(parent_for, ast.For) and any(
                isinstance(c, ast.Call) and isinstance(c.func, ast.Attribute) and 'Step' in c.func.attr
                for c in ast.walk(parent_for))
            lo_want = 1 if is_step_loop else 0
            lo_ok = lin_eq(linform(lo, subst), {'': lo_want})
            check.ob(rule, '%s::range-bound(%s)' % (f.key, 'step-loop' if is_step_loop else 'k-axis'),
                     ok and lo_ok, '%s:%d' % (f.module.rel, n.lineno),
                     'range(%s, %s); required range(%d, MaxTime + 1)' % (unparse(lo), lin_str(lf), lo_want),
                     'any horizon: every series must have exactly horizon+1 points')
            n_ob += 1
        # broadcast [x]*(M+1)
        if isinstance(n, ast.BinOp) and isinstance(n.op, ast.Mult) and _mentions_attr(resolve_expr(n, subst), 'MaxTime') and \
                (isinstance(n.left, ast.List) or isinstance(n.right, ast.List)):
            cnt = n.right if isinstance(n.left, ast.List) else n.left
            lf = linform(cnt, subst)
            atom = [k for k in (lf or {}) if k.endswith('MaxTime')]
            ok = lf is not None and len(atom) == 1 and lin_eq(lf, {atom[0]: 1, '': 1})
            check.ob(rule, '%s::broadcast-length' % f.key, ok, '%s:%d' % (f.module.rel, n.lineno),
                     'scalar broadcast to %s values; required MaxTime + 1' % lin_str(lf),
                     'a float exogenous value with any horizon')
            n_ob += 1
        # slice x[0:M+1]
        if isinstance(n, ast.Subscript) and isinstance(n.slice, ast.Slice) and _mentions_attr(resolve_expr(n.slice, subst), 'MaxTime'):
            sl = n.slice
            lf = linform(sl.upper, subst) if sl.upper is not None else None
            atom = [k for k in (lf or {}) if k.endswith('MaxTime')]
            ok = lf is not None and len(atom) == 1 and lin_eq(lf, {atom[0]: 1, '': 1}) and \
                (sl.lower is None or lin_eq(linform(sl.lower, subst), {'': 0})) and sl.step is None
            check.ob(rule, '%s::truncation-slice' % f.key, ok, '%s:%d' % (f.module.rel, n.lineno),
                     'series truncated to [%s:%s]; required [0:MaxTime + 1]' % (unparse(sl.lower) or '0', lin_str(lf)),
                     'an exogenous list longer than the horizon')
            n_ob += 1
        # length test  len(x) < M+1
        if isinstance(n, ast.Compare) and _mentions_attr(resolve_expr(n, subst), 'MaxTime') and len(n.ops) == 1 and \
                any(isinstance(c, ast.Call) and call_name(c) == 'len' for c in ast.walk(n)):
            l, r, op = linform(n.left, subst), linform(n.comparators[0], subst), n.ops[0]
            ok = False
            txt = unparse(n)
            if l is not None and r is not None:
                # normalise to  len - M  (op) c
                d = dict(l)
                for k, v in r.items():
                    d[k] = d.get(k, 0) - v
                lens = [k for k in d if k.startswith('len(')]
                mts = [k for k in d if k.endswith('MaxTime')]
                if len(lens) == 1 and len(mts) == 1 and d[lens[0]] == -d[mts[0]] and abs(d[lens[0]]) == 1:
                    s = d[lens[0]]
                    c = d.get('', 0) * s     # len - M + c  (op') 0
                    opn = type(op)
                    if s < 0:
                        opn = {ast.Lt: ast.Gt, ast.LtE: ast.GtE, ast.Gt: ast.Lt, ast.GtE: ast.LtE}.get(opn, opn)
                    # too short  <=>  len < M+1  <=>  len - M - 1 < 0  <=> len - M <= 0
                    ok = (opn is ast.Lt and c == -1) or (opn is ast.LtE and c == 0)
            check.ob(rule, '%s::too-short-test' % f.key, ok, '%s:%d' % (f.module.rel, n.lineno),
                     'length test `%s`; required: reject exactly len < MaxTime + 1' % txt,
                     'an exogenous list with exactly MaxTime (one too few) / MaxTime+1 (just enough) values')
            n_ob += 1
    return n_ob


def k0_protection(check, ic, g, rule='C10.R4'):
    """after the initial-condition pass, stores to k=0 values are guarded by non-membership in the initial-condition /
    time-zero set (followed through derived lists); used by C10.R4 and, for decorative variables, by C03"""
    # ---- R4 ----------------------------------------------------------------------------------------
    r4 = 0
    varsname = None
    for n in ast.walk(ic.node):
        if isinstance(n, ast.Assign) and isinstance(n.value, ast.Call) and call_name(n.value) == 'TimeSeriesHolder' \
                and isinstance(n.targets[0], ast.Name):
            varsname = n.targets[0].id
    if varsname is None:
        raise AnalysisError('cannot find the freshly built series holder in ' + ic.qualname)
    from ..cfg import atomic_facts
    # the time-zero set: a mapping (other than the series holder) that receives `Z[var] = ...` only where `var` is known
    # to carry an initial condition (branch-outcome fact `var in <...>.InitialConditions`)
    zero_sets = set()
    for nd in g.stmt_nodes():
        if nd.kind != 'stmt' or not isinstance(nd.ast, ast.Assign):
            continue
        for t in nd.ast.targets:
            if isinstance(t, ast.Subscript) and isinstance(t.slice, ast.Name) and unparse(t.value) != varsname and \
                    isinstance(t.value, (ast.Name, ast.Attribute)):
                for test, outcome in g.conditions_at(nd):
                    for _, v, e in atomic_facts(test, outcome):
                        if v is True and isinstance(e, ast.Compare) and len(e.ops) == 1 and isinstance(e.ops[0], ast.In) and \
                                isinstance(e.left, ast.Name) and e.left.id == t.slice.id and _mentions_attr(e.comparators[0], 'InitialConditions'):
                            zero_sets.add(unparse(t.value))

    def is_zero_membership(e, key):
        """`key in <time-zero set>` / `key in <...>.InitialConditions` (possibly .keys())"""
        if not (isinstance(e, ast.Compare) and len(e.ops) == 1 and isinstance(e.ops[0], ast.In) and
                isinstance(e.left, ast.Name) and e.left.id == key):
            return False
        tgt = e.comparators[0]
        if isinstance(tgt, ast.Call) and call_name(tgt) == 'keys' and isinstance(tgt.func, ast.Attribute):
            tgt = tgt.func.value
        # names bound to the time-zero set by plain copies
        return unparse(tgt) in zero_alias or (isinstance(tgt, ast.Attribute) and tgt.attr == 'InitialConditions')
    zero_alias = set(zero_sets)
    changed = True
    while changed:
        changed = False
        for n in ast.walk(ic.node):
            if isinstance(n, ast.Assign) and len(n.targets) == 1 and isinstance(n.targets[0], (ast.Name, ast.Attribute)) and \
                    isinstance(n.value, (ast.Name, ast.Attribute)):
                a_, b_ = unparse(n.targets[0]), unparse(n.value)
                if (a_ in zero_alias) != (b_ in zero_alias):
                    zero_alias.update((a_, b_))
                    changed = True

    def list_aliases(name):
        out = {name}
        changed = True
        while changed:
            changed = False
            for n in ast.walk(ic.node):
                if isinstance(n, ast.Assign) and len(n.targets) == 1 and isinstance(n.targets[0], ast.Name) and isinstance(n.value, ast.Name):
                    a_, b_ = n.targets[0].id, n.value.id
                    if (a_ in out) != (b_ in out):
                        out.update((a_, b_))
                        changed = True
        return out

    ic_subst = single_assign_subst(ic.node)

    def protected(node, key, depth=0):
        """reaching `node` implies that `key` is not a variable with an initial condition / known time-zero value:
        a branch outcome says so, or `key` ranges over a local list that is only filled under such an outcome"""
        for test0, outcome in g.conditions_at(node):
            test = resolve_expr(test0, {k_: v_ for k_, v_ in ic_subst.items() if k_ not in zero_alias and k_ != key and isinstance(v_, (ast.BoolOp, ast.Compare, ast.UnaryOp))})
            if outcome is False and isinstance(test, ast.BoolOp) and isinstance(test.op, ast.Or):
                if any(is_zero_membership(v, key) for v in test.values):
                    return 'not (%s)' % unparse(test)
            for _, v, e in atomic_facts(test, outcome):
                if v is False and is_zero_membership(e, key):
                    return 'not (%s)' % unparse(e)
        if depth > 3:
            return None
        for l in reversed([l for l in node.loops if isinstance(l, ast.For)]):
            lvs = target_names(l.target)
            if key in lvs and isinstance(l.iter, ast.Name):
                pos = lvs.index(key)
                names = list_aliases(l.iter.id)
                fills = [c for c in ast.walk(ic.node) if isinstance(c, ast.Call) and call_name(c) == 'append' and
                         isinstance(c.func, ast.Attribute) and isinstance(c.func.value, ast.Name) and c.func.value.id in names]
                if not fills:
                    return None
                why = None
                for c in fills:
                    x = c.args[0] if c.args else None
                    if isinstance(x, ast.Tuple) and pos < len(x.elts) and isinstance(x.elts[pos], ast.Name):
                        src = x.elts[pos].id
                    elif isinstance(x, ast.Name) and len(lvs) == 1:
                        src = x.id
                    else:
                        return None
                    from ..loader import stmt_of
                    why = protected(g.node_of(stmt_of(c)), src, depth + 1)
                    if why is None:
                        return None
                return why
        return None
    for node in g.stmt_nodes():
        if node.kind != 'stmt' or not isinstance(node.ast, ast.Assign):
            continue
        t = node.ast.targets[0]
        if not (isinstance(t, ast.Subscript) and isinstance(t.value, ast.Name) and t.value.id == varsname):
            continue
        loops = [l for l in node.loops if isinstance(l, ast.For)]
        part = iter_partition(loops[-1]) if loops else None
        if part == 'Exogenous':
            continue        # the exogenous pass defines the whole path
        if loops and isinstance(loops[-1].iter, ast.Attribute) and loops[-1].iter.attr == 'VariableList':
            continue        # the initial-condition pass itself
        if not isinstance(t.slice, ast.Name):
            continue
        r4 += 1
        why = protected(node, t.slice.id)
        ok = why is not None
        check.ob(rule, '%s::k0-store-guarded(%s pass)' % (ic.key, part or 'derived'), ok, '%s:%d' % (ic.module.rel, node.line),
                 ('k=0 store guarded by `%s`' % why) if ok else
                 'k=0 value of a variable with an initial condition can be overwritten by constant propagation',
                 'initial condition on a constant endogenous / decorative variable')
    # pass 1 records every IC variable in the time-zero set (so that a guard on that set protects it)
    rec = bool(zero_sets)
    check.ob(rule, '%s::ic-recorded-in-time-zero-set' % ic.key, rec, ic.where,
             'initial conditions are recorded in the time-zero constant set' if rec else
             'initial conditions are not recorded in the set the later passes consult', 'IC on a decorative constant')
    # the IC value itself is stored at index 0
    icstore = False
    for n in ast.walk(ic.node):
        if isinstance(n, ast.For) and isinstance(n.iter, ast.Attribute) and n.iter.attr == 'VariableList':
            for a in ast.walk(n):
                if isinstance(a, ast.Assign) and isinstance(a.targets[0], ast.Subscript) and \
                        isinstance(a.targets[0].value, ast.Name) and a.targets[0].value.id == varsname and \
                        isinstance(a.value, ast.List) and len(a.value.elts) == 1:
                    icstore = True
    check.ob(rule, '%s::ic-is-first-point' % ic.key, icstore, ic.where,
             'every variable starts as the one-element list [ic]' if icstore else 'the k=0 list is not [ic]',
             'any initial condition')


def run(prog, check):
    check.explanation = EXPLANATION
    check.not_decided = 'the numerical values of the series (only lengths, indices, guards and error handling are decided)'
    check.assumptions = ['exceptional control flow only along named handlers']
    ic = solver_function(prog, 'initial_conditions')
    sa = solver_function(prog, 'solve_all')
    sw = Sweep(prog)
    for f in (ic, sa, sw.f):
        check.saw(f)
    # private helpers are looked through
    ic, sa = flatten(prog, ic), flatten(prog, sa)
    # ---- R1 ----------------------------------------------------------------------------------------
    subst = single_assign_subst(ic.node)
    check_bounds(check, ic, subst)
    check_bounds(check, sa, single_assign_subst(sa.node))
    g = cfgmod.build(ic)
    # the too-short raise dominates the truncating store
    tests = [n for n in g.nodes if n.kind == 'test' and _mentions_attr(resolve_expr(n.ast, subst), 'MaxTime')
             and any(isinstance(c, ast.Call) and call_name(c) == 'len' for c in ast.walk(n.ast))]
    stores = [n for n in g.stmt_nodes() if n.kind == 'stmt' and isinstance(n.ast, ast.Assign)
              and isinstance(n.ast.value, ast.Subscript) and isinstance(n.ast.value.slice, ast.Slice)
              and _mentions_attr(resolve_expr(n.ast.value.slice, subst), 'MaxTime')]
    for s in stores:
        ok = False
        for t in tests:
            tgt = [b for b, l in g.succ[t.id] if l is True]
            if g.dominates(t, s) and tgt and s.id not in g.reach(tgt, include_src=True):
                # and the True branch raises
                if g.raise_exit.id in g.reach(tgt, include_src=True):
                    ok = True
        check.ob('C10.R1', '%s::short-test-dominates-store' % ic.key, ok, '%s:%d' % (ic.module.rel, s.line),
                 'the raising length test dominates the truncating store' if ok else
                 'the truncating store is reachable without (or after failing) the length test',
                 'an exogenous list shorter than the horizon must be rejected, not stored')
    if not stores:
        check.ob('C10.R1', '%s::truncating-store-present' % ic.key, False, ic.where,
                 'no store of the exogenous series truncated to the horizon found', 'exogenous list longer than horizon')
    # ---- R2 ----------------------------------------------------------------------------------------
    f = sw.f
    gs = sw.cfg
    commit_loops = {}
    for c in sw.commit_nodes:
        loops = [l for l in c.loops if isinstance(l, ast.For)]
        if not loops:
            check.ob('C10.R2', '%s::commit-in-loop' % f.key, False, sw.where(c), 'commit outside a per-variable loop', '')
            continue
        commit_loops.setdefault(id(loops[-1]), (loops[-1], []))[1].append(c)
    prov_all = []
    for lid, (loop, commits) in commit_loops.items():
        hdr = [n for n in gs.nodes if n.kind == 'for' and n.stmt is loop][0]
        first = [b for b, lab in gs.succ[hdr.id] if lab is True]
        # exactly once per iteration: every header->header path passes a commit, and no path has two
        once = all(gs.nodes[b] in commits or gs.must_pass(b, hdr, commits) for b in first)
        twice = False
        for c in commits:
            reach = gs.reach([c], avoid={hdr.id})
            if any(c2.id in reach for c2 in commits):
                twice = True
        nested = any(isinstance(x, (ast.For, ast.While)) for st in loop.body for x in ast.walk(st))
        prov = provenance(f.node, loop.iter)
        prov_all.append(prov)
        check.ob('C10.R2', '%s::commit-loop(%s)::once-per-variable' % (f.key, '+'.join(sorted(prov)) or unparse(loop.iter)),
                 once and not twice and not nested, sw.where(hdr),
                 'exactly one append per variable per step' if (once and not twice and not nested) else
                 'a path through the commit loop appends zero or several times', 'any model: series lengths must stay equal')
        # the value appended is the one of the same variable
        for c in commits:
            for m in series_mutation(c.ast):
                if isinstance(m, ast.Call) and is_series_append(m):
                    keyexpr = m.func.value.slice if m.func.attr == 'append' else m.args[0]
                    val = m.args[-1]
                    tv_ = target_names(loop.target)
                    # temporaries of the loop body bound once (copies left by an inlined helper) are read through
                    cnt_ = {}
                    for x_ in ast.walk(loop):
                        if isinstance(x_, ast.Name) and isinstance(x_.ctx, ast.Store):
                            cnt_[x_.id] = cnt_.get(x_.id, 0) + 1
                    local_ = {a_.targets[0].id: a_.value for a_ in loop.body if isinstance(a_, ast.Assign) and len(a_.targets) == 1 and
                              isinstance(a_.targets[0], ast.Name) and cnt_.get(a_.targets[0].id) == 1 and a_.targets[0].id not in tv_}
                    keyexpr, val = resolve_expr(keyexpr, local_), resolve_expr(val, local_)
                    okk = isinstance(keyexpr, ast.Name) and keyexpr.id == tv_[0]
                    okv = (isinstance(val, ast.Subscript) and isinstance(val.slice, ast.Name) and val.slice.id == tv_[0]) or \
                        (isinstance(val, ast.Name) and len(tv_) > 1 and val.id == tv_[1])
                    check.ob('C10.R2', '%s::commit-value(%s)' % (f.key, unparse(m)[:70]), okk and okv, sw.where(c),
                             'series of the loop variable receives the value of the same variable' if (okk and okv) else
                             'key / value of the append do not belong to the same variable', 'two variables with different values')
    union = set()
    dup = False
    for p in prov_all:
        if union & p:
            dup = True
        union |= p
    want = {'Endogenous', 'Lagged', 'Decoration'}
    check.ob('C10.R2', '%s::commit-partitions' % f.key, union == want and not dup, f.where,
             'commit loops cover %s (required %s, each once)' % (sorted(union), sorted(want)),
             'a model with lagged and decorative variables: every variable needs horizon+1 points')
    # ---- R3 (shared formulation with C02.R3) -------------------------------------------------------
    step = f.params()[1] if len(f.params()) > 1 else 'step'
    ssub = single_assign_subst(f.node)
    for n in f.node.body:
        if isinstance(n, ast.For) and iter_partition(n) in ('Exogenous', 'Lagged'):
            part = iter_partition(n)
            for a in ast.walk(n):
                if isinstance(a, ast.Assign) and isinstance(a.value, ast.Subscript):
                    lf = linform(a.value.slice, ssub)
                    want_l = {step: 1, '': 0} if part == 'Exogenous' else {step: 1, '': -1}
                    check.ob('C10.R3', '%s::%s-read-index' % (f.key, part.lower()), lin_eq(lf, want_l),
                             '%s:%d' % (f.module.rel, a.lineno),
                             '%s read at index %s, required %s' % (part, lin_str(lf), lin_str(want_l)),
                             'a lagged variable at k must equal its source at k-1')
    # the step loop passes its own index to the step function
    for n in ast.walk(sa.node):
        if isinstance(n, ast.For) and isinstance(n.iter, ast.Call) and call_name(n.iter) == 'range':
            tv_ = target_names(n.target)
            calls = [c for c in ast.walk(n) if isinstance(c, ast.Call) and isinstance(c.func, ast.Attribute)
                     and 'Step' in c.func.attr]
            for c in calls:
                ok = len(c.args) >= 1 and isinstance(c.args[0], ast.Name) and c.args[0].id == tv_[0]
                check.ob('C10.R3', '%s::step-argument' % sa.key, ok, '%s:%d' % (sa.module.rel, c.lineno),
                         'the step function receives the loop index', 'any model')
    # ---- R4 ----------------------------------------------------------------------------------------
    k0_protection(check, ic, g)
    # ---- R5 ----------------------------------------------------------------------------------------
    check_default_t(prog, check)
    # ---- R6 ----------------------------------------------------------------------------------------
    for ev in eval_calls(ic.node):
        src = ev.args[0]
        srcs = {x.attr for x in ast.walk(src) if isinstance(x, ast.Attribute)}
        derived = None
        if 'InitialConditions' in srcs:
            derived = 'InitialConditions'
        else:
            # loop variable of a loop over .Exogenous
            p = ev
            while p is not None:
                if isinstance(p, ast.For) and iter_partition(p) == 'Exogenous' and isinstance(src, ast.Name) and \
                        src.id in target_names(p.target):
                    derived = 'Exogenous'
                p = getattr(p, '_parent', None)
        if derived is None:
            continue
        tr = ev
        while tr is not None and not (isinstance(tr, ast.Try) and any(ev in ast.walk(b) for b in tr.body)):
            tr = getattr(tr, '_parent', None)
        ok = False
        why = 'eval of user text is not inside a try'
        if tr is not None:
            why = ''
            ok = True
            broad = False
            for h in tr.handlers:
                tys = handler_types(h)
                if '*' in tys or 'Exception' in tys or 'BaseException' in tys:
                    broad = True
                raises = [x for x in h.body if isinstance(x, ast.Raise)]
                if not raises or not (raised_name(raises[-1]) and exc_is_a(raised_name(raises[-1]), 'ValueError')):
                    ok = False
                    why = 'handler `except %s` does not raise ValueError (swallows or re-labels)' % '/'.join(tys)
            if ok and not broad:
                ok = False
                why = 'no broad handler: an evaluation failure other than the named types escapes unconverted'
            if ok:
                why = 'every handler raises ValueError'
        check.ob('C10.R6', '%s::eval-of-%s' % (ic.key, derived), ok, '%s:%d' % (ic.module.rel, ev.lineno), why,
                 'an exogenous / initial value that cannot be evaluated')
    # ---- R7: the horizon set on the solver object overrides the block's MaxTime whenever it is set (not None) ----
    n7 = 0
    for fn in sw.f.cls.methods.values():
        for n in ast.walk(fn.node):
            if isinstance(n, ast.Assign) and isinstance(n.targets[0], ast.Attribute) and n.targets[0].attr == 'MaxTime' and \
                    isinstance(n.value, ast.Attribute) and n.value.attr == 'MaxTime' and unparse(n.value) == 'self.MaxTime':
                par = getattr(n, '_parent', None)
                ok, why = False, 'the override is unconditional or its guard was not recognised'
                if isinstance(par, ast.If) and n in par.body:
                    t = par.test
                    if isinstance(t, ast.Compare) and unparse(t.left) == 'self.MaxTime' and isinstance(t.ops[0], (ast.IsNot, ast.NotEq)) and \
                            isinstance(t.comparators[0], ast.Constant) and t.comparators[0].value is None:
                        ok, why = True, 'guarded by `self.MaxTime is not None`'
                    else:
                        why = 'guarded by `%s`: a horizon of 0 set on the solver is ignored' % unparse(t)
                n7 += 1
                check.saw(fn)
                check.ob('C10.R7', '%s::solver-horizon-override' % fn.key, ok, '%s:%d' % (fn.module.rel, n.lineno), why,
                         'solver.MaxTime = 0 with a block that says MaxTime = 5: every series must have exactly one point')
    check.ob('C10.R7', '%s::solver-horizon-override-present' % sw.f.cls.key, n7 >= 1, sw.f.cls.module.rel,
             'the solver-level horizon is applied to the parsed block' if n7 else 'a horizon set on the solver is never applied', 'solver.MaxTime = 3')
    # R3 (cont.): the (lag variable, source) pairs and exogenous paths are the parsed ones - no parser method
    # re-assigns those partitions after the parse-time reset
    Pcls = prog.classes.get('EquationParser')
    for pf in (Pcls.methods.values() if Pcls else []):
        if pf.name == '__init__':
            continue
        for n in ast.walk(pf.node):
            tg = n.targets[0] if isinstance(n, ast.Assign) else (n.target if isinstance(n, ast.AugAssign) else None)
            if isinstance(tg, ast.Attribute) and isinstance(tg.value, ast.Name) and tg.value.id == 'self' and tg.attr in ('Lagged', 'Exogenous'):
                reset = isinstance(n, ast.Assign) and isinstance(n.value, ast.List) and not n.value.elts
                check.saw(pf)
                check.ob('C10.R3', '%s::pinned-partition-assigned(%s)' % (pf.key, tg.attr), reset, '%s:%d' % (pf.module.rel, n.lineno),
                         'parse-time reset' if reset else
                         'the %s partition is rewritten after parsing: a lag is then read from another variable than the block says' % tg.attr,
                         'a lag of an alias that carries its own initial condition')
    # ---- R8: every exogenous definition reaches its variable (the last one supplied wins) ----------------------
    from ._common import exogenous_applied
    pf_, okx_, whyx_ = exogenous_applied(prog)
    check.saw(pf_)
    from ._common import registration_order_kept
    for rf_o, c_o, ok_o, why_o in registration_order_kept(prog, 'Exogenous'):
        check.saw(rf_o)
        check.ob('C10.R8', '%s::registrations-in-call-order(%s)' % (rf_o.key, c_o.func.attr), ok_o, '%s:%d' % (rf_o.module.rel, c_o.lineno), why_o,
                 'AddExogenous called twice for one variable')
    check.ob('C10.R8', '%s::exogenous-entries-applied' % pf_.key, okx_, pf_.where, whyx_,
             'AddExogenous / SetExogenous called twice for one variable: the second path is the one to be used')
    # ---- R4 (cont.): the stated value reaches the (0) row as the number supplied --------------------------------
    from ._common import initial_value_text_exact
    for f_, where_, ok_, why_ in initial_value_text_exact(prog):
        check.saw(f_)
        check.ob('C10.R4', '%s::initial-value-text-exact(%s)' % (f_.key, where_.rsplit(':', 1)[0]), ok_, where_, why_,
                 'an initial condition with more than a few decimals (80/3, 1e-7): the k=0 value must be that number')
    # horizon+1 values per variable, the k=0 value the stated one: still so after the results were read (no accessor cuts a stored
    # series in place; alias analysis shared with C16.R2)
    from .C16 import discover_accessors, check_accessor, Summaries
    acc_ = discover_accessors(prog)
    summ_ = Summaries(prog)
    for f_acc in acc_['series']:
        check_accessor(prog, check, f_acc, 'series', summ_, pid_rules=(None, 'C10.R1'))
    check.floor('C10.R8', 1)
    check.floor('C10.R7', 2)
    check.floor('C10.R1', 6)
    check.floor('C10.R2', 5)
    check.floor('C10.R3', 3)
    check.floor('C10.R4', 4)
    check.floor('C10.R5', 2)
    check.floor('C10.R6', 2)


def _membership_guard(test, lv, zero_sets=()):
    """`lv in <time-zero set>` / `lv in <...InitialConditions>` possibly with .keys(), inside an `or`"""
    for c in ast.walk(test):
        if isinstance(c, ast.Compare) and len(c.ops) == 1 and isinstance(c.ops[0], ast.In) and \
                isinstance(c.left, ast.Name) and c.left.id == lv:
            tgt = c.comparators[0]
            if isinstance(tgt, ast.Call) and call_name(tgt) == 'keys' and isinstance(tgt.func, ast.Attribute):
                tgt = tgt.func.value
            is_zero_set = isinstance(tgt, ast.Name) and tgt.id in zero_sets
            is_ic = isinstance(tgt, ast.Attribute) and tgt.attr == 'InitialConditions'
            if is_zero_set or is_ic:
                # must not be under a `not`, nor conjoined with another condition
                p = getattr(c, '_parent', None)
                if isinstance(p, ast.UnaryOp) and isinstance(p.op, ast.Not):
                    continue
                if isinstance(test, ast.BoolOp) and isinstance(test.op, ast.And):
                    continue
                return True
    return False


def provenance(func, expr, depth=0):
    """partition attributes (.Endogenous ...) a collection expression is built from, through local names"""
    out = set()
    for x in ast.walk(expr):
        if isinstance(x, ast.Attribute) and x.attr in ('Endogenous', 'Lagged', 'Exogenous', 'Decoration'):
            out.add(x.attr)
    if depth > 6:
        return out
    names = {x.id for x in ast.walk(expr) if isinstance(x, ast.Name)}
    seen = getattr(provenance, '_seen', None)
    top = seen is None
    if top:
        provenance._seen = seen = set()
    try:
        for nm in names:
            if nm in seen:
                continue
            seen.add(nm)
            for n in ast.walk(func):
                if isinstance(n, ast.Assign) and any(nm in target_names(t) for t in n.targets):
                    out |= provenance(func, n.value, depth + 1)
                elif isinstance(n, ast.Call) and isinstance(n.func, ast.Attribute) and n.func.attr in ('append', 'extend') \
                        and isinstance(n.func.value, ast.Name) and n.func.value.id == nm:
                    # appended inside a loop: the provenance of the loop's collection
                    p = n
                    while p is not None and p is not func:
                        if isinstance(p, ast.For):
                            out |= provenance(func, p.iter, depth + 1)
                            break
                        p = getattr(p, '_parent', None)
                    for a in n.args:
                        out |= {x.attr for x in ast.walk(a) if isinstance(x, ast.Attribute)
                                and x.attr in ('Endogenous', 'Lagged', 'Exogenous', 'Decoration')}
    finally:
        if top:
            provenance._seen = None
    return out


def parser_line_loop(prog):
    """the parser function with a `for` over <param>.split('\\n'), private helpers inlined"""
    out = []
    for f_raw in prog.all_functions():
        if '/deprecated/' in f_raw.module.rel:
            continue
        f = flatten(prog, f_raw)
        for n in ast.walk(f.node):
            if isinstance(n, ast.For):
                it = n.iter
                src = None
                if isinstance(it, ast.Name):
                    sub = single_assign_subst(f.node)
                    src = sub.get(it.id)
                else:
                    src = it
                if isinstance(src, ast.Call) and call_name(src) in ('split', 'splitlines') and \
                        isinstance(src.func, ast.Attribute) and isinstance(src.func.value, ast.Name) and \
                        src.func.value.id in f.params():
                    if call_name(src) == 'splitlines' or (src.args and isinstance(src.args[0], ast.Constant)
                                                          and src.args[0].value == '\n'):
                        out.append((f, n))
    if len(out) > 1:
        # a private helper (a generator of lines, a scanning closure) that is inlined into another candidate is judged there
        inl = {}
        for f, _ in out:
            for k_ in getattr(f, 'inlined', ()):
                inl.setdefault(k_, set()).add(f.key)
        kept = [(f, n) for f, n in out if not (f.name.startswith('_') and not f.name.startswith('__') and (inl.get(f.key, set()) - {f.key}))]
        if kept:
            out = kept
    if len(out) > 1:
        # a caller that has the parsing function inlined is not a second parser
        keys = {f.key for f, _ in out}
        out = [(f, n) for f, n in out if not (set(getattr(f, 'inlined', ())) & (keys - {f.key}))]
    if len(out) != 1:
        raise AnalysisError('expected one parser line loop, found %s' % [f.qualname for f, _ in out])
    return out[0]


def check_default_t(prog, check, rule='C10.R5'):
    f, loop = parser_line_loop(prog)
    check.saw(f)
    g = cfgmod.build(f)
    # the append of the literal ('t', 'k')
    sites = []
    for n in g.stmt_nodes():
        if n.kind == 'stmt':
            for c in ast.walk(n.ast):
                if isinstance(c, ast.Call) and call_name(c) == 'append' and c.args and isinstance(c.args[0], ast.Tuple) \
                        and [getattr(e, 'value', None) for e in c.args[0].elts] == ['t', 'k']:
                    sites.append(n)
    check.ob(rule, '%s::default-time-axis-present' % f.key, len(sites) == 1,
             f.where, "exactly one site appends the default ('t', 'k')" if len(sites) == 1 else
             "the default time axis ('t','k') is appended at %d sites" % len(sites), 'a block without a t equation')
    if len(sites) != 1:
        return
    site = sites[0]
    # appended to the endogenous partition
    recv = [c for c in ast.walk(site.ast) if isinstance(c, ast.Call) and call_name(c) == 'append'][0].func.value
    check.ob(rule, '%s::default-time-axis-is-endogenous' % f.key,
             isinstance(recv, ast.Attribute) and recv.attr == 'Endogenous', '%s:%d' % (f.module.rel, site.line),
             'default t goes to %s' % unparse(recv), 'a block without a t equation')
    # guarded by "the user supplied no t": either a flag that is raised only for a line whose variable is t, or a look-up of
    # 't' in the table of parsed equations
    from ..cfg import atomic_facts
    flag = None
    table_guard = False
    for test, outcome in g.conditions_at(site):
        for _, v, e in atomic_facts(test, outcome):
            if v is False and isinstance(e, ast.Name):
                flag = e.id
            if v is False and isinstance(e, ast.Compare) and len(e.ops) == 1 and isinstance(e.ops[0], ast.In) and \
                    getattr(e.left, 'value', None) == 't' and isinstance(e.comparators[0], ast.Attribute) and \
                    e.comparators[0].attr in ('AllEquations',):
                table_guard = True
    ok = flag is not None or table_guard
    check.ob(rule, '%s::default-time-axis-guarded' % f.key, ok, '%s:%d' % (f.module.rel, site.line),
             ('default t appended only when `%s` is false' % flag) if flag else
             ("default t appended only when 't' is not among the parsed equations" if table_guard else 'default t appended unconditionally'),
             'a block that defines t itself: t would be defined twice')
    if not ok:
        return
    if flag is None:
        # every parsed equation is entered in the table under its own name
        stores = [n for n in ast.walk(loop) if isinstance(n, ast.Assign) and any(
            isinstance(t_, ast.Subscript) and isinstance(t_.value, ast.Attribute) and t_.value.attr == 'AllEquations' for t_ in n.targets)]
        good = bool(stores)
        check.ob(rule, '%s::user-t-detected' % f.key, good, f.where,
                 'every parsed equation is recorded in the table the guard consults' if good else
                 'the table the guard consults is not filled by the parser loop', 'a block with / without a user-defined time variable')
        return
    # flag: initialised False before the loop, set True only under a test that the LHS is 't'
    inits = [n for n in ast.walk(f.node) if isinstance(n, ast.Assign) and flag in target_names(n.targets[0])]
    good = True
    why = []
    n_true = 0
    for a in inits:
        in_loop = any(a in ast.walk(st) for st in loop.body)
        if isinstance(a.value, ast.Constant) and a.value.value is False and not in_loop:
            continue
        mentions_t = lambda x: any(isinstance(c, ast.Constant) and c.value == 't' for c in ast.walk(x))
        if isinstance(a.value, ast.Constant) and a.value.value is True and in_loop:
            okp = any(mentions_t(test) and outcome is True for test, outcome in g.conditions_at(g.node_of(a)))
            if okp:
                n_true += 1
                continue
            why.append('flag set without testing that the variable is t (line %d)' % a.lineno)
            good = False
            continue
        if in_loop and isinstance(a.value, ast.BoolOp) and isinstance(a.value.op, ast.Or) and \
                any(isinstance(x, ast.Name) and x.id == flag for x in a.value.values) and \
                all((isinstance(x, ast.Name) and x.id == flag) or mentions_t(x) for x in a.value.values):
            n_true += 1         # flag = flag or <variable is t>
            continue
        if in_loop and isinstance(a.value, ast.Compare) and mentions_t(a.value) and False:
            continue
        why.append('unexpected assignment to the flag at line %d' % a.lineno)
        good = False
    if n_true == 0:
        good = False
        why.append('the flag is never set when the user defines t')
    # the name tested is the left-hand side as written: a name from which the initial-condition marker '(0)' has been removed
    # would make the line `t(0) = ...` count as a definition of t
    stripped = set()
    grew = True
    while grew:
        grew = False
        for n_ in ast.walk(f.node):
            if isinstance(n_, ast.Assign) and len(n_.targets) == 1 and isinstance(n_.targets[0], ast.Name) and n_.targets[0].id not in stripped:
                v_ = n_.value
                marks = any(isinstance(c_, ast.Call) and call_name(c_) in ('replace', 'partition', 'split', 'rstrip', 'strip') and c_.args and
                            isinstance(c_.args[0], ast.Constant) and c_.args[0].value == '(0)' for c_ in ast.walk(v_))
                from_stripped = isinstance(v_, ast.Name) and v_.id in stripped
                if marks or from_stripped:
                    stripped.add(n_.targets[0].id)
                    grew = True
    for nd_ in g.nodes:
        if nd_.kind not in ('test', 'stmt') or nd_.ast is None:
            continue
        for c_ in ast.walk(nd_.ast):
            if isinstance(c_, ast.Compare) and len(c_.ops) == 1 and isinstance(c_.ops[0], (ast.In, ast.Eq)) and isinstance(c_.left, ast.Name) and \
                    any(isinstance(k_, ast.Constant) and k_.value == 't' for k_ in ast.walk(c_.comparators[0])) and c_.left.id in stripped:
                # does a marker-stripping definition of that name reach this test?
                defs_ = [d_ for d_ in g.stmt_nodes() if d_.kind == 'stmt' and isinstance(d_.ast, ast.Assign) and
                         any(isinstance(t_, ast.Name) and t_.id == c_.left.id for t_ in d_.ast.targets) and
                         (any(isinstance(x_, ast.Call) and call_name(x_) in ('replace', 'partition', 'split') and x_.args and
                              isinstance(x_.args[0], ast.Constant) and x_.args[0].value == '(0)' for x_ in ast.walk(d_.ast.value)) or
                          (isinstance(d_.ast.value, ast.Name) and d_.ast.value.id in stripped))]
                all_defs_ = {d2_.id for d2_ in g.stmt_nodes() if d2_.kind == 'stmt' and isinstance(d2_.ast, ast.Assign) and
                             any(c_.left.id in target_names(t_) for t_ in d2_.ast.targets)} | \
                            {h_.id for h_ in g.nodes if h_.kind == 'for' and c_.left.id in target_names(h_.ast.target)}
                if any(nd_.id in g.reach([d_], avoid=all_defs_ - {d_.id}) for d_ in defs_):
                    good = False
                    why.append("the test `%s` (line %d) sees the name after the '(0)' marker was removed: an initial condition on t counts "
                               "as the user's own definition of t and no time axis is generated" % (unparse(c_), c_.lineno))
    check.ob(rule, '%s::user-t-detected' % f.key, good, f.where,
             'flag starts False and is set only when the parsed variable is t' if good else '; '.join(why),
             'a block with / without a user-defined time variable')
