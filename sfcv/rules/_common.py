"""Rule fragments shared by several properties."""
import ast

from .. import cfg as cfgmod
from ..inline import flatten
from ..loader import AnalysisError, call_name, unparse
from ..dataflow import single_assign_subst, resolve_expr

REPLACERS = ('replace_token_from_lookup', 'replace_token')


def term_rename(prog):
    """Term.ReplaceTokensFromLookup: every store to the term text is the token-level replacer applied to the current
    text with the caller's lookup, and every normal return has passed such a store (so opaque and simple terms alike
    are renamed).  -> (funcinfo, [(store node, ok, text)], all_paths_ok)"""
    T = prog.classes.get('Term')
    rt = T.methods.get('ReplaceTokensFromLookup') if T else None
    if rt is None:
        raise AnalysisError('Term.ReplaceTokensFromLookup not found')
    fl = flatten(prog, rt)
    g = cfgmod.build(fl)
    sub = single_assign_subst(fl.node)
    params = fl.params()
    lk = params[1] if len(params) > 1 else None
    stores = []
    for n in g.stmt_nodes():
        if n.kind == 'stmt' and isinstance(n.ast, ast.Assign) and any(
                isinstance(t, ast.Attribute) and t.attr == 'Term' for t in n.ast.targets):
            v = resolve_expr(n.ast.value, sub)
            while isinstance(v, ast.Call) and isinstance(v.func, ast.Attribute) and v.func.attr == 'strip' and not v.args:
                v = v.func.value
            ok = isinstance(v, ast.Call) and call_name(v) in REPLACERS and len(v.args) >= 2 and \
                isinstance(v.args[0], ast.Attribute) and v.args[0].attr == 'Term' and unparse(v.args[1]) == lk
            stores.append((n, ok, unparse(n.ast.value)))
    good = [n for n, ok, _ in stores if ok]
    all_paths = bool(good) and g.must_pass(g.entry, g.exit, good)
    # ... and only once: a second application renames the result of the first (a swap is undone)
    term_rename.twice = None
    for n in good:
        after = [b for b, lab in g.succ[n.id] if lab not in ('exc', 'raise')]
        hit = [m for m in good if m.id in g.reach(after, include_src=True)]
        if hit:
            term_rename.twice = (n, hit[0])
            break
    return rt, stores, all_paths


def term_text_verbatim(prog):
    """Term.__init__: the text kept for a term is the caller's text up to blanks, one leading sign and one pair of
    enclosing parentheses - never re-assembled from tokens.  -> (funcinfo, [(store stmt, ok, why)])"""
    from ..dataflow import target_names
    T = prog.classes.get('Term')
    init = T.methods.get('__init__') if T else None
    if init is None:
        raise AnalysisError('Term.__init__ not found')
    fl = flatten(prog, init)
    params = fl.params()
    src = params[1] if len(params) > 1 else None
    defs = {}
    for n in ast.walk(fl.node):
        if isinstance(n, ast.Assign) and len(n.targets) == 1 and isinstance(n.targets[0], ast.Name):
            defs.setdefault(n.targets[0].id, []).append(n.value)
        elif isinstance(n, (ast.For, ast.comprehension)):
            for nm in target_names(n.target):
                defs.setdefault(nm, []).append(None)
        elif isinstance(n, ast.AugAssign) and isinstance(n.target, ast.Name):
            defs.setdefault(n.target.id, []).append(None)

    def verbatim(e, seen=()):
        """e denotes the input text with only blanks / a leading character / the outer characters removed"""
        if e is None:
            return False
        if isinstance(e, ast.Name):
            if e.id == src:
                return True
            if e.id in seen:
                return True         # a cycle of locals derived from each other: decided by their other definitions
            if e.id not in defs:
                return False
            return all(verbatim(d, seen + (e.id,)) or (isinstance(d, ast.Name) and d.id == e.id) or _self_derived(d, e.id, seen)
                       for d in defs[e.id])
        if isinstance(e, ast.Call) and isinstance(e.func, ast.Name) and e.func.id == 'str' and len(e.args) == 1:
            return verbatim(e.args[0], seen)
        if isinstance(e, ast.Call) and isinstance(e.func, ast.Attribute) and e.func.attr in ('strip', 'lstrip', 'rstrip') and not e.args:
            return verbatim(e.func.value, seen)
        if isinstance(e, ast.Call) and isinstance(e.func, ast.Attribute) and e.func.attr == 'replace' and len(e.args) == 2 and \
                isinstance(e.args[0], ast.Constant) and isinstance(e.args[0].value, str) and e.args[0].value.strip() == '' and \
                e.args[0].value != '' and isinstance(e.args[1], ast.Constant) and e.args[1].value == '':
            return verbatim(e.func.value, seen)
        if isinstance(e, ast.Subscript) and isinstance(e.slice, ast.Slice) and e.slice.step is None:
            lo, hi = e.slice.lower, e.slice.upper
            lo_ok = lo is None or (isinstance(lo, ast.Constant) and lo.value in (0, 1))
            hi_ok = hi is None or (isinstance(hi, ast.UnaryOp) and isinstance(hi.op, ast.USub) and isinstance(hi.operand, ast.Constant)
                                   and hi.operand.value == 1)
            return lo_ok and hi_ok and verbatim(e.value, seen)
        return False

    def _self_derived(d, name, seen):
        # v = v[1:] / v = v.strip() ...: derived from the variable itself by the same operations
        class Sub(ast.NodeTransformer):
            def visit_Name(self, node):
                return ast.copy_location(ast.Name(id=src, ctx=node.ctx), node) if node.id == name else node
        import copy as _c
        from ..loader import clone
        return verbatim(Sub().visit(clone(d)), seen + (name,))
    out = []
    for n in ast.walk(fl.node):
        if isinstance(n, ast.Assign) and any(isinstance(t, ast.Attribute) and t.attr == 'Term' and isinstance(t.value, ast.Name)
                                             and t.value.id == 'self' for t in n.targets):
            v = n.value
            if isinstance(v, ast.Attribute) and v.attr == 'Term' and isinstance(v.value, ast.Name) and v.value.id == src:
                out.append((n, True, 'copied from another Term'))
                continue
            ok = verbatim(v)
            out.append((n, ok, 'the text is the input text up to blanks, a leading sign and enclosing parentheses' if ok else
                        'the stored text `%s` is re-assembled / transformed, not the text that was passed in' % unparse(v)))
    return init, out


def registration_always_recorded(prog, attr, n_fields):
    """methods that append to self.<attr> record their arguments on every normal path.
    -> [(funcinfo, ok, why)]"""
    out = []
    for rf in prog.all_functions():
        apps = [c for c in ast.walk(rf.node) if isinstance(c, ast.Call) and call_name(c) == 'append' and
                isinstance(c.func, ast.Attribute) and isinstance(c.func.value, ast.Attribute) and c.func.value.attr == attr and
                isinstance(c.func.value.value, ast.Name) and c.func.value.value.id == 'self']
        if not apps or rf.name == '__init__':
            continue
        fl = flatten(prog, rf)
        g = cfgmod.build(fl)
        nodes = [nd for nd in g.stmt_nodes() if nd.kind == 'stmt' and any(
            isinstance(c, ast.Call) and call_name(c) == 'append' and isinstance(c.func, ast.Attribute) and
            isinstance(c.func.value, ast.Attribute) and c.func.value.attr == attr for c in ast.walk(nd.ast))]
        always = bool(nodes) and g.must_pass(g.entry, g.exit, nodes)
        params = fl.params()[1:]
        args_ok = True
        for nd in nodes:
            for c in ast.walk(nd.ast):
                if isinstance(c, ast.Call) and call_name(c) == 'append' and c.args and isinstance(c.func.value, ast.Attribute) \
                        and c.func.value.attr == attr:
                    a0 = c.args[0]
                    args_ok = args_ok and isinstance(a0, ast.Tuple) and len(a0.elts) >= n_fields and \
                        [unparse(x) for x in a0.elts[:n_fields]] == params[:n_fields]
        why = 'every call records its arguments in %s' % attr if (always and args_ok) else (
            'a call can return without recording (%s is appended only on some paths)' % attr if not always else
            'the recorded tuple is not the arguments of the call')
        out.append((rf, always and args_ok, why))
    return out


def exogenous_applied(prog):
    """Model._ProcessExogenous-like function: every (sector, variable, value) entry of self.Exogenous is written into the
    variable's equation as 'EXOGENOUS ' + value, unconditionally (a later entry therefore overrides an earlier one).
    -> (funcinfo, ok, why)"""
    from ..dataflow import target_names
    M = prog.classes.get('Model')
    cands = []
    for f in (M.methods.values() if M else []):
        for loop in [n for n in ast.walk(f.node) if isinstance(n, ast.For)]:
            if isinstance(loop.iter, ast.Attribute) and loop.iter.attr == 'Exogenous' and any(
                    isinstance(c, ast.Call) and call_name(c) == 'SetEquationRightHandSide' for c in ast.walk(loop)):
                cands.append((f, loop))
    if not cands:
        # the entries are first gathered into a local collection and applied from there (two passes)
        two_pass = []
        for f in (M.methods.values() if M else []):
            ff = flatten(prog, f)
            loops = [n for n in ast.walk(ff.node) if isinstance(n, ast.For) and isinstance(n.iter, ast.Attribute) and n.iter.attr == 'Exogenous']
            sets = [c for c in ast.walk(ff.node) if isinstance(c, ast.Call) and call_name(c) == 'SetEquationRightHandSide']
            if loops and sets:
                two_pass.append((len(list(ast.walk(ff.node))), f, ff, loops))
        if two_pass:
            _, f, ff, loops = min(two_pass, key=lambda t: t[0])        # the pass itself, not the entry points it is inlined into
            local_stores = {c.targets[0].value.id for lp in loops for c in ast.walk(lp) if isinstance(c, ast.Assign) and
                            isinstance(c.targets[0], ast.Subscript) and isinstance(c.targets[0].value, ast.Name)}
            first_wins = [c for lp in loops for c in ast.walk(lp) if
                          (isinstance(c, ast.Call) and call_name(c) == 'setdefault' and isinstance(c.func.value, ast.Name)) or
                          (isinstance(c, ast.Compare) and len(c.ops) == 1 and isinstance(c.ops[0], ast.NotIn) and
                           isinstance(c.comparators[0], ast.Name) and c.comparators[0].id in local_stores)]
            gathered = [c for lp in loops for c in ast.walk(lp) if (isinstance(c, ast.Call) and call_name(c) in ('append', 'setdefault')) or
                        (isinstance(c, ast.Assign) and isinstance(c.targets[0], ast.Subscript))]
            if first_wins:
                return f, False, ('the entries of the exogenous list are gathered with `%s`: of two definitions of one variable the one '
                                  'supplied FIRST is kept, the one supplied last is ignored' % unparse(first_wins[0])[:70])
            if gathered:
                return f, True, 'the entries are gathered in order (a later one replaces an earlier one) and then applied'
        raise AnalysisError('expected one function applying self.Exogenous to the sectors, found %s' % [f.qualname for f, _ in cands])
    if len(cands) != 1:
        raise AnalysisError('expected one function applying self.Exogenous to the sectors, found %s' % [f.qualname for f, _ in cands])
    f_raw, _ = cands[0]
    f = flatten(prog, f_raw)
    loop = [n for n in ast.walk(f.node) if isinstance(n, ast.For) and isinstance(n.iter, ast.Attribute) and n.iter.attr == 'Exogenous'][0]
    g = cfgmod.build(f)
    lv = target_names(loop.target)
    hdr = [h for h in g.nodes if h.kind == 'for' and h.stmt is loop][0]
    sets = []
    val_ok = True
    for nd in g.stmt_nodes():
        if nd.kind == 'stmt' and loop in nd.loops:
            for c in ast.walk(nd.ast):
                if isinstance(c, ast.Call) and call_name(c) == 'SetEquationRightHandSide' and len(c.args) >= 2:
                    sets.append(nd)
                    v = c.args[1]
                    val_ok = val_ok and isinstance(v, ast.BinOp) and isinstance(v.op, ast.Add) and isinstance(v.left, ast.Constant) and \
                        isinstance(v.left.value, str) and v.left.value.strip() == 'EXOGENOUS' and len(lv) == 3 and unparse(v.right) == lv[2] and \
                        unparse(c.args[0]) == lv[1]
    first = [b for b, lab in g.succ[hdr.id] if lab is True]
    every = bool(sets) and all(g.nodes[b] in sets or g.must_pass(b, hdr, sets) for b in first)
    ok = every and val_ok
    why = 'every entry of the exogenous list is written into its variable as given' if ok else (
        'an entry of the exogenous list can be skipped: an earlier definition then wins over the one supplied last' if not every else
        'the value written is not the supplied one')
    return f_raw, ok, why


def initial_value_text_exact(prog):
    """The text kept for an initial condition is an exact rendering of the number supplied, and is passed on unchanged.
    -> [(funcinfo, where, ok, why)]
    (a) the public Model method that records an initial condition stores  v | str(v) | repr(v)  where v is the value
        parameter, possibly forced through float();   (b) the function that turns the records into equation rows hands the
        recorded text on as it is."""
    from ..dataflow import target_names
    M = prog.classes.get('Model')
    if M is None:
        raise AnalysisError('class Model not found')
    out = []
    recorders = 0
    for f_raw in M.methods.values():
        if f_raw.name.startswith('_'):
            continue
        f = flatten(prog, f_raw)
        params = set(f.params()[1:])
        for c in ast.walk(f.node):
            if not (isinstance(c, ast.Call) and call_name(c) == 'append' and isinstance(c.func, ast.Attribute) and
                    isinstance(c.func.value, ast.Attribute) and c.func.value.attr == 'InitialConditions' and c.args):
                continue
            recorders += 1
            tup = c.args[0]
            if isinstance(tup, ast.Name):
                tup = single_assign_subst(f.node).get(tup.id, tup)
            if not isinstance(tup, ast.Tuple) or len(tup.elts) != 3:
                out.append((f_raw, '%s:%d' % (f.module.rel, c.lineno), False, 'the record appended is not a (sector, variable, value) triple'))
                continue
            val = tup.elts[2]
            # exact renderings of the number supplied:  E := <value parameter> | float(E) | str(E) | repr(E) | a local every binding
            # of which is an E   (str / repr of a float round-trip exactly; float() of what the user passed is the number itself)
            binds = {}
            for n in ast.walk(f.node):
                if isinstance(n, ast.Assign):
                    for t in n.targets:
                        for nm in target_names(t):
                            binds.setdefault(nm, []).append(n.value if isinstance(t, ast.Name) else None)
                elif isinstance(n, (ast.AugAssign, ast.For, ast.With)):
                    tg = n.target if isinstance(n, (ast.AugAssign, ast.For)) else None
                    for nm in (target_names(tg) if tg is not None else []):
                        binds.setdefault(nm, []).append(None)

            def exact_e(e, seen=()):
                if isinstance(e, ast.Name):
                    if e.id in seen:
                        return True
                    bs = binds.get(e.id, [])
                    if e.id in params:
                        return all(b is not None and exact_e(b, seen + (e.id,)) for b in bs)
                    return bool(bs) and all(b is not None and exact_e(b, seen + (e.id,)) for b in bs)
                if isinstance(e, ast.Call) and call_name(e) in ('float', 'str', 'repr') and isinstance(e.func, ast.Name) and len(e.args) == 1 \
                        and not e.keywords:
                    return exact_e(e.args[0], seen)
                return False
            ok = exact_e(val) and any(isinstance(x, ast.Name) and x.id in params for x in ast.walk(val)) or \
                (exact_e(val) and isinstance(val, ast.Name))
            out.append((f_raw, '%s:%d' % (f.module.rel, c.lineno), ok,
                        'the value recorded is the number supplied, rendered exactly (%s)' % unparse(val) if ok else
                        'the value recorded is `%s`: not an exact rendering of the number supplied, the k=0 value differs from the stated one'
                        % unparse(val)[:100]))
    if not recorders:
        raise AnalysisError('no public Model method records initial conditions')
    # (b) the rows generated from the records carry the recorded text unchanged
    gens = 0
    for f_raw in M.methods.values():
        f = flatten(prog, f_raw)
        for loop in [n for n in ast.walk(f.node) if isinstance(n, ast.For)]:
            if not (isinstance(loop.iter, ast.Attribute) and loop.iter.attr == 'InitialConditions'):
                continue
            lv = target_names(loop.target)
            if len(lv) != 3:
                continue
            apps = [c for c in ast.walk(loop) if isinstance(c, ast.Call) and call_name(c) == 'append' and c.args and isinstance(c.args[0], ast.Tuple)
                    and len(c.args[0].elts) >= 2]
            if not apps:
                continue
            gens += 1
            rebinds = any(isinstance(x, ast.Name) and x.id == lv[2] and isinstance(x.ctx, ast.Store) for st in loop.body for x in ast.walk(st))
            for c in apps:
                v = c.args[0].elts[1]
                ok = isinstance(v, ast.Name) and v.id == lv[2] and not rebinds
                out.append((f_raw, '%s:%d' % (f.module.rel, c.lineno), ok,
                            'the recorded text becomes the right-hand side of the (0) row unchanged' if ok else
                            'the right-hand side of the (0) row is `%s`, not the recorded text' % unparse(v)[:100]))
    if not gens:
        raise AnalysisError('no Model function turns the initial-condition records into rows')
    # one verdict per site, attributed to the function whose own text holds it (it is inlined into its callers, too)
    best = {}
    for f_raw, where, ok, why in out:
        line = int(where.rsplit(':', 1)[1])
        own = f_raw.node.lineno <= line <= getattr(f_raw.node, 'end_lineno', line)
        if where not in best or (own and not best[where][4]):
            best[where] = (f_raw, where, ok, why, own)
    return [v[:4] for k, v in sorted(best.items())]


def addterm_private_copy(prog):
    """Equation.AddTerm: the object appended to the term list is, on every path to the append, a name bound to
    Term(<the parameter>) / a copy of it - never the caller's own object.  -> (funcinfo, ok)"""
    from ..dataflow import target_names
    E = prog.classes.get('Equation')
    at = E.methods.get('AddTerm') if E else None
    if at is None:
        raise AnalysisError('Equation.AddTerm not found')
    ga = cfgmod.build(at)
    tp = at.params()[1]
    uses = []
    for n in ga.stmt_nodes():
        if n.kind == 'stmt':
            for c in ast.walk(n.ast):
                if isinstance(c, ast.Call) and call_name(c) == 'append' and c.args and isinstance(c.args[0], ast.Name) and \
                        isinstance(c.func, ast.Attribute) and 'TermList' in unparse(c.func.value):
                    uses.append((n, c.args[0].id))
    ok = bool(uses)
    for u, nm in uses:
        copies = [n for n in ga.stmt_nodes() if n.kind == 'stmt' and isinstance(n.ast, ast.Assign) and isinstance(n.ast.targets[0], ast.Name)
                  and n.ast.targets[0].id == nm and isinstance(n.ast.value, ast.Call) and call_name(n.ast.value) in ('Term', 'copy', 'deepcopy')
                  and n.ast.value.args and unparse(n.ast.value.args[0]) == tp]
        others = [n for n in ga.stmt_nodes() if n.kind == 'stmt' and isinstance(n.ast, ast.Assign) and
                  nm in target_names(n.ast.targets[0]) and n not in copies]
        ok = ok and bool(copies) and not others and ga.must_pass(ga.entry, u, copies)
    return at, ok


def accessors_not_memoised(prog, names=('GetSectors', 'LookupSector', 'GetVariableName', 'GetVariables', 'GetModel', 'ShareParent',
                                        'IsSharedCurrencyZone', 'GetCrossRate', 'GetSectorCodeWithCountry')):
    """The effect traces read these accessors as functions of the *current* object graph (the sectors of a zone are the
    sectors it has now).  A definition that fills a data member and can hand back what an earlier call left there - with no
    other function of the package ever re-setting that member - answers for an older graph.
    -> [(funcinfo, member, ok, why)]  one entry per (accessor, member it both stores and reads)"""
    out = []
    # members (re)set anywhere outside constructors, per attribute name
    setters = {}
    for f in prog.all_functions():
        if '/deprecated/' in f.module.rel:
            continue
        for n in ast.walk(f.node):
            tgts = n.targets if isinstance(n, ast.Assign) else ([n.target] if isinstance(n, (ast.AugAssign, ast.AnnAssign)) else (
                n.targets if isinstance(n, ast.Delete) else []))
            for t in tgts:
                base = t
                while isinstance(base, ast.Subscript):
                    base = base.value
                if isinstance(base, ast.Attribute):
                    setters.setdefault(base.attr, set()).add(f.key)
            if isinstance(n, ast.Call) and isinstance(n.func, ast.Attribute) and n.func.attr in ('clear', 'pop', 'update', 'append', 'extend') and \
                    isinstance(n.func.value, ast.Attribute):
                setters.setdefault(n.func.value.attr, set()).add(f.key)
    for f_raw in prog.all_functions():
        if f_raw.name not in names or f_raw.cls is None or not prog.is_core(f_raw.module.rel):
            continue
        f = flatten(prog, f_raw)
        stored = {}
        for n in ast.walk(f.node):
            if isinstance(n, ast.Assign):
                for t in n.targets:
                    base = t
                    while isinstance(base, ast.Subscript):
                        base = base.value
                    if isinstance(base, ast.Attribute) and isinstance(base.value, ast.Name) and base.value.id == 'self':
                        stored.setdefault(base.attr, []).append(n)
        if not stored:
            out.append((f_raw, None, True, 'keeps nothing between calls'))
            continue
        g = cfgmod.build(f)
        for attr, stores in sorted(stored.items()):
            reads = [n for n in ast.walk(f.node) if isinstance(n, ast.Attribute) and n.attr == attr and isinstance(n.ctx, ast.Load) and
                     isinstance(n.value, ast.Name) and n.value.id == 'self']
            if not reads:
                continue
            # a path from the entry to a return that uses the member without having stored it in this call
            snodes = [g.node_of(s) for s in stores]
            snodes = [x for x in snodes if x is not None]
            stale_ret = None
            for rn in g.stmt_nodes(lambda nd: isinstance(nd.ast, ast.Return) and nd.ast.value is not None):
                names_used = {x.attr for x in ast.walk(rn.ast.value) if isinstance(x, ast.Attribute)} | \
                             {x.id for x in ast.walk(rn.ast.value) if isinstance(x, ast.Name)}
                local_from_member = {t.id for n in ast.walk(f.node) if isinstance(n, ast.Assign) and len(n.targets) == 1 and
                                     isinstance(n.targets[0], ast.Name) and any(r_ in list(ast.walk(n.value)) for r_ in reads)
                                     for t in [n.targets[0]]}
                if attr in names_used or (names_used & local_from_member):
                    if not g.must_pass(g.entry, rn, snodes):
                        stale_ret = rn
            others = {k for k in setters.get(attr, set()) if k != f_raw.key and not k.endswith('.__init__')}
            ok = stale_ret is None or bool(others)
            why = ('self.%s is rebuilt in every call that returns it' % attr if stale_ret is None else
                   'self.%s can be returned as an earlier call left it; it is also re-set by %s (coherence of that re-setting is not decided here)'
                   % (attr, sorted(others)[:2])) if ok else \
                ('self.%s is filled here and can be handed back as an earlier call left it (line %d); nothing else in the package ever re-sets it: '
                 'objects created after the first call are never seen' % (attr, stale_ret.line))
            out.append((f_raw, attr, ok, why))
    if not out:
        raise AnalysisError('no discovery accessor found')
    return out


def steady_state_covers_all_series(loop, subst):
    """the acceptance / installation loop of the steady-state search ranges over every variable that has a series.
    Decided for the two ways the collection is spelled in this package: the keys of a series holder (all of them), or a
    concatenation of parser partitions (then the decorative partition must be part of it).  -> (ok, why)"""
    it = resolve_expr(loop.iter, subst)
    txt = unparse(it)
    if 'TimeSeries' in txt or 'VariableList' in txt:
        return True, 'the search tests and installs every variable of the series holder (`%s`)' % txt[:80]
    parts = {x.attr for x in ast.walk(it) if isinstance(x, ast.Attribute) and x.attr in ('Endogenous', 'Lagged', 'Decoration', 'Exogenous')}
    if parts:
        ok = 'Decoration' in parts and 'Endogenous' in parts and 'Lagged' in parts
        return ok, ('the search ranges over the parser partitions %s' % sorted(parts) if ok else
                    'the search ranges over the parser partitions %s only: variables set aside by the simplification (decorative ones) are '
                    'neither tested nor given their steady k=0 value - their series differs from the unsimplified system' % sorted(parts))
    return True, 'the collection `%s` is not one this rule decides' % txt[:80]


def steady_state_loop(prog):
    """(raw funcinfo of the steady-state search, its acceptance loop in the flattened function, single-assignment map)"""
    from ..solver_model import solver_function
    from ..dataflow import target_names
    ss_raw = solver_function(prog, 'steady_state')
    ss = flatten(prog, ss_raw)
    subst = single_assign_subst(ss.node)
    loops = [n for n in ast.walk(ss.node) if isinstance(n, ast.For) and any(
        isinstance(x, ast.Subscript) and isinstance(x.slice, ast.UnaryOp) for x in ast.walk(n)) and any(
        isinstance(x, ast.Compare) and any(isinstance(y, ast.Attribute) and 'Toler' in y.attr
                                           for y in ast.walk(resolve_expr(x, subst))) for x in ast.walk(n))]
    if not loops:
        raise AnalysisError('acceptance loop not found in ' + ss.qualname)
    return ss_raw, loops[0], subst


def per_instance_defaults(prog, cls, prefix=''):
    """data members set in the constructor of `cls` (names starting with `prefix`): the initial value is an object of
    its own for every instance - not a module-level list / dict / set, nor a mutable default argument, shared by all.
    -> [(attr, where, ok, text of the value)]"""
    init = cls.methods.get('__init__')
    if init is None:
        raise AnalysisError('%s.__init__ not found' % cls.name)
    mod = init.module
    module_mutables = {}
    for st in mod.tree.body:
        if isinstance(st, ast.Assign) and len(st.targets) == 1 and isinstance(st.targets[0], ast.Name):
            v = st.value
            if isinstance(v, (ast.List, ast.Dict, ast.Set, ast.ListComp, ast.DictComp, ast.SetComp)) or (
                    isinstance(v, ast.Call) and call_name(v) in ('list', 'dict', 'set')):
                module_mutables[st.targets[0].id] = st
    mutable_args = set()
    a = init.node.args
    pos = list(a.args)
    for arg, d in zip(pos[len(pos) - len(a.defaults):], a.defaults):
        if isinstance(d, (ast.List, ast.Dict, ast.Set)):
            mutable_args.add(arg.arg)
    out = []
    bound_in_init = set()
    for n in ast.walk(init.node):
        if isinstance(n, ast.Assign):
            for t in n.targets:
                if isinstance(t, ast.Attribute) and isinstance(t.value, ast.Name) and t.value.id == 'self' and t.attr.startswith(prefix):
                    v = n.value
                    shared = isinstance(v, ast.Name) and (v.id in module_mutables or v.id in mutable_args)
                    bound_in_init.add(t.attr)
                    out.append((t.attr, '%s:%d' % (mod.rel, n.lineno), not shared, unparse(v)[:60]))
    # class-level defaults that the constructor does not re-bind: a mutable one is a single object for all instances
    for c in cls.mro:
        node = getattr(c, 'node', None)
        if node is None:
            continue
        for st in node.body:
            if isinstance(st, ast.Assign) and len(st.targets) == 1 and isinstance(st.targets[0], ast.Name) and st.targets[0].id.startswith(prefix) \
                    and st.targets[0].id not in bound_in_init:
                v = st.value
                mutable = isinstance(v, (ast.List, ast.Dict, ast.Set, ast.ListComp, ast.DictComp, ast.SetComp)) or (
                    isinstance(v, ast.Call) and call_name(v) in ('list', 'dict', 'set'))
                out.append((st.targets[0].id, '%s:%d' % (c.module.rel, st.lineno), not mutable, 'class-level ' + unparse(v)[:50]))
    return out


def exclusion_scope(prog):
    """How the cash-flow method decides that an income exclusion is *this sector's*: by the identity of the sector object
    (`obj.ID == self.ID`, `obj is self`, a mapping keyed by the object / its ID) - or by something several sectors of a
    model can share (the short code).  -> (funcinfo, ok, why)"""
    S = prog.classes.get('Sector')
    f_raw = S.methods.get('AddCashFlow') if S else None
    if f_raw is None:
        raise AnalysisError('Sector.AddCashFlow not found')
    f = flatten(prog, f_raw)
    sub = single_assign_subst(f.node)
    ident, other = False, []
    for n in ast.walk(f.node):
        if isinstance(n, ast.Compare) and len(n.ops) == 1:
            pair = {unparse(n.left), unparse(n.comparators[0])}
            if isinstance(n.ops[0], (ast.Eq, ast.Is)):
                if any(p.endswith('.ID') for p in pair) and 'self.ID' in pair:
                    ident = True
                elif 'self' in pair and len(pair) == 2:
                    ident = True
                elif any(p.startswith('self.') for p in pair) and any(not p.startswith('self.') and '.' in p for p in pair):
                    other.append(unparse(n))
            if isinstance(n.ops[0], (ast.In, ast.NotIn)) and 'IncomeExclusions' in unparse(resolve_expr(n.comparators[0], sub)):
                k = unparse(n.left)
                if k in ('self', 'self.ID') or k.startswith('(self,') or k.startswith('(self.ID,'):
                    ident = True
                else:
                    other.append(unparse(n))
        if isinstance(n, ast.Subscript) and 'IncomeExclusions' in unparse(resolve_expr(n.value, sub)):
            k = unparse(n.slice)
            if k in ('self', 'self.ID'):
                ident = True
            else:
                other.append(unparse(n))
        if isinstance(n, ast.Call) and isinstance(n.func, ast.Attribute) and n.func.attr == 'get' and n.args and \
                'IncomeExclusions' in unparse(resolve_expr(n.func.value, sub)):
            k = unparse(n.args[0])
            if k in ('self', 'self.ID'):
                ident = True
            else:
                other.append(unparse(n))
    ok = ident and not [o for o in other if 'Code' in o]
    why = 'an exclusion is applied to the sector object it was registered for' if ok else \
        'an exclusion is matched by `%s`: sectors of different countries that share that attribute share the exclusion' % (
            (other or ['no identity test'])[0][:80])
    return f_raw, ok, why


def sector_alias_rewriters(prog):
    """names of the sector-side methods of the alias pass, by role: a method of the Sector hierarchy that hands one of its own
    parameters (the alias lookup) to the token-level renaming of its equation block (`ReplaceTokensFromLookup` /
    `replace_token_from_lookup`).  The name `_ReplaceAliases` is what it is called today; a rename keeps the role."""
    import ast as _ast
    from ..loader import call_name as _cn
    out = set()
    for f in prog.all_functions():
        if f.cls is None or not any(c.name == 'Sector' for c in f.cls.mro):
            continue
        params = set(f.params()[1:])
        if not params:
            continue
        for c in _ast.walk(f.node):
            if isinstance(c, _ast.Call) and _cn(c) in ('ReplaceTokensFromLookup', 'replace_token_from_lookup') and \
                    any(isinstance(a, _ast.Name) and a.id in params for a in list(c.args) + [k.value for k in c.keywords]):
                out.add(f.name)
    return out or {'_ReplaceAliases'}


def truncating_breaks(it):
    """`break` statements of an interpreted unit that end a loop in which other iterations have effects, in an iteration that has
    none itself (nothing is selected by leaving): the elements after that one are silently left out of whatever the loop builds.
    -> [(loop key, guards, where)]"""
    out = []
    loops_with_effects = {l[0] for e in it.effects for l in e.loops}
    for lk, guards, where, selects in it.breaks:
        if selects or lk not in loops_with_effects:
            continue
        out.append((lk, guards, where))
    return out


def registration_order_kept(prog, attr):
    """the list self.<attr> of user registrations is only ever extended at its end outside constructors (append / extend / +=):
    an insert at another position, a sort or a reversal changes which of two registrations for one key is applied last.
    -> [(funcinfo, node, ok, why)]"""
    out = []
    for f in prog.all_functions():
        if f.name == '__init__' or f.cls is None:
            continue
        for c in ast.walk(f.node):
            if isinstance(c, ast.Call) and isinstance(c.func, ast.Attribute) and isinstance(c.func.value, ast.Attribute) and \
                    c.func.value.attr == attr and isinstance(c.func.value.value, ast.Name) and c.func.value.value.id == 'self':
                nm = c.func.attr
                if nm in ('append', 'extend'):
                    out.append((f, c, True, 'a registration is added at the end of %s' % attr))
                elif nm in ('insert', 'sort', 'reverse', 'appendleft'):
                    out.append((f, c, False, 'self.%s.%s(..): registrations are not kept in the order they were made, so an earlier '
                                'definition can override a later one' % (attr, nm)))
    return out
