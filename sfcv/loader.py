"""E1 - program model: modules, classes (linearised bases), methods, functions, name-resolved call sites."""
import ast
import os


class AnalysisError(Exception):
    """An anchor could not be located / the code left the modelled fragment. Exit status 2, never a violation."""


class Module(object):
    def __init__(self, root, rel):
        self.rel = rel
        self.path = os.path.join(root, rel)
        with open(self.path, 'rb') as f:
            self.source = f.read().decode('utf-8', 'replace')
        import warnings
        with warnings.catch_warnings():
            warnings.simplefilter('ignore')
            self.tree = ast.parse(self.source, filename=rel)
        from .normalise import normalise, modern_syntax
        try:
            self.modernised = modern_syntax(self.tree)
        except Exception:
            # never analyse a half-rewritten tree
            self.tree = ast.parse(self.source, filename=rel)
            self.modernised = -1
        self.normalised = normalise(self.tree)
        from .normalise import module_constants
        self.constants_inlined = module_constants(self.tree)
        self._import_map = None
        for node in ast.walk(self.tree):
            for child in ast.iter_child_nodes(node):
                child._parent = node
        self.tree._parent = None


def module_import_map(module):
    """names bound by the import statements at the top level of a module:
       name -> ('module', dotted)  for `import a.b as name` / `from a import b` (resolved later against the package)
       name -> ('object', dotted module, original name)  for `from a.b import f as name`
    `import a.b` binds `a`; the dotted use `a.b.f` is resolved from the attribute chain itself."""
    if module._import_map is not None:
        return module._import_map
    pkg_parts = module.rel.replace(os.sep, '/').split('/')[:-1]        # ['sfc_models', 'gl_book']
    out = {}
    for st in module.tree.body:
        stmts = [st]
        if isinstance(st, ast.Try):
            stmts = list(st.body)
        elif isinstance(st, ast.If):
            stmts = list(st.body) + list(st.orelse)
        for s_ in stmts:
            if isinstance(s_, ast.Import):
                for a in s_.names:
                    if a.asname:
                        out[a.asname] = ('module', a.name)
                    else:
                        out[a.name.split('.')[0]] = ('module', a.name.split('.')[0])
            elif isinstance(s_, ast.ImportFrom):
                base = s_.module or ''
                if s_.level:
                    up = pkg_parts[:len(pkg_parts) - (s_.level - 1)] if s_.level - 1 <= len(pkg_parts) else []
                    base = '.'.join(up + ([base] if base else []))
                for a in s_.names:
                    if a.name == '*':
                        out.setdefault('*', []).append(base)
                        continue
                    out[a.asname or a.name] = ('object', base, a.name)
    module._import_map = out
    return out


class FuncInfo(object):
    def __init__(self, module, node, cls=None):
        self.module = module
        self.node = node
        self.cls = cls
        self.name = node.name
        self.qualname = (cls.name + '.' if cls else '') + node.name

    @property
    def where(self):
        return '%s:%d' % (self.module.rel, self.node.lineno)

    @property
    def key(self):
        return '%s::%s' % (self.module.rel, self.qualname)

    def params(self):
        a = self.node.args
        return [x.arg for x in a.posonlyargs + a.args]

    def defaults(self):
        """param name -> default expression (ast) for parameters that have one"""
        a = self.node.args
        pos = a.posonlyargs + a.args
        out = {}
        for p, d in zip(pos[len(pos) - len(a.defaults):], a.defaults):
            out[p.arg] = d
        for p, d in zip(a.kwonlyargs, a.kw_defaults):
            if d is not None:
                out[p.arg] = d
        return out


class ClassInfo(object):
    def __init__(self, module, node):
        self.module = module
        self.node = node
        self.name = node.name
        self.base_names = []
        for b in node.bases:
            if isinstance(b, ast.Name):
                self.base_names.append(b.id)
            elif isinstance(b, ast.Attribute):
                self.base_names.append(b.attr)
        self.methods = {}
        for st in node.body:
            if isinstance(st, (ast.FunctionDef,)):
                self.methods[st.name] = FuncInfo(module, st, self)
        self.mro = []

    @property
    def key(self):
        return '%s::%s' % (self.module.rel, self.name)


CORE_DIRS = ('', 'gl_book', 'deprecated')


class Program(object):
    def __init__(self, root='/repo', with_examples=False):
        self.root = root
        self.modules = {}
        self.classes = {}      # name -> ClassInfo (first definition in core wins; duplicates recorded)
        self.class_dups = {}
        self.functions = {}    # module-level functions: (rel, name) -> FuncInfo
        pkg = os.path.join(root, 'sfc_models')
        if not os.path.isdir(pkg):
            raise AnalysisError('package directory not found: ' + pkg)
        rels = []
        for dirpath, dirnames, filenames in os.walk(pkg):
            dirnames.sort()
            reldir = os.path.relpath(dirpath, pkg)
            reldir = '' if reldir == '.' else reldir
            top = reldir.split(os.sep)[0] if reldir else ''
            if top == 'examples' and not with_examples:
                continue
            if top not in CORE_DIRS and top != 'examples':
                continue
            if '__pycache__' in dirpath:
                continue
            for fn in sorted(filenames):
                if fn.endswith('.py') and not fn.startswith('test_'):
                    rels.append(os.path.join('sfc_models', reldir, fn) if reldir else os.path.join('sfc_models', fn))
        self.parse_errors = []
        for rel in rels:
            try:
                m = Module(root, rel)
            except SyntaxError as e:
                # a core module that does not parse is an analysis error; examples are skipped
                if '/examples/' in rel.replace(os.sep, '/'):
                    self.parse_errors.append((rel, str(e)))
                    continue
                raise AnalysisError('cannot parse %s: %s' % (rel, e))
            self.modules[rel] = m
        from .normalise import properties_to_methods, records_to_tuples
        core_trees = [m_.tree for r_, m_ in self.modules.items() if self.is_core(r_)]
        self.properties_rewritten = properties_to_methods(core_trees)
        self.records_rewritten = records_to_tuples(core_trees)
        for rel, m in self.modules.items():
            if self.properties_rewritten or self.records_rewritten:
                for node in ast.walk(m.tree):
                    for child in ast.iter_child_nodes(node):
                        child._parent = node
            for st in m.tree.body:
                if isinstance(st, ast.ClassDef):
                    ci = ClassInfo(m, st)
                    if st.name in self.classes:
                        self.class_dups.setdefault(st.name, [self.classes[st.name]]).append(ci)
                        if self.is_core(self.classes[st.name].module.rel):
                            continue
                    self.classes[st.name] = ci
                elif isinstance(st, ast.FunctionDef):
                    self.functions[(rel, st.name)] = FuncInfo(m, st)
        for ci in self.classes.values():
            ci.mro = self._mro(ci, set())
        for lst in self.class_dups.values():
            for ci in lst:
                if not ci.mro:
                    ci.mro = self._mro(ci, set())

    @staticmethod
    def is_core(rel):
        return '/examples/' not in rel.replace(os.sep, '/')

    def _mro(self, ci, seen):
        out = [ci]
        seen = seen | {ci.name}
        for b in ci.base_names:
            bc = self.classes.get(b)
            if bc is not None and bc.name not in seen:
                for x in self._mro(bc, seen):
                    if x not in out:
                        out.append(x)
        return out

    # ---- queries -------------------------------------------------------------------------------
    def module(self, rel):
        m = self.modules.get(rel)
        if m is None:
            raise AnalysisError('module not found: ' + rel)
        return m

    def cls(self, name):
        c = self.classes.get(name)
        if c is None:
            raise AnalysisError('class not found: ' + name)
        return c

    def all_classes(self):
        out = list(self.classes.values())
        for lst in self.class_dups.values():
            for ci in lst:
                if ci not in out:
                    out.append(ci)
        return out

    def subclasses(self, name, include_self=True, with_dups=False):
        out = []
        for ci in (self.all_classes() if with_dups else self.classes.values()):
            if any(c.name == name for c in ci.mro):
                if include_self or ci.name != name:
                    out.append(ci)
        return sorted(out, key=lambda c: (c.module.rel, c.node.lineno))

    def resolve_method(self, cls, name):
        """method lookup along the linearised bases -> FuncInfo or None"""
        if isinstance(cls, str):
            cls = self.classes.get(cls)
            if cls is None:
                return None
        for c in cls.mro:
            if name in c.methods:
                return c.methods[name]
        return None

    def method(self, clsname, name):
        f = self.resolve_method(clsname, name)
        if f is None:
            raise AnalysisError('method not found: %s.%s' % (clsname, name))
        return f

    def all_functions(self, core_only=True):
        out = []
        for ci in self.classes.values():
            if core_only and not self.is_core(ci.module.rel):
                continue
            out.extend(ci.methods.values())
        for (rel, _), f in self.functions.items():
            if core_only and not self.is_core(rel):
                continue
            out.append(f)
        return sorted(out, key=lambda f: (f.module.rel, f.node.lineno))

    def module_of_dotted(self, dotted):
        """'sfc_models.utils' -> Module or None"""
        rel = dotted.replace('.', '/')
        for cand in (rel + '.py', rel + '/__init__.py'):
            m = self.modules.get(cand) or self.modules.get(cand.replace('/', os.sep))
            if m is not None:
                return m
        return None

    def imported_function(self, module, expr):
        """the module-level function of the package that `expr` (a Name or an attribute chain, as written in `module`) denotes
        through the module's import statements, or None"""
        imap = module_import_map(module)
        if isinstance(expr, ast.Name):
            ent = imap.get(expr.id)
            if ent is not None and ent[0] == 'object':
                m = self.module_of_dotted(ent[1])
                if m is not None:
                    return self.functions.get((m.rel, ent[2]))
            if ent is None:
                for base in imap.get('*', []):
                    m = self.module_of_dotted(base)
                    if m is not None and (m.rel, expr.id) in self.functions and not expr.id.startswith('_'):
                        return self.functions[(m.rel, expr.id)]
            return None
        chain = attr_chain(expr)
        if not chain or len(chain) < 2:
            return None
        head, fname = chain[:-1], chain[-1]
        ent = imap.get(head[0])
        if ent is None:
            return None
        if ent[0] == 'module':
            dotted = '.'.join([ent[1]] + head[1:])
        else:
            dotted = '.'.join([ent[1], ent[2]] + head[1:])
        m = self.module_of_dotted(dotted)
        if m is None:
            return None
        return self.functions.get((m.rel, fname))

    def definitions_of(self, method_name, core_only=True):
        return [f for f in self.all_functions(core_only) if f.name == method_name]

    def find_functions(self, pred, core_only=True):
        return [f for f in self.all_functions(core_only) if pred(f)]


# ---- small ast helpers ---------------------------------------------------------------------------
def clone(node):
    """deep copy of a syntax tree that follows the declared fields only (nodes carry a `_parent` back-pointer, so
    copy.deepcopy would copy the whole module); positions are kept"""
    if isinstance(node, list):
        return [clone(x) for x in node]
    if not isinstance(node, ast.AST):
        return node
    new = node.__class__()
    for name, value in ast.iter_fields(node):
        setattr(new, name, clone(value))
    for a in ('lineno', 'col_offset', 'end_lineno', 'end_col_offset'):
        if hasattr(node, a):
            setattr(new, a, getattr(node, a))
    return new


def unparse(node):
    return ast.unparse(node) if node is not None else ''


def call_name(call):
    """trailing name of the callee: f(...) -> 'f', a.b.c(...) -> 'c'"""
    f = call.func
    if isinstance(f, ast.Name):
        return f.id
    if isinstance(f, ast.Attribute):
        return f.attr
    return None


def attr_chain(node):
    """a.b.c -> ['a','b','c']; returns None when the base is not a plain name"""
    out = []
    while isinstance(node, ast.Attribute):
        out.append(node.attr)
        node = node.value
    if isinstance(node, ast.Name):
        out.append(node.id)
        return list(reversed(out))
    return None


def calls_in(node):
    return [n for n in ast.walk(node) if isinstance(n, ast.Call)]


def names_in(node):
    return {n.id for n in ast.walk(node) if isinstance(n, ast.Name)}


def const_str(node):
    if isinstance(node, ast.Constant) and isinstance(node.value, str):
        return node.value
    return None


def enclosing_function(node):
    n = getattr(node, '_parent', None)
    while n is not None and not isinstance(n, (ast.FunctionDef, ast.Lambda)):
        n = getattr(n, '_parent', None)
    return n


def stmt_of(node):
    """the innermost statement containing an expression node"""
    n = node
    while n is not None and not isinstance(n, ast.stmt):
        n = getattr(n, '_parent', None)
    return n


def arg_of(call, index, name, funcinfo=None):
    """positional-or-keyword argument of a call (ast) or None"""
    if index is not None and index < len(call.args):
        a = call.args[index]
        if not isinstance(a, ast.Starred):
            return a
    for kw in call.keywords:
        if kw.arg == name:
            return kw.value
    return None
