"""Verdict contract, obligations, evidence files, known findings, replay files."""
import json
import os
import sys
import time

VERIF = os.path.dirname(os.path.dirname(os.path.abspath(__file__)))
KNOWN_FINDINGS = os.path.join(VERIF, 'known_findings.json')
# development tools that analyse scratch variants redirect evidence/replay files away from the committed ones
OUT = os.environ.get('SFCV_OUT_DIR') or VERIF


class Obligation(object):
    """One instance of one rule.  `key` is the normalised construct (no line numbers); `where` is file:line for
    the human-readable report only."""

    def __init__(self, rule, key, ok, where, why='', witness='', detail=None):
        self.rule = rule
        self.key = key
        self.ok = bool(ok)
        self.where = where
        self.why = why
        self.witness = witness
        self.detail = detail or {}

    def as_sample(self):
        d = {'rule': self.rule, 'construct': self.key, 'where': self.where,
             'verdict': 'discharged' if self.ok else 'refuted'}
        if self.why:
            d['why'] = self.why
        if self.witness and not self.ok:
            d['witness_input_class'] = self.witness
        if self.detail:
            d['detail'] = self.detail
        return d


class Check(object):
    def __init__(self, pid, tier, root, title=''):
        self.pid = pid
        self.tier = tier
        self.root = root
        self.title = title
        self.obligations = []
        self.analysed = {'files': set(), 'functions': set(), 'notes': []}
        self.floors = {}          # rule -> minimum number of instances
        self.controls = []        # (name, fired?) liveness controls
        self.audit = []           # thorough-tier audit lines (evidence only)
        self.explanation = ''
        self.assumptions = []
        self.not_decided = ''
        self.t0 = time.time()

    # -- recording ---------------------------------------------------------------------------
    def ob(self, rule, key, ok, where, why='', witness='', detail=None):
        o = Obligation(rule, key, ok, where, why, witness, detail)
        self.obligations.append(o)
        return o

    def saw(self, funcinfo):
        self.analysed['files'].add(funcinfo.module.rel)
        self.analysed['functions'].add(funcinfo.key)

    def floor(self, rule, n):
        self.floors[rule] = n

    def control(self, name, fired):
        self.controls.append((name, bool(fired)))

    def note(self, text):
        self.analysed['notes'].append(text)


class Borrowed(object):
    """Runs the rule module of another property on behalf of this one: the obligations selected by `accept(rule, key)` are recorded
    under `rule_as` of the borrowing check (same key, same position), everything else the lender records is dropped.  Used where a
    clause of one property is, word for word, a clause of another (the token-level renamer used by the reduction is the renamer of
    C13; the alias pass of C13's clients is the alias pass of C05)."""

    def __init__(self, check, accept, rule_as, witness=None):
        self._check, self._accept, self._rule_as, self._witness = check, accept, rule_as, witness
        self.explanation, self.assumptions, self.not_decided = '', [], ''
        self.tier, self.root, self.pid = check.tier, check.root, check.pid
        self.audit = []
        self.analysed = {'files': set(), 'functions': set(), 'notes': []}
        self.n = 0
        self._borrowing = True       # a lender does not borrow in turn

    def ob(self, rule, key, ok, where, why='', witness='', detail=None):
        if self._accept(rule, key):
            self.n += 1
            return self._check.ob(self._rule_as, key, ok, where, why, self._witness or witness, detail)
        return None

    def run_lender(self, module, prog):
        """run the lender's rules; an anchor the lender cannot find is the lender's analysis error, not the borrower's: the borrowed
        clause is then simply not part of the borrower's verdict (noted in its evidence)"""
        from .loader import AnalysisError
        try:
            module.run(prog, self)
        except AnalysisError as e:
            self._check.note('clause borrowed as %s could not be decided by its lender: %s' % (self._rule_as, e))

    def saw(self, funcinfo):
        # what the lender read to decide the borrowed clauses counts as analysed by the borrower too (coverage, corpus selection)
        self._check.saw(funcinfo)

    def floor(self, rule, n):
        pass

    def control(self, name, fired):
        pass

    def note(self, text):
        pass


def load_known():
    try:
        with open(KNOWN_FINDINGS) as f:
            data = json.load(f)
    except (IOError, OSError):
        return []
    return data.get('known_findings', [])


def has_new_refutations(check):
    known = [k for k in load_known() if k.get('property') == check.pid]
    for o in check.obligations:
        if not o.ok and not any(k.get('rule') == o.rule and k.get('key') == o.key for k in known):
            return True
    return False


def finish(check, seed=0, checker_cmd='', ignore_problems=False):
    """Apply floors/controls, match known findings, print the verdict, write evidence; returns the exit status."""
    from .loader import AnalysisError
    pid = check.pid
    counts = {}
    for o in check.obligations:
        counts[o.rule] = counts.get(o.rule, 0) + 1
    problems = []
    for rule, n in sorted(check.floors.items()):
        if counts.get(rule, 0) < n:
            problems.append('rule %s matched %d instance(s), floor is %d' % (rule, counts.get(rule, 0), n))
    for name, fired in check.controls:
        if not fired:
            problems.append('liveness control did not fire: ' + name)
    known = [k for k in load_known() if k.get('property') == pid]
    failed = [o for o in check.obligations if not o.ok]
    known_hits, new = [], []
    for o in failed:
        hit = None
        for k in known:
            if k.get('rule') == o.rule and k.get('key') == o.key:
                hit = k
                break
        (known_hits if hit else new).append((o, hit))
    if problems and not new and not ignore_problems:
        # a vacuous / starved rule is an analysis error, unless a refuted obligation already explains it
        raise AnalysisError('; '.join(problems))
    n = len(check.obligations)
    nd = n - len(failed)
    status = 1 if new else 0
    lines = []
    replay = ''
    if new:
        replay = write_replay(check, [o for o, _ in new])
        lines.append('VIOLATION property=%s replay=%s' % (pid, replay))
        for o, _ in new:
            lines.append('  %s  %s  %s -- %s%s' % (o.where, o.rule, o.key, o.why,
                                                  (' -- witness: ' + o.witness) if o.witness else ''))
    for o, k in known_hits:
        lines.append('KNOWN-FINDING: property=%s %s %s (%s) at %s' % (pid, o.rule, k.get('what', o.why), o.key, o.where))
    if not new:
        lines.append('OK property=%s obligations=%d discharged=%d known_findings=%d' % (pid, n, nd, len(known_hits)))
    write_evidence(check, seed, checker_cmd, len(new), len(known_hits))
    rules = sorted(counts)
    lines.append('analysed: %d files, %d functions; rule instances: %s' % (
        len(check.analysed['files']), len(check.analysed['functions']),
        ', '.join('%s=%d' % (r, counts[r]) for r in rules)))
    emit('\n'.join(lines))
    return status


def emit(text):
    """single write; a reader that closed the pipe early must not turn the verdict into a traceback"""
    try:
        sys.stdout.write(text + '\n')
        sys.stdout.flush()
    except BrokenPipeError:
        try:
            sys.stdout = open(os.devnull, 'w')
        except OSError:
            pass


def write_replay(check, obligations):
    d = os.path.join(OUT, 'replay')
    os.makedirs(d, exist_ok=True)
    path = os.path.join(d, '%s_%s.json' % (check.pid, check.tier))
    with open(path, 'w') as f:
        json.dump({'property': check.pid, 'root': check.root, 'tier': check.tier,
                   'refuted': [o.as_sample() for o in obligations]}, f, indent=1, sort_keys=True)
    return path


def write_evidence(check, seed, checker_cmd, n_new, n_known):
    d = os.path.join(OUT, 'evidence')
    os.makedirs(d, exist_ok=True)
    obs = check.obligations
    distinct = len({(o.rule, o.key) for o in obs})
    # samples: every refuted obligation plus a spread of discharged ones (at least one per rule)
    samples, seen_rules = [], set()
    for o in obs:
        if not o.ok:
            samples.append(o.as_sample())
    for o in obs:
        if o.ok and o.rule not in seen_rules:
            seen_rules.add(o.rule)
            samples.append(o.as_sample())
    for o in obs:
        if len(samples) >= 40:
            break
        if o.ok and o.as_sample() not in samples:
            samples.append(o.as_sample())
    per_rule = {}
    for o in obs:
        r = per_rule.setdefault(o.rule, {'instances': 0, 'discharged': 0})
        r['instances'] += 1
        r['discharged'] += 1 if o.ok else 0
    cov = {
        'explanation': check.explanation,
        'obligations': len(obs),
        'discharged': sum(1 for o in obs if o.ok),
        'refuted_known_findings': n_known,
        'refuted_new': n_new,
        'evaluations': len(obs) + len(check.audit),
        'distinct_nontrivial': distinct,
        'rule': 'one obligation per (rule, construct) instance found in the parsed tree; distinct = distinct '
                '(rule, normalised construct key) pairs; vacuous matches are excluded by per-rule floors',
        'per_rule': per_rule,
        'floors': check.floors,
        'controls': [{'name': n, 'fired': f} for n, f in check.controls],
        'samples': samples,
        'analysed_files': sorted(check.analysed['files']),
        'analysed_functions': sorted(check.analysed['functions']),
        'notes': check.analysed['notes'],
        'checker_cmd': checker_cmd,
        'trusted_base': ['CPython ast / tokenize', 'the sfcv analyser (this repository-specific checker)'],
        'not_decided': check.not_decided,
        'exhaustive': True,
    }
    if check.audit:
        cov['audit'] = check.audit
    ev = {
        'property_id': check.pid,
        'tier': check.tier,
        'seed': int(seed),
        'level': 'other',
        'coverage': cov,
        'assumptions': check.assumptions,
        'wall_s': round(time.time() - check.t0, 3),
        'violations': n_new,
    }
    path = os.path.join(d, check.pid + '.json')
    tmp = path + '.tmp'
    with open(tmp, 'w') as f:
        json.dump(ev, f, indent=1, sort_keys=True, default=str)
    os.replace(tmp, path)
