"""C13 - name substitution is hygienic and simultaneous (decided structural clauses).

R1 replacement predicate : in the token utilities a token is replaced only under  type is NAME  and
                           (value == target | value in lookup).
R2 single pass           : the replacement value is emitted, never re-examined (no fix-point, no recursion, the result
                           list is filled by one loop over the token stream and returned through untokenize).
R3 no substring renames  : every other `.replace(` call in the package is classified by shape; a replace with a
                           computed target, or with an identifier-shaped target on non-literal text, is name rewriting
                           by substring and must go through the utilities.
R4 list_tokens           : filters NAME tokens only, in order of appearance."""
import ast
import re

from .. import cfg as cfgmod
from ..loader import AnalysisError, unparse, call_name
from ..dataflow import target_names
from ..cfg import atomic_facts

TECHNIQUE = ('static analysis: token sites (loops and comprehensions over any expression denoting the token stream of the text argument, through helpers and caches) with emissions normalised to token type / token text and guarded by branch-outcome facts; single-pass structure; classification of all str.replace call sites in the package; per-entry renaming loops; the unchanged-return clause of C05.R1 recorded as R2')
EXPLANATION = (
    'The emission of a replacement token must be control-dependent on a NAME-type test conjoined with an exact match of the '
    'token text (== target / membership in the lookup dict); every other token is emitted unchanged; the result list is '
    'produced by a single pass. All str.replace sites of the package are enumerated and classified so that no variable '
    'renaming bypasses the token-level utilities. Value equality after untokenize is not decided.')


TOKENIZERS = ('tokenize', 'generate_tokens')


def _defs(fnode, name):
    """all expressions assigned to a local name in the function"""
    out = []
    for n in ast.walk(fnode):
        if isinstance(n, ast.Assign) and len(n.targets) == 1 and isinstance(n.targets[0], ast.Name) and n.targets[0].id == name:
            out.append(n.value)
    return out


class Stream(object):
    """a token stream over the text `src`; `pairs`: elements are (type, text) pairs instead of 5-tuples;
    `impure`: reason why the stream may belong to another text (e.g. a cache keyed by a transformed string)"""

    def __init__(self, src, pairs=False, impure=None):
        self.src, self.pairs, self.impure = src, pairs, impure


def stream_of(e, f, prog, depth=0):
    """Stream when the expression denotes the token stream of a string, else None"""
    if depth > 6 or e is None:
        return None
    tokenizer_alias = False
    if isinstance(e, ast.Call) and isinstance(e.func, ast.Name) and e.args:
        # a local name that is only ever bound to one of the tokenizer functions (the 2/3 switch)
        ds_ = _defs(f.node, e.func.id)
        tokenizer_alias = bool(ds_) and all(isinstance(d_, (ast.Attribute, ast.Name)) and
                                            (d_.attr if isinstance(d_, ast.Attribute) else d_.id) in TOKENIZERS for d_ in ds_)
    if isinstance(e, ast.Call) and (call_name(e) in TOKENIZERS or tokenizer_alias) and e.args:
        rl = e.args[0]
        if isinstance(rl, ast.Name):
            ds = _defs(f.node, rl.id)
            rl = ds[0] if len(ds) == 1 else rl
        # BytesIO(<src>.encode('utf-8')).readline  /  StringIO(<src>).readline
        if isinstance(rl, ast.Attribute) and rl.attr == 'readline' and isinstance(rl.value, ast.Call) and rl.value.args:
            x = rl.value.args[0]
            if isinstance(x, ast.Call) and isinstance(x.func, ast.Attribute) and x.func.attr == 'encode':
                x = x.func.value
            return Stream(unparse(x))
        return Stream('?')
    if isinstance(e, ast.Call) and isinstance(e.func, ast.Name) and e.func.id in ('list', 'tuple', 'iter') and len(e.args) == 1:
        return stream_of(e.args[0], f, prog, depth + 1)
    if isinstance(e, (ast.GeneratorExp, ast.ListComp)) and len(e.generators) == 1 and not e.generators[0].ifs:
        # ((toknum, tokval) for toknum, tokval, _, _, _ in <stream>)
        gen = e.generators[0]
        inner = stream_of(gen.iter, f, prog, depth + 1)
        tv = target_names(gen.target)
        if inner is not None and not inner.pairs and isinstance(e.elt, ast.Tuple) and len(e.elt.elts) == 2 and len(tv) >= 2 and \
                [unparse(x) for x in e.elt.elts] == tv[:2]:
            return Stream(inner.src, True, inner.impure)
        return None
    if isinstance(e, ast.Name):
        ds = _defs(f.node, e.id)
        ss = [stream_of(d, f, prog, depth + 1) for d in ds]
        if ds and all(x is not None for x in ss) and len({(x.src, x.pairs) for x in ss}) == 1:
            imp = next((x.impure for x in ss if x.impure), None)
            return Stream(ss[0].src, ss[0].pairs, imp)
        return None
    if isinstance(e, ast.Call) and isinstance(e.func, ast.Name):
        h = prog.functions.get((f.module.rel, e.func.id))
        if h is None or h is f or not e.args or not h.params():
            return None
        summ = helper_stream(h, prog, depth + 1)
        if summ is None:
            return None
        return Stream(unparse(e.args[0]), summ.pairs, summ.impure)
    return None


def generator_stream(h, prog, depth=0):
    """a generator helper `for a, b, ... in <stream of p>: yield a, b`: the (type, text) projection of the stream"""
    p = h.params()[0]
    yields = [y for y in ast.walk(h.node) if isinstance(y, (ast.Yield, ast.YieldFrom))]
    if not yields:
        return None
    loops = [n for n in ast.walk(h.node) if isinstance(n, ast.For)]
    if len(loops) != 1 or len(yields) != 1 or not isinstance(yields[0], ast.Yield):
        return None
    st = stream_of(loops[0].iter, h, prog, depth + 1)
    tv = target_names(loops[0].target)
    y = yields[0].value
    if st is None or st.pairs or st.src not in (p, '?') or not isinstance(y, ast.Tuple) or len(y.elts) != 2 or len(tv) < 2 or \
            [unparse(x) for x in y.elts] != tv[:2]:
        return None
    # the yield is unconditional in the loop
    par = getattr(yields[0], '_parent', None)
    while par is not None and par is not loops[0]:
        if isinstance(par, (ast.If, ast.Try, ast.While)):
            return None
        par = getattr(par, '_parent', None)
    return Stream(p, True, st.impure)


def helper_stream(h, prog, depth=0):
    """summary of a module-level helper whose every return is the token stream of its first parameter"""
    gs = generator_stream(h, prog, depth)
    if gs is not None:
        return gs
    p = h.params()[0]
    rets = [r.value for r in ast.walk(h.node) if isinstance(r, ast.Return)]
    if not rets or any(r is None for r in rets):
        return None
    out = None
    for r in rets:
        s_ = stream_of(r, h, prog, depth)
        if s_ is None and isinstance(r, (ast.Subscript, ast.Call)):
            # served from a module-level cache: cache[K] / cache.get(K)
            cache, key = None, None
            if isinstance(r, ast.Subscript) and isinstance(r.value, ast.Name):
                cache, key = r.value.id, r.slice
            elif isinstance(r, ast.Call) and isinstance(r.func, ast.Attribute) and r.func.attr == 'get' and \
                    isinstance(r.func.value, ast.Name) and r.args:
                cache, key = r.func.value.id, r.args[0]
            if cache is None:
                return None
            stores = [n for n in ast.walk(h.node) if isinstance(n, ast.Assign) and isinstance(n.targets[0], ast.Subscript)
                      and isinstance(n.targets[0].value, ast.Name) and n.targets[0].value.id == cache]
            if not stores:
                return None
            vals = [stream_of(n.value, h, prog, depth) for n in stores]
            if any(v is None for v in vals):
                return None

            def is_param(k):
                if isinstance(k, ast.Name) and k.id != p:
                    ds = _defs(h.node, k.id)
                    return len(ds) == 1 and is_param(ds[0])
                return isinstance(k, ast.Name) and k.id == p
            keys = [key] + [n.targets[0].slice for n in stores]
            s_ = Stream(vals[0].src, vals[0].pairs, vals[0].impure)
            if not all(is_param(k) for k in keys):
                s_.impure = 'the token stream is served from the cache `%s` under the key `%s`, which is not the text itself' % (
                    cache, unparse(resolve_key(keys[0], h)))
        if s_ is None or s_.src not in (p, '?'):
            return None
        if out is None:
            out = s_
        else:
            if out.pairs != s_.pairs:
                return None
            out.impure = out.impure or s_.impure
    return out


def resolve_key(k, h):
    if isinstance(k, ast.Name):
        ds = _defs(h.node, k.id)
        if len(ds) == 1:
            return ds[0]
    return k


class TokNorm(ast.NodeTransformer):
    """token accessors -> the names TOKTYPE / TOKVAL"""

    def __init__(self, typevar=None, valvar=None, whole=None):
        self.typevar, self.valvar, self.whole = typevar, valvar, whole

    def visit_Name(self, node):
        if node.id == self.typevar or node.id in getattr(self, 'typevars', ()):
            return ast.Name(id='TOKTYPE', ctx=node.ctx)
        if node.id == self.valvar or node.id in getattr(self, 'valvars', ()):
            return ast.Name(id='TOKVAL', ctx=node.ctx)
        return node

    def visit_Subscript(self, node):
        if self.whole and isinstance(node.value, ast.Name) and node.value.id == self.whole and isinstance(node.slice, ast.Constant):
            if node.slice.value == 0:
                return ast.Name(id='TOKTYPE', ctx=ast.Load())
            if node.slice.value == 1:
                return ast.Name(id='TOKVAL', ctx=ast.Load())
        return self.generic_visit(node)

    def visit_Attribute(self, node):
        if self.whole and isinstance(node.value, ast.Name) and node.value.id == self.whole:
            if node.attr in ('type', 'exact_type'):
                return ast.Name(id='TOKTYPE', ctx=ast.Load())
            if node.attr == 'string':
                return ast.Name(id='TOKVAL', ctx=ast.Load())
        return self.generic_visit(node)


def _norm(e, tn):
    import copy
    return tn.visit(copy.deepcopy(e))


class Site(object):
    """one traversal of a token stream: emissions = [(normalised emitted expression, [(normalised test, outcome)], line)]"""

    def __init__(self, node, stream, kind):
        self.node, self.stream, self.kind = node, stream, kind
        self.emissions = []
        self.every_token = True
        self.collector = None
        self.filtered = False


def token_sites(f, prog):
    out = []
    g = None
    for n in ast.walk(f.node):
        if isinstance(n, ast.For):
            st = stream_of(n.iter, f, prog)
            if st is None:
                continue
            tv = target_names(n.target)
            if isinstance(n.target, ast.Name):
                tn = TokNorm(whole=n.target.id)
            elif len(tv) >= 2:
                tn = TokNorm(typevar=tv[0], valvar=tv[1])
                # plain copies of the two components made in the loop body (`kind, text = a, b` left by an inlined helper)
                tn.typevars, tn.valvars = {tv[0]}, {tv[1]}
                stores_ = {}
                for x in ast.walk(n):
                    if isinstance(x, ast.Name) and isinstance(x.ctx, ast.Store):
                        stores_[x.id] = stores_.get(x.id, 0) + 1
                for _round in range(3):
                    for a_ in [x for st_ in n.body for x in ast.walk(st_) if isinstance(x, ast.Assign) and len(x.targets) == 1]:
                        t_, v_ = a_.targets[0], a_.value
                        pairs_ = []
                        if isinstance(t_, ast.Name):
                            pairs_.append((t_, v_))
                        elif isinstance(t_, (ast.Tuple, ast.List)) and isinstance(v_, (ast.Tuple, ast.List)) and len(t_.elts) == len(v_.elts):
                            pairs_.extend(zip(t_.elts, v_.elts))
                        for te_, ve_ in pairs_:
                            if not (isinstance(te_, ast.Name) and isinstance(ve_, ast.Name)):
                                continue
                            single_ = stores_.get(te_.id, 0) == 1
                            if not single_ and ve_.id in tn.valvars and te_.id != ve_.id:
                                # the copy is updated in place afterwards (`text = f(text)` under a test): inside those updates and
                                # the tests in front of them the name still denotes the token text
                                others_ = [x for st2_ in n.body for x in ast.walk(st2_) if isinstance(x, ast.Assign) and x is not a_ and
                                           any(isinstance(t2_, ast.Name) and t2_.id == te_.id for t2_ in x.targets)]
                                loop_assigned_ = set(stores_)
                                if others_ and len(others_) + 1 == stores_.get(te_.id, 0) and all(
                                        {y.id for y in ast.walk(o_.value) if isinstance(y, ast.Name)} & loop_assigned_ <= {te_.id} | tn.valvars | tn.typevars
                                        for o_ in others_):
                                    tn.valvars.add(te_.id)
                                    tn.updating = getattr(tn, 'updating', set()) | {te_.id}
                                continue
                            if single_:
                                if ve_.id in tn.typevars:
                                    tn.typevars.add(te_.id)
                                if ve_.id in tn.valvars:
                                    tn.valvars.add(te_.id)
            else:
                raise AnalysisError('token loop of %s does not unpack the token tuple' % f.name)
            site = Site(n, st, 'loop')
            if g is None:
                g = cfgmod.build(f)
            hdr = [h for h in g.nodes if h.kind == 'for' and h.stmt is n][0]
            inside = set(id(x) for x in ast.walk(n))
            emit_nodes = []
            for node in g.stmt_nodes():
                if node.kind != 'stmt' or n not in node.loops:
                    continue
                for c in ast.walk(node.ast):
                    if isinstance(c, ast.Call) and call_name(c) == 'append' and c.args and isinstance(c.func, ast.Attribute) \
                            and isinstance(c.func.value, ast.Name):
                        facts = []
                        for test, outcome in g.conditions_at(node):
                            if id(test) in inside:
                                for txt, val, e in atomic_facts(test, outcome):
                                    facts.append((_norm(e, tn), val))
                        for em_, fx_ in expand_emission(c.args[0], facts, n, g, inside, tn):
                            site.emissions.append((em_, fx_, c.lineno))
                        site.collector = c.func.value.id
                        emit_nodes.append(node)
            first = [b for b, lab in g.succ[hdr.id] if lab is True]
            site.every_token = bool(emit_nodes) and all(g.must_pass(b, hdr, emit_nodes) or g.nodes[b] in emit_nodes for b in first)
            site.nested = any(isinstance(x, (ast.For, ast.While)) for st_ in n.body for x in ast.walk(st_))
            out.append(site)
        elif isinstance(n, (ast.ListComp, ast.GeneratorExp)) and len(n.generators) == 1:
            gen = n.generators[0]
            st = stream_of(gen.iter, f, prog)
            if st is None:
                continue
            # the pair-projection of a stream is itself a stream, not a site
            if stream_of(n, f, prog) is not None:
                continue
            tv = target_names(gen.target)
            if isinstance(gen.target, ast.Name):
                tn = TokNorm(whole=gen.target.id)
            elif len(tv) >= 2:
                tn = TokNorm(typevar=tv[0], valvar=tv[1])
            else:
                raise AnalysisError('token comprehension of %s does not unpack the token tuple' % f.name)
            site = Site(n, st, 'comp')
            base = []
            for cond in gen.ifs:
                for txt, val, e in atomic_facts(cond, True):
                    base.append((_norm(e, tn), val))
            site.filtered = bool(gen.ifs)

            def emit(e, facts):
                if isinstance(e, ast.IfExp):
                    emit(e.body, facts + [(_norm(x, tn), v) for _, v, x in atomic_facts(e.test, True)])
                    emit(e.orelse, facts + [(_norm(x, tn), v) for _, v, x in atomic_facts(e.test, False)])
                else:
                    site.emissions.append((_norm(e, tn), facts, e.lineno))
            emit(n.elt, base)
            site.every_token = not gen.ifs
            site.nested = False
            par = getattr(n, '_parent', None)
            if isinstance(par, ast.Assign) and isinstance(par.targets[0], ast.Name):
                site.collector = par.targets[0].id
            out.append(site)
    return out


def expand_emission(value, facts, loop, g, inside, tn, depth=0):
    """[(normalised emitted expression, facts)]: conditional expressions are split into their alternatives; a local name in
    the emitted pair is replaced by each of its definitions in the loop (under the facts of that definition) - except
    definitions ruled out by an identity test of the emission (`x is not SENTINEL` excludes `x = SENTINEL`)"""
    if isinstance(value, ast.IfExp):
        out = []
        out += expand_emission(value.body, facts + [(_norm(x, tn), v) for _, v, x in atomic_facts(value.test, True)], loop, g, inside, tn, depth)
        out += expand_emission(value.orelse, facts + [(_norm(x, tn), v) for _, v, x in atomic_facts(value.test, False)], loop, g, inside, tn, depth)
        return out
    if depth < 3 and isinstance(value, ast.Tuple) and len(value.elts) == 2 and isinstance(value.elts[1], ast.Name):
        nm = value.elts[1].id
        defs = [nd for nd in g.stmt_nodes() if nd.kind == 'stmt' and isinstance(nd.ast, ast.Assign) and loop in nd.loops and
                len(nd.ast.targets) == 1 and isinstance(nd.ast.targets[0], ast.Name) and nd.ast.targets[0].id == nm]
        if defs and nm not in (tn.typevar, tn.valvar):
            # sentinels excluded by the emission's own facts
            excluded = set()
            for e, v in facts:
                if isinstance(e, ast.Compare) and len(e.ops) == 1 and isinstance(e.ops[0], ast.Is) and isinstance(e.left, ast.Name) \
                        and e.left.id == nm and isinstance(e.comparators[0], ast.Name) and v is False:
                    excluded.add(e.comparators[0].id)
            out = []
            for d in defs:
                dv = d.ast.value
                alts = []
                dfacts = []
                for test, outcome in g.conditions_at(d):
                    if id(test) in inside:
                        for _, v, x in atomic_facts(test, outcome):
                            dfacts.append((_norm(x, tn), v))

                def alt(e_, fx_):
                    if isinstance(e_, ast.IfExp):
                        alt(e_.body, fx_ + [(_norm(x, tn), v) for _, v, x in atomic_facts(e_.test, True)])
                        alt(e_.orelse, fx_ + [(_norm(x, tn), v) for _, v, x in atomic_facts(e_.test, False)])
                    else:
                        alts.append((e_, fx_))
                alt(dv, dfacts)
                for e_, fx_ in alts:
                    if isinstance(e_, ast.Name) and e_.id in excluded:
                        continue
                    new = ast.Tuple(elts=[value.elts[0], e_], ctx=ast.Load())
                    out.append((_norm(new, tn), [f_ for f_ in facts if not (isinstance(f_[0], ast.Compare) and isinstance(f_[0].ops[0], ast.Is))] + fx_))
            if out and nm in getattr(tn, 'updating', ()):
                # the path on which no update ran emits the token as it was read
                out.append((_norm(ast.Tuple(elts=[value.elts[0], ast.Name(id='TOKVAL', ctx=ast.Load())], ctx=ast.Load()), tn), []))
            if out:
                return out
    return [(_norm(value, tn), facts)]


def is_name_fact(e, val):
    return val is True and isinstance(e, ast.Compare) and len(e.ops) == 1 and isinstance(e.left, ast.Name) and e.left.id == 'TOKTYPE' and (
        (isinstance(e.ops[0], (ast.Eq, ast.Is)) and unparse(e.comparators[0]).split('.')[-1] == 'NAME') or
        (isinstance(e.ops[0], ast.In) and isinstance(e.comparators[0], (ast.Tuple, ast.List, ast.Set)) and
         [unparse(x).split('.')[-1] for x in e.comparators[0].elts] == ['NAME']))


def exact_fact(e, val, params):
    """('==', param) / ('in', param) when the fact is an exact match of the token text against a parameter"""
    if val is not True or not (isinstance(e, ast.Compare) and len(e.ops) == 1):
        return None
    l, r, op = e.left, e.comparators[0], e.ops[0]
    if isinstance(op, ast.Eq):
        for x, y in ((l, r), (r, l)):
            if isinstance(x, ast.Name) and x.id == 'TOKVAL' and isinstance(y, ast.Name) and y.id in params:
                return ('==', y.id)
    if isinstance(op, ast.In) and isinstance(l, ast.Name) and l.id == 'TOKVAL' and isinstance(r, ast.Name) and r.id in params:
        return ('in', r.id)
    return None


def untokenizes(e, f, prog, depth=0):
    """the expression is untokenize(<collector>) possibly decoded / str()-ed, or a module helper doing just that;
    returns the collector expression text"""
    if depth > 5 or e is None:
        return None
    if isinstance(e, ast.Call) and call_name(e) == 'untokenize' and e.args:
        return unparse(e.args[0])
    if isinstance(e, ast.Call) and isinstance(e.func, ast.Attribute) and e.func.attr in ('decode', 'strip') :
        return untokenizes(e.func.value, f, prog, depth + 1)
    if isinstance(e, ast.Call) and isinstance(e.func, ast.Name) and e.func.id == 'str' and len(e.args) == 1:
        return untokenizes(e.args[0], f, prog, depth + 1)
    if isinstance(e, ast.Name):
        ds = _defs(f.node, e.id)
        rs = {untokenizes(d, f, prog, depth + 1) for d in ds}
        if ds and len(rs) == 1 and None not in rs:
            return rs.pop()
        return None
    if isinstance(e, ast.Call) and isinstance(e.func, ast.Name) and len(e.args) == 1:
        h = prog.functions.get((f.module.rel, e.func.id))
        if h is not None and h is not f and h.params():
            rets = [r.value for r in ast.walk(h.node) if isinstance(r, ast.Return)]
            rs = {untokenizes(r, h, prog, depth + 1) for r in rets}
            if rets and rs == {h.params()[0]}:
                return unparse(e.args[0])
    return None


def run(prog, check):
    check.explanation = EXPLANATION
    check.not_decided = 'value equality of the renamed expression after untokenize (spacing / literal forms)'
    check.assumptions = ['tokenize yields every identifier occurrence as one NAME token']
    from ..inline import flatten, judged_at_callers
    raw_fns = [f for f in prog.all_functions() if f.cls is None and '/deprecated/' not in f.module.rel]
    at_callers = judged_at_callers(prog, raw_fns)
    mod_fns = [flatten(prog, f) for f in raw_fns if f.key not in at_callers]
    sites = {}
    for f in mod_fns:
        if f.params() and generator_stream(f, prog) is not None:
            continue            # a helper that merely projects the token stream
        ss = token_sites(f, prog)
        if ss:
            sites[f.key] = (f, ss)
    replacers, listers, delegators = [], [], []
    for f, ss in sites.values():
        rets = [r.value for r in ast.walk(f.node) if isinstance(r, ast.Return) and r.value is not None]
        if any(untokenizes(r, f, prog) is not None for r in rets) or any(
                isinstance(n, ast.Call) and call_name(n) == 'untokenize' for n in ast.walk(f.node)):
            replacers.append(f)
        else:
            listers.append(f)
    rnames = {f.name for f in replacers}
    # a function that hands its arguments to a token replacer as a one-entry mapping is a replacer by delegation;
    # one that applies a replacer once per entry of its mapping argument renames sequentially, not simultaneously
    for f in mod_fns:
        if f in replacers or f in listers:
            continue
        rets = [r.value for r in ast.walk(f.node) if isinstance(r, ast.Return) and r.value is not None]
        params = f.params()
        if rets and all(isinstance(r, ast.Call) and call_name(r) in rnames for r in rets) and len(params) >= 2:
            ok = True
            for r in rets:
                m = r.args[1] if len(r.args) > 1 else None
                ok = ok and len(r.args) == 2 and unparse(r.args[0]) == params[0] and isinstance(m, ast.Dict) and len(m.keys) == 1 and \
                    len(params) >= 3 and unparse(m.keys[0]) == params[1] and unparse(m.values[0]) == params[2]
            check.saw(f)
            check.ob('C13.R1', '%s::delegates-to-replacer' % f.key, ok, f.where,
                     'renames by handing {target: replacement} to the lookup replacer' if ok else
                     'delegates to a token replacer with other arguments than (text, {target: replacement})',
                     "renaming x in 'x_1 + 2.0e3*ax'")
            delegators.append(f)
            continue
        for loop in [n for n in ast.walk(f.node) if isinstance(n, ast.For)]:
            it = loop.iter
            src = it.func.value if (isinstance(it, ast.Call) and call_name(it) in ('items', 'keys') and isinstance(it.func, ast.Attribute)) else it
            if isinstance(src, ast.Name) and src.id in f.params() and any(
                    isinstance(c, ast.Call) and call_name(c) in rnames for c in ast.walk(loop)):
                check.saw(f)
                check.ob('C13.R2', '%s::single-pass' % f.key, False, '%s:%d' % (f.module.rel, loop.lineno),
                         'the renamings of `%s` are applied one after another, each on the output of the previous one: a replacement that is '
                         'itself a key is renamed again' % src.id, "swap map {'x': 'y', 'y': 'x'}: a swap must swap")
                delegators.append(f)
    # the same for methods: a renaming applied once per entry of a mapping parameter is sequential
    from ._common import sector_alias_rewriters
    RENAMERS = rnames | {'replace_token', 'replace_token_from_lookup', 'ReplaceTokensFromLookup'} | sector_alias_rewriters(prog)
    for f in prog.all_functions():
        if f.cls is None or '/deprecated/' in f.module.rel:
            continue
        fparams = f.params()
        for loop in [n for n in ast.walk(f.node) if isinstance(n, ast.For)]:
            it = loop.iter
            src = it.func.value if (isinstance(it, ast.Call) and call_name(it) in ('items', 'keys') and isinstance(it.func, ast.Attribute)) else it
            if not (isinstance(src, ast.Name) and src.id in fparams and src.id != 'self'):
                continue
            lv = set(target_names(loop.target))
            for c in ast.walk(loop):
                if isinstance(c, ast.Call) and call_name(c) in RENAMERS and any(
                        isinstance(x, ast.Name) and x.id in lv for a_ in c.args for x in ast.walk(a_)):
                    check.saw(f)
                    check.ob('C13.R2', '%s::single-pass' % f.key, False, '%s:%d' % (f.module.rel, c.lineno),
                             'the renamings of `%s` are applied one entry at a time, each on the output of the previous one: a replacement '
                             'that is itself a key is renamed again' % src.id, "swap map {'x': 'y', 'y': 'x'}: a swap must swap")
    if len(replacers) + len(delegators) < 2 or len(listers) < 1 or not replacers:
        raise AnalysisError('token utilities not found: replacers=%s listers=%s' % (
            [f.name for f in replacers + delegators], [f.name for f in listers]))
    for f in replacers + listers:
        check.saw(f)
        for site in sites[f.key][1]:
            if site.stream.impure:
                check.ob('C13.R1', '%s::stream-of-own-text' % f.key, False, '%s:%d' % (f.module.rel, site.node.lineno),
                         site.stream.impure, "'not x' after 'notx' has been tokenised; string literals with blanks")
            else:
                ok = site.stream.src in (f.params()[0], '?')
                check.ob('C13.R1', '%s::stream-of-own-text' % f.key, ok, '%s:%d' % (f.module.rel, site.node.lineno),
                         'the token stream is that of the text argument' if ok else
                         'the token stream is taken from `%s`, not from the text argument' % site.stream.src, 'any renaming')
    for f in replacers:
        params = f.params()
        for site in sites[f.key][1]:
            for em, facts, line in site.emissions:
                if not (isinstance(em, ast.Tuple) and len(em.elts) == 2):
                    check.ob('C13.R1', '%s::emit-replacement(%s)' % (f.key, unparse(em)), False, '%s:%d' % (f.module.rel, line),
                             'something else than a (type, text) pair is emitted', 'any renaming')
                    continue
                tnum, tval = em.elts
                if unparse(tnum) == 'TOKTYPE' and unparse(tval) == 'TOKVAL':
                    check.ob('C13.R1', '%s::emit-original' % f.key, True, '%s:%d' % (f.module.rel, line), 'token emitted unchanged', '')
                    continue
                has_name = any(is_name_fact(e, v) for e, v in facts)
                exact = None
                for e, v in facts:
                    exact = exact or exact_fact(e, v, params)
                ok, why = False, 'replacement emitted without the NAME-and-exact-match guard'
                if has_name and exact:
                    if exact[0] == '==':
                        good_val = isinstance(tval, ast.Name) and tval.id in params and tval.id != exact[1]
                    else:
                        good_val = isinstance(tval, ast.Subscript) and isinstance(tval.value, ast.Name) and \
                            tval.value.id == exact[1] and unparse(tval.slice) == 'TOKVAL'
                    good_type = unparse(tnum).split('.')[-1] == 'NAME' or unparse(tnum) == 'TOKTYPE'
                    if good_val and good_type:
                        ok, why = True, 'replacement guarded by NAME type and exact match (%s %s)' % exact
                    else:
                        why = 'guard found but the emitted token is `%s`' % unparse(em)
                elif facts and not has_name:
                    why = 'guard `%s` does not test the token type for NAME' % ' and '.join(
                        ('' if v else 'not ') + unparse(e) for e, v in facts)
                elif facts:
                    why = 'guard `%s` does not require an exact match of the token text' % ' and '.join(
                        ('' if v else 'not ') + unparse(e) for e, v in facts)
                check.ob('C13.R1', '%s::emit-replacement(%s)' % (f.key, unparse(em)), ok, '%s:%d' % (f.module.rel, line), why,
                         "renaming x in 'x_1 + 2.0e3*ax' (substring / number / string contents must stay)")
            check.ob('C13.R1', '%s::every-token-emitted' % f.key, site.every_token, '%s:%d' % (f.module.rel, site.node.lineno),
                     'every token of the stream is emitted exactly once per pass' if site.every_token else
                     'a token can be dropped from (or emitted twice into) the rewritten text', 'operators and numbers around a renamed name')
        # ---- R2 -------------------------------------------------------------------------------------
        loops = [n for n in ast.walk(f.node) if isinstance(n, (ast.While,))]
        rec = [n for n in ast.walk(f.node) if isinstance(n, ast.Call) and call_name(n) == f.name]
        nested = [st for st in sites[f.key][1] if st.nested]
        rets = [r for r in ast.walk(f.node) if isinstance(r, ast.Return) and r.value is not None]
        collectors = {st.collector for st in sites[f.key][1]}
        direct = bool(rets) and all(untokenizes(r.value, f, prog) in collectors for r in rets)
        # the lookup is consulted with the *original* token only (no chained re-lookup)
        relook = False
        for n in ast.walk(f.node):
            if isinstance(n, ast.Subscript) and isinstance(n.value, ast.Name) and n.value.id in params and \
                    isinstance(n.slice, ast.Subscript):
                relook = True
        ok = not loops and not rec and not nested and direct and not relook
        check.ob('C13.R2', '%s::single-pass' % f.key, ok, f.where,
                 'one pass over the token stream, result returned through untokenize' if ok else
                 'replacement output is re-examined (while loop / recursion / nested pass / chained lookup) or not returned through untokenize',
                 "swap map {'x': 'y', 'y': 'x'}: a swap must swap")
    # ---- R4 ----------------------------------------------------------------------------------------
    for f in listers:
        for site in sites[f.key][1]:
            ok = bool(site.emissions)
            extra = []
            for em, facts, line in site.emissions:
                if not (unparse(em) == 'TOKVAL' and any(is_name_fact(e, v) for e, v in facts)):
                    ok = False
                # every NAME token is listed: no further condition on the token or on what was collected so far
                for e, v in facts:
                    if is_name_fact(e, v):
                        continue
                    mentioned = {x.id for x in ast.walk(e) if isinstance(x, ast.Name)}
                    if mentioned & ({'TOKVAL', 'TOKTYPE'} | ({site.collector} if isinstance(site.collector, str) else set())):
                        extra.append(('' if v else 'not ') + unparse(e))
            check.ob('C13.R4', '%s::name-tokens-only' % f.key, ok, '%s:%d' % (f.module.rel, site.node.lineno),
                     'collects the token text under the NAME test only' if ok else 'collects something else than NAME token texts',
                     "list_tokens('x + 2*y(k-1)') must be ['x', 'y', 'k']")
            check.ob('C13.R4', '%s::every-name-token-listed' % f.key, not extra, '%s:%d' % (f.module.rel, site.node.lineno),
                     'a NAME token is listed whatever its text and whatever was listed before' if not extra else
                     'a NAME token is listed only when `%s`: occurrences are dropped, the list is not the name tokens in order of appearance' % ' and '.join(extra),
                     "list_tokens('a*b + b*a') must be ['a', 'b', 'b', 'a']")
        rets = [r for r in ast.walk(f.node) if isinstance(r, ast.Return) and r.value is not None]
        post = any(isinstance(n, ast.Call) and call_name(n) in ('sort', 'sorted', 'set', 'reverse', 'reversed') for n in ast.walk(f.node))
        collectors = {st.collector for st in sites[f.key][1]}
        plain = all((isinstance(r.value, ast.Name) and r.value.id in collectors) or
                    any(r.value is st.node for st in sites[f.key][1]) for r in rets)
        check.ob('C13.R4', '%s::order-preserved' % f.key, not post and plain, f.where,
                 'the list is returned as collected' if (not post and plain) else 'the list is re-ordered / de-duplicated / post-processed', 'x + y + x')
    # ---- R3 ----------------------------------------------------------------------------------------
    n3 = 0
    seen3 = set()
    for f_raw in prog.all_functions():
        f = flatten(prog, f_raw)        # class-level constants, partials and helper parameters are resolved there
        for n in ast.walk(f.node):
            if isinstance(n, ast.Call) and call_name(n) == 'replace' and isinstance(n.func, ast.Attribute) and len(n.args) >= 2:
                if (f.module.rel, n.lineno, n.col_offset) in seen3:
                    continue
                seen3.add((f.module.rel, n.lineno, n.col_offset))
                a = n.args[0]
                recv = n.func.value
                cls_, ok = classify_replace(a, recv, n)
                if not ok and isinstance(a, ast.Name):
                    # a name that is only ever bound to literals (the rows of a substitution table): every literal is judged
                    vals = []
                    for d in ast.walk(f.node):
                        if isinstance(d, ast.Assign) and len(d.targets) == 1:
                            t, v = d.targets[0], d.value
                            if isinstance(t, ast.Name) and t.id == a.id:
                                vals.append(v)
                            elif isinstance(t, (ast.Tuple, ast.List)) and isinstance(v, (ast.Tuple, ast.List)) and len(t.elts) == len(v.elts):
                                for te, ve in zip(t.elts, v.elts):
                                    if isinstance(te, ast.Name) and te.id == a.id:
                                        vals.append(ve)
                        elif isinstance(d, (ast.For, ast.comprehension)) and any(isinstance(x, ast.Name) and x.id == a.id for x in ast.walk(d.target)):
                            vals.append(None)
                    if vals and all(isinstance(v, ast.Constant) and isinstance(v.value, str) for v in vals):
                        res = [classify_replace(v, recv, n) for v in vals]
                        if all(r[1] for r in res):
                            cls_, ok = 'a table of literals: ' + '; '.join(sorted({r[0] for r in res}))[:120], True
                n3 += 1
                check.ob('C13.R3', '%s::replace(%s)' % (f.key, unparse(a)), ok, '%s:%d' % (f.module.rel, n.lineno),
                         'classified as ' + cls_, 'a variable whose name is a substring of another variable')
    # ---- R5: the callers that rename variables go through the utilities for every kind of term --------------
    from ._common import term_rename
    rt, stores, all_paths = term_rename(prog)
    check.saw(rt)
    for n, ok, txt in stores:
        check.ob('C13.R5', '%s::renames-through-utility(%s)' % (rt.key, txt[:50]), ok, '%s:%d' % (rt.module.rel, n.line),
                 'term text is renamed with the token-level utility applied to the current text and the full lookup' if ok else
                 'term text is renamed by `%s`: anything but the token-level utility on the whole lookup misses names inside '
                 'products / quotients or renames sequentially' % txt[:70],
                 "a simple term 'r*B' whose factor r is to be renamed")
    tw_ = getattr(term_rename, 'twice', None)
    check.ob('C13.R5', '%s::renamed-once' % rt.key, tw_ is None, '%s:%d' % (rt.module.rel, tw_[1].line) if tw_ else rt.where,
             'no path applies the lookup to the term text twice' if tw_ is None else
             'after the renaming at line %d the renaming at line %d can run as well: the lookup is applied to its own output, so renamings '
             'that are keys of the lookup are renamed again (a swap is undone)' % (tw_[0].line, tw_[1].line),
             "an opaque term 'a*b + c/a' with the swap {a: b, b: a}")
    check.ob('C13.R5', '%s::both-term-kinds-renamed' % rt.key, all_paths, rt.where,
             'every normal return of the method has renamed the term text (opaque and simple terms alike)' if all_paths else
             'a kind of term is returned without being renamed', 'an opaque term and a simple term holding the same name')
    # the model-level client of the renamers applies the whole map to a text that holds any of its names (the clause C05.R1 decides
    # for the alias pass: a text is returned unchanged only when none of the requested names occurs in it)
    if not getattr(check, '_borrowing', False):
        from ..report import Borrowed
        from . import C05 as _c05
        b05 = Borrowed(check, lambda rule, key: rule == 'C05.R1' and key.endswith('::unchanged-return'), 'C13.R2',
                       "a text using the second of two requested names: it must come back renamed")
        b05._borrowing = True
        b05.run_lender(_c05, prog)
    check.floor('C13.R5', 2)
    check.floor('C13.R1', 5)
    check.floor('C13.R2', 2)
    check.floor('C13.R3', 5)
    check.floor('C13.R4', 2)


IDENT = re.compile(r'^[A-Za-z_][A-Za-z0-9_]*$')


def classify_replace(a, recv, call):
    if not isinstance(a, ast.Constant) or not isinstance(a.value, str):
        # computed target: acceptable only on a literal template (the pattern is then a fixed placeholder variable)
        if isinstance(recv, ast.Constant):
            return 'computed target on a literal template', True
        return 'computed target `%s`: renaming by substring' % unparse(a), False
    s = a.value
    parent = getattr(call, '_parent', None)
    if isinstance(parent, ast.Expr):
        return 'result discarded (no effect)', True
    if s.strip() == '':
        return 'whitespace', True
    if not IDENT.match(s):
        if any(ch in s for ch in '()') and any(ch in s for ch in 'kt') and '1' in s:
            return 'lag spelling', True
        if s in ('+', '-'):
            return 'sign character', True
        return 'non-identifier marker %r' % s, True
    if s.isupper():
        return 'upper-case marker / template placeholder %r' % s, True
    if isinstance(recv, ast.Constant):
        return 'placeholder %r in a literal template' % s, True
    return 'identifier-shaped target %r on computed text: renaming by substring' % s, False
