"""Development helper: apply exact-text replacements to /repo, run the baseline, commit as one fix.
usage: applyfix.py <spec.py>   where spec.py defines EDITS=[(file, old, new), ...] and MESSAGE."""
import subprocess, sys, runpy
spec = runpy.run_path(sys.argv[1])
for f, old, new in spec['EDITS']:
    p = '/repo/' + f
    s = open(p).read()
    assert s.count(old) == 1, (f, old[:40], s.count(old))
    open(p, 'w').write(s.replace(old, new))
out = subprocess.run(['/verif/tools/baseline.sh'], capture_output=True, text=True).stdout
print(out)
if '1 failed, 221 passed' not in out:
    print('BASELINE CHANGED - reverting'); subprocess.run(['git', '-C', '/repo', 'checkout', '--', '.']); sys.exit(1)
subprocess.run(['git', '-C', '/repo', 'commit', '-qam', spec['MESSAGE']], check=True)
print(subprocess.run(['git', '-C', '/repo', 'log', '--oneline', '-1'], capture_output=True, text=True).stdout)
