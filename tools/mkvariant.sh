#!/bin/sh
# usage: mkvariant.sh <seeded|refactors> <name>  -> prints scratch dir with the patch applied (remove it yourself)
d=$(mktemp -d /tmp/sfcv_mv_XXXXXX)
cp -r /repo/sfc_models $d/sfc_models
find $d -name __pycache__ -type d -exec rm -rf {} + 2>/dev/null
(cd $d && git init -q && git apply /verif/$1/$2/patch.diff) || echo PATCH-FAILED
echo $d
