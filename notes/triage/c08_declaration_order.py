import warnings; warnings.simplefilter('ignore')
from sfc_models.objects import *
from sfc_models.sector_definitions import Capitalists
def build(order):
    mod = Model()
    c = Country(mod, 'CA')
    made = {}
    for o in order:
        if o=='GOV': made[o]=ConsolidatedGovernment(c,'GOV')
        if o=='HH': made[o]=Household(c,'HH')
        if o=='BUS': made[o]=FixedMarginBusiness(c,'BUS')
        if o=='TF': made[o]=TaxFlow(c,'TF',taxrate=.2)
        if o=='LAB': made[o]=Market(c,'LAB')
        if o=='GOOD': made[o]=Market(c,'GOOD')
    made['GOV'].SetExogenous('DEM_GOOD','[0.,]+[20.,]*20')
    mod.EquationSolver.MaxTime=3
    return mod
for order in (['GOV','HH','BUS','TF','LAB','GOOD'], ['LAB','GOOD','GOV','HH','BUS','TF'], ['GOV','HH','TF','LAB','GOOD','BUS']):
    m = build(order)
    try:
        m.main()
        print(order, m.GetTimeSeries('GOOD__SUP_GOOD'), m.GetTimeSeries('HH__F'), m.GetTimeSeries('BUS__F'))
    except Exception as e:
        print(order, 'ERR', type(e), e)
