import warnings; warnings.simplefilter('ignore')
from sfc_models.equation_solver import EquationSolver
eq = """
x = y
y = 2*t
z = x + 1
w = z + t
x(0) = 5.
exogenous
MaxTime=2"""
for red in (True, False):
    s = EquationSolver(eq, run_equation_reduction=red)
    s.SolveEquation()
    print(red, dict(s.TimeSeries), s.Parser.Endogenous, s.Parser.Decoration)
