"""Print the markdown tables of DESIGN.md section 10 from the stored metas (development helper)."""
import glob, json, os
rows = []
for sd in sorted(glob.glob('/verif/seeded/*')):
    m = json.load(open(sd + '/meta.json'))
    own = m['property']
    rules = m.get('caught_by_rules', {})
    intake = m.get('caught_by_at_intake', [])
    others = [k for k in m.get('caught_by', []) if k != own]
    rows.append((os.path.basename(sd), own, 'yes' if own in intake else ('other' if intake else 'no'),
                 ', '.join(rules.get(own, [])) or '-', ', '.join(others) or '-', ', '.join(m.get('files', []))[:60]))
print('| change | property | caught at intake | own check: rules that fire now | other checks that fire | file(s) |')
print('|---|---|---|---|---|---|')
for r in rows:
    print('| %s | %s | %s | %s | %s | %s |' % r)
n = len(rows)
print()
print('own check fires: %d of %d; at intake (before any strengthening for that round): own %d, some check %d, none %d' % (
    sum(1 for r in rows if r[3] != '-'), n, sum(1 for r in rows if r[2] == 'yes'), sum(1 for r in rows if r[2] != 'no'),
    sum(1 for r in rows if r[2] == 'no')))
print()
print('| refactoring | checks disturbed at intake | now |')
print('|---|---|---|')
for sd in sorted(glob.glob('/verif/refactors/*')):
    m = json.load(open(sd + '/meta.json'))
    at = m.get('non_silent_checks_at_intake', m.get('non_silent_checks', {}))
    now = m.get('non_silent_checks', {}) if 'non_silent_checks_at_intake' in m else {}
    def fmt(d):
        return ', '.join('%s(%s)' % (k, 'alarm' if (v.get('rc') == 1) else 'lost anchor') for k, v in sorted(d.items())) or 'silent'
    print('| %s | %s | %s |' % (os.path.basename(sd), fmt(at), fmt(now)))
