"""Source normal form applied when a module is loaded (before any analysis sees it).

One rewriting, exact for every execution:

    if c:                          def f__1(a): B1
        def f(a): B1               def f__2(a): B2
    else:              ==>         if c: f = f__1
        def f(a): B2               else: f = f__2
    ...                            ...
    f(x)                           (f__1 if <c> else f__2 selected where f is called as a statement:)
                                   if c: f__1(x)
                                   else: f__2(x)

The call sites are rewritten only when `c` reads nothing but parameters / names that the function never re-binds (so `c`
has the same value at the call as at the definition) and `f` is used in no other way than being called as a statement.
Defining a function has no effect besides the binding, and the closures resolve their free names at call time in both forms."""
import ast


def _names_stored(fn):
    out = {}
    for n in ast.walk(fn):
        if isinstance(n, ast.Name) and isinstance(n.ctx, (ast.Store, ast.Del)):
            out[n.id] = out.get(n.id, 0) + 1
        elif isinstance(n, (ast.FunctionDef, ast.ClassDef)) and n is not fn:
            out[n.name] = out.get(n.name, 0) + 1
    return out


def _clone(n):
    return ast.parse(ast.unparse(n)).body[0] if isinstance(n, ast.stmt) else ast.parse(ast.unparse(n), mode='eval').body


def _conditional_defs(fn):
    changed = False
    for i, st in enumerate(list(fn.body)):
        if not (isinstance(st, ast.If) and st.orelse):
            continue
        a = [x for x in st.body if isinstance(x, ast.FunctionDef)]
        b = [x for x in st.orelse if isinstance(x, ast.FunctionDef)]
        if len(a) != 1 or len(b) != 1 or a[0].name != b[0].name or a[0].decorator_list or b[0].decorator_list:
            continue
        if any(not isinstance(x, (ast.FunctionDef, ast.Pass)) and not (isinstance(x, ast.Expr) and isinstance(x.value, ast.Constant))
               for x in list(st.body) + list(st.orelse)):
            continue
        name = a[0].name
        stored = _names_stored(fn)
        if stored.get(name, 0) != 2:
            continue
        params = {p.arg for p in fn.args.posonlyargs + fn.args.args + fn.args.kwonlyargs}
        cond_names = {n.id for n in ast.walk(st.test) if isinstance(n, ast.Name)}
        cond_attrs = {n.attr for n in ast.walk(st.test) if isinstance(n, ast.Attribute)}
        cond_calls = [n for n in ast.walk(st.test) if isinstance(n, ast.Call)]
        if any(isinstance(n, ast.Subscript) for n in ast.walk(st.test)):
            continue
        if any(not (isinstance(c.func, ast.Name) and c.func.id == 'len') for c in cond_calls):
            continue
        if any(stored.get(nm, 0) > 0 for nm in cond_names if nm not in ('True', 'False', 'None', 'len')) or \
                not cond_names <= params | {'True', 'False', 'None', 'len'}:
            continue
        if cond_attrs or cond_calls:
            # the condition reads object state: nothing after the definitions may change it - no call other than to the
            # closure itself, no store to an attribute the condition reads
            later = fn.body[i + 1:]
            calls_after = [c for s_ in later for c in ast.walk(s_) if isinstance(c, ast.Call)]
            if any(not (isinstance(c.func, ast.Name) and c.func.id == name) for c in calls_after):
                continue
            if any(isinstance(n, ast.Attribute) and n.attr in cond_attrs and isinstance(n.ctx, (ast.Store, ast.Del)) for s_ in later for n in ast.walk(s_)):
                continue
        # every use of the name is a call statement `name(...)` after the if
        uses = [n for n in ast.walk(fn) if isinstance(n, ast.Name) and n.id == name]
        call_stmts = []
        ok = True

        def scan(block, after):
            nonlocal ok
            for j, s in enumerate(block):
                if isinstance(s, (ast.Expr, ast.Assign)) and isinstance(s.value, ast.Call) and isinstance(s.value.func, ast.Name) and \
                        s.value.func.id == name and not (isinstance(s, ast.Assign) and any(
                            isinstance(n, ast.Name) and n.id == name for t_ in s.targets for n in ast.walk(t_))):
                    call_stmts.append((block, j, s))
                    if any(isinstance(n, ast.Name) and n.id == name for a_ in list(s.value.args) + [k.value for k in s.value.keywords] for n in ast.walk(a_)):
                        ok = False
                    continue
                for f_ in ('body', 'orelse', 'finalbody'):
                    blk = getattr(s, f_, None)
                    if isinstance(blk, list) and blk and isinstance(blk[0], ast.stmt) and not isinstance(s, (ast.FunctionDef, ast.ClassDef)):
                        scan(blk, after)
                if isinstance(s, ast.Try):
                    for h in s.handlers:
                        scan(h.body, after)
        scan(fn.body[i + 1:], True)
        if not ok or len(uses) != len(call_stmts):
            continue
        n1, n2 = name + '__when', name + '__otherwise'
        if n1 in stored or n2 in stored:
            continue
        a[0].name, b[0].name = n1, n2
        for block, j, s in call_stmts:
            k1 = ast.Call(func=ast.Name(id=n1, ctx=ast.Load()), args=s.value.args, keywords=s.value.keywords)
            k2 = ast.Call(func=ast.Name(id=n2, ctx=ast.Load()), args=[_clone(x) for x in s.value.args],
                          keywords=[ast.keyword(arg=k.arg, value=_clone(k.value)) for k in s.value.keywords])
            if isinstance(s, ast.Assign):
                c1 = ast.Assign(targets=s.targets, value=k1)
                c2 = ast.Assign(targets=[_clone(t_) for t_ in s.targets], value=k2)
                for t_ in c2.targets:
                    for n_ in ast.walk(t_):
                        if hasattr(n_, 'ctx') and isinstance(n_, (ast.Name, ast.Attribute, ast.Subscript, ast.Tuple, ast.List)):
                            pass
            else:
                c1, c2 = ast.Expr(value=k1), ast.Expr(value=k2)
            new = ast.If(test=_clone(st.test), body=[c1], orelse=[c2])
            ast.copy_location(new, s)
            ast.copy_location(c1, s)
            ast.copy_location(c2, s)
            ast.fix_missing_locations(new)
            idx = next(k for k, x in enumerate(block) if x is s)
            block[idx] = new
        pos = next(k for k, x in enumerate(fn.body) if x is st)
        fn.body[pos:pos + 1] = [a[0], b[0]]
        changed = True
    return changed


def normalise(tree):
    """in place; returns the number of functions rewritten"""
    n = 0
    for fn in [x for x in ast.walk(tree) if isinstance(x, ast.FunctionDef)]:
        try:
            if _conditional_defs(fn):
                n += 1
        except Exception:
            pass
    return n
