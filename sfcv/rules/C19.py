"""C19 - tab-delimited output is a faithful table of the results (decided structural clauses).

R1 permutation        : the series list is a permutation of the keys: each priority `append` is paired with a `remove`
                        of the same name under the membership test; the remainder is sorted; both parts are returned.
R2 same sequence      : header and every row iterate the same sequence; the row count is the `min` of the lengths;
                        each cell is `format % (value,)` with the *parameter* format; cells/rows joined by tab/newline.
R3 horizon+1 rows     : the solve loop runs range(1, MaxTime+1) and every partition is appended once per step
                        (same formulation as C10.R1 / C10.R2)."""
import ast

from .. import cfg as cfgmod
from ..loader import AnalysisError, unparse, call_name
from ..dataflow import single_assign_subst, target_names, linform, lin_eq
from ..solver_model import solver_function
from .C10 import check_bounds
from .C16 import discover_accessors

TECHNIQUE = ('static analysis: path pairing of append/remove in the ordering loop, same-sequence and bound=min checks by '
             'reaching definitions, parameter flow of the cell format')
EXPLANATION = (
    'The ordering helper is shown to return a permutation (append and remove of the same name are paired on every path, '
    'under the membership test, remainder sorted, both parts concatenated); the renderer iterates one and the same sequence '
    'for header and rows, bounds the rows by the minimum length and formats each cell with the caller-supplied format applied '
    'to a 1-tuple; the horizon+1 row count follows from the solve loop bound. Round-trip precision of values is not decided.')


def run(prog, check):
    check.explanation = EXPLANATION
    check.not_decided = 'round-trip precision of formatted values (depends on the format string chosen by the caller)'
    check.assumptions = []
    acc = discover_accessors(prog)
    holder_r = [f for f in acc['renderer'] if f.cls is not None and any(c.name == 'dict' or c.name == 'TimeSeriesHolder'
                                                                        for c in f.cls.mro) and 'format_str' in f.params()
                or (f.cls is not None and f.cls.name == 'TimeSeriesHolder')]
    if len(holder_r) != 1:
        raise AnalysisError('series-holder renderer not found: %s' % [f.qualname for f in holder_r])
    r = holder_r[0]
    helpers = [h for h in acc['helper'] if h.cls is r.cls]
    if len(helpers) != 1:
        raise AnalysisError('ordering helper not found')
    h = helpers[0]
    check.saw(r)
    check.saw(h)
    # ---- R1 ----------------------------------------------------------------------------------------
    g = cfgmod.build(h)
    loops = [n for n in ast.walk(h.node) if isinstance(n, ast.For)]
    if len(loops) != 1:
        raise AnalysisError('ordering helper: expected one priority loop')
    loop = loops[0]
    x = target_names(loop.target)[0]
    hdr = [n for n in g.nodes if n.kind == 'for' and n.stmt is loop][0]
    apps = [n for n in g.stmt_nodes() if n.kind == 'stmt' and loop in n.loops and any(
        isinstance(c, ast.Call) and call_name(c) == 'append' and c.args and isinstance(c.args[0], ast.Name) and c.args[0].id == x
        for c in ast.walk(n.ast))]
    rems = [n for n in g.stmt_nodes() if n.kind == 'stmt' and loop in n.loops and any(
        isinstance(c, ast.Call) and call_name(c) == 'remove' and c.args and isinstance(c.args[0], ast.Name) and c.args[0].id == x
        for c in ast.walk(n.ast))]
    first = [b for b, lab in g.succ[hdr.id] if lab is True]
    paths = []
    for b in first:
        paths += g.paths(b, hdr, cap=5000) if b != hdr.id else []
    paired = bool(paths) and bool(apps) and bool(rems)
    for p in paths:
        na = sum(1 for i in p if g.nodes[i] in apps)
        nr = sum(1 for i in p if g.nodes[i] in rems)
        if na != nr or na > 1:
            paired = False
    check.ob('C19.R1', '%s::append-remove-paired' % h.key, paired, '%s:%d' % (h.module.rel, loop.lineno),
             'on each of %d paths through the priority loop a name is moved (append + remove) or left' % len(paths) if paired else
             'a path appends a priority name without removing it (duplicate column) or removes without appending (lost column)',
             "keys containing 'k' and 't'")
    # both under the membership test on the list the remove acts on
    removed_from = None
    included = None
    for n in rems:
        for c in ast.walk(n.ast):
            if isinstance(c, ast.Call) and call_name(c) == 'remove':
                removed_from = unparse(c.func.value)
    for n in apps:
        for c in ast.walk(n.ast):
            if isinstance(c, ast.Call) and call_name(c) == 'append':
                included = unparse(c.func.value)
    guarded = False
    for t in g.nodes:
        if t.kind == 'test' and loop in t.loops and isinstance(t.ast, ast.Compare) and isinstance(t.ast.ops[0], ast.In) and \
                isinstance(t.ast.left, ast.Name) and t.ast.left.id == x and unparse(t.ast.comparators[0]) == removed_from:
            if all(g.dominates(t, n) for n in apps + rems):
                guarded = True
    check.ob('C19.R1', '%s::membership-guard' % h.key, guarded, '%s:%d' % (h.module.rel, loop.lineno),
             'the move is guarded by `%s in %s`' % (x, removed_from) if guarded else 'the move is not guarded by membership in the key list',
             'a holder without a t series')
    rets = [n for n in ast.walk(h.node) if isinstance(n, ast.Return) and n.value is not None]
    both = all(isinstance(n.value, ast.BinOp) and isinstance(n.value.op, ast.Add) and
               unparse(n.value.left) == included and unparse(n.value.right) == removed_from for n in rets) and bool(rets)
    check.ob('C19.R1', '%s::returns-priority-then-rest' % h.key, both, h.where,
             'returns %s + %s' % (included, removed_from) if both else 'does not return priority names followed by the remainder',
             'any set of names: every stored series exactly once')
    # the remainder derives from all keys and is sorted
    subst = single_assign_subst(h.node)
    src = subst.get(removed_from)
    allkeys = src is not None and any(isinstance(c, ast.Call) and call_name(c) == 'keys' and unparse(c.func.value) == 'self'
                                      for c in ast.walk(src)) or (src is not None and unparse(src) in ('list(self)', 'sorted(self)'))
    is_sorted = any(isinstance(c, ast.Call) and ((call_name(c) == 'sort' and unparse(c.func.value) == removed_from) or
                                                 (call_name(c) == 'sorted')) for c in ast.walk(h.node))
    check.ob('C19.R1', '%s::all-keys-sorted' % h.key, bool(allkeys) and is_sorted, h.where,
             'remainder = sorted keys of the holder' if (allkeys and is_sorted) else 'remainder is not the sorted list of all keys',
             'many names: alphabetical order of the rest')
    # the priority order is the documented attribute
    pri_ok = isinstance(loop.iter, ast.Attribute) and loop.iter.attr == 'SortPriority'
    check.ob('C19.R1', '%s::priority-source' % h.key, pri_ok, '%s:%d' % (h.module.rel, loop.lineno),
             'priority names come from self.SortPriority in order', 'iteration / time columns first')
    # ---- R2 ----------------------------------------------------------------------------------------
    rs = single_assign_subst(r.node)
    seqs = [k for k, v in rs.items() if isinstance(v, ast.Call) and call_name(v) == h.name]
    if len(seqs) != 1:
        raise AnalysisError('renderer: the column sequence is not a single-assignment of the ordering helper')
    seq = seqs[0]
    header_ok = False
    for n in ast.walk(r.node):
        if isinstance(n, ast.Call) and call_name(n) == 'join' and isinstance(n.func.value, ast.Constant) and n.func.value.value == '\t' \
                and n.args and isinstance(n.args[0], ast.Name) and n.args[0].id == seq:
            header_ok = True
    check.ob('C19.R2', '%s::header-from-sequence' % r.key, header_ok, r.where,
             'header row joins `%s` by tabs' % seq if header_ok else 'header is not the tab-join of the column sequence', 'any names')
    row_loops = [n for n in ast.walk(r.node) if isinstance(n, ast.For) and isinstance(n.iter, ast.Name) and n.iter.id == seq]
    cell_ok = False
    for rl in row_loops:
        v = target_names(rl.target)[0]
        outer = getattr(rl, '_parent', None)
        while outer is not None and not isinstance(outer, ast.For):
            outer = getattr(outer, '_parent', None)
        if outer is None:
            continue
        i = target_names(outer.target)[0]
        for c in ast.walk(rl):
            if isinstance(c, ast.Subscript) and isinstance(c.value, ast.Subscript) and unparse(c.value.value) == 'self' and \
                    unparse(c.value.slice) == v and unparse(c.slice) == i:
                cell_ok = True
    check.ob('C19.R2', '%s::rows-iterate-same-sequence' % r.key, bool(row_loops) and cell_ok, r.where,
             'each row reads self[v][i] for v in `%s`' % seq if (row_loops and cell_ok) else
             'rows do not iterate the header sequence with matching series/index', 'ragged / many series')
    # row bound = min of lengths over all values
    bound_ok = False
    bound_txt = ''
    for n in ast.walk(r.node):
        if isinstance(n, ast.For) and isinstance(n.iter, ast.Call) and call_name(n.iter) == 'range':
            hi = n.iter.args[-1] if len(n.iter.args) <= 2 else n.iter.args[1]
            lo_ok = len(n.iter.args) == 1 or lin_eq(linform(n.iter.args[0]), {'': 0})
            e = hi
            for _ in range(3):
                if isinstance(e, ast.Name) and e.id in rs:
                    e = rs[e.id]
            bound_txt = unparse(e)
            if isinstance(e, ast.Call) and call_name(e) == 'min' and lo_ok:
                inner = e.args[0] if e.args else None
                if isinstance(inner, ast.Name) and inner.id in rs:
                    inner = rs[inner.id]
                if inner is not None and any(isinstance(c, ast.Call) and call_name(c) == 'len' for c in ast.walk(inner)) and \
                        'self' in unparse(inner):
                    bound_ok = True
    check.ob('C19.R2', '%s::row-count-is-min-length' % r.key, bound_ok, r.where,
             'rows = range(0, %s)' % bound_txt, 'ragged series: one row per period up to the shortest series (no IndexError, no dropped rows)')
    fmt_param = [p for p in r.params() if 'format' in p.lower()]
    fmt_ok = False
    for n in ast.walk(r.node):
        if isinstance(n, ast.BinOp) and isinstance(n.op, ast.Mod) and isinstance(n.left, ast.Name) and n.left.id in fmt_param and \
                isinstance(n.right, ast.Tuple) and len(n.right.elts) == 1:
            fmt_ok = True
    check.ob('C19.R2', '%s::cell-format-is-parameter' % r.key, fmt_ok, r.where,
             'each cell is `%s %% (x,)`' % (fmt_param[0] if fmt_param else '?') if fmt_ok else
             'cells are not formatted with the caller-supplied format applied to a 1-tuple', "format '%.12g' / tuple-valued cells")
    rowjoin = sum(1 for n in ast.walk(r.node) if isinstance(n, ast.Call) and call_name(n) == 'join' and
                  isinstance(n.func.value, ast.Constant) and n.func.value.value == '\t')
    nl = sum(1 for n in ast.walk(r.node) if isinstance(n, ast.Constant) and n.value == '\n')
    check.ob('C19.R2', '%s::tab-and-newline' % r.key, rowjoin >= 2 and nl >= 2, r.where,
             'header and rows are tab-joined and newline-terminated', 'parsing the text back')
    # wrapper passes the format through
    for w in acc['wrapper']:
        check.saw(w)
        ok = False
        for n in ast.walk(w.node):
            if isinstance(n, ast.Call) and call_name(n) == r.name:
                fp = [p for p in w.params() if 'format' in p.lower()]
                ok = bool(fp) and any(isinstance(a, ast.Name) and a.id == fp[0] for a in list(n.args) + [k.value for k in n.keywords])
        check.ob('C19.R2', '%s::wrapper-forwards-format' % w.key, ok, w.where,
                 'the solver-level wrapper forwards its format parameter' if ok else 'the wrapper drops the requested format',
                 "GenerateCSVtext('%.10f')")
    # ---- R3 ----------------------------------------------------------------------------------------
    sa = solver_function(prog, 'solve_all')
    check.saw(sa)
    check_bounds(check, sa, single_assign_subst(sa.node), rule='C19.R3')
    check.floor('C19.R1', 5)
    check.floor('C19.R2', 6)
    check.floor('C19.R3', 1)
