import warnings; warnings.simplefilter('ignore')
from sfc_models.objects import *
from sfc_models.sector_definitions import Capitalists
def build(order):
    mod = Model()
    c = Country(mod, 'CA')
    made = {}
    for o in order:
        if o=='GOV': made[o]=ConsolidatedGovernment(c,'GOV')
        if o=='HH': made[o]=Household(c,'HH')
        if o=='CAP': made[o]=Capitalists(c,'CAP')
        if o=='B1': made[o]=FixedMarginBusiness(c,'B1',profit_margin=.1,output_name='GOOD')
        if o=='B2': made[o]=FixedMarginBusiness(c,'B2',profit_margin=.2,output_name='SERV', labour_input_name='LAB')
        if o=='TF': made[o]=TaxFlow(c,'TF',taxrate=.2)
        if o=='LAB': made[o]=Market(c,'LAB')
        if o=='GOOD': made[o]=Market(c,'GOOD')
        if o=='SERV': made[o]=Market(c,'SERV')
    made['GOV'].SetExogenous('DEM_GOOD','[0.,]+[20.,]*20')
    made['GOV'].AddVariable('DEM_SERV','d','5.')
    mod.EquationSolver.MaxTime=3
    return mod, made
for order in (['GOV','HH','CAP','B1','B2','TF','LAB','GOOD','SERV'], ['GOV','HH','B1','B2','CAP','TF','LAB','GOOD','SERV']):
    m, made = build(order)
    try:
        eq = m.main()
        tot = [sum(x) for x in zip(*[m.GetTimeSeries(s+'__F') for s in ('GOV','HH','CAP','B1','B2')])]
        print(order, 'sumF', tot)
        for s in ('B1','B2','CAP'):
            print(s, made[s].EquationBlock['F'].RHS(), '| DIV=', made[s].EquationBlock['DIV'].RHS() if 'DIV' in made[s].EquationBlock else None)
    except Exception as e:
        import traceback; traceback.print_exc()
