"""Abstract evaluation of the column-ordering helper (C19.R1).

A list built from the keys K of the holder and the priority tuple P is described as a concatenation of segments
(order, predicate):  order is 'P' (priority order), 'S' (sorted) or 'U' (dict order); the predicate is the set of
(in K, in P) truth assignments of the elements the segment holds.  Sources, comprehensions, `+`, sorted()/.sort(),
and loops whose body appends / removes the loop element under membership tests are evaluated exactly in that domain
(elements of K and of P are pairwise distinct: K is a key set, P is checked to be a literal of distinct constants).
The helper is right iff every returning path yields  [('P', in K and in P)] + [('S', in K and not in P)].
Nothing is executed."""
import ast

from .loader import AnalysisError, call_name, unparse

ALL = frozenset((k, p) for k in (True, False) for p in (True, False))
IN_K = frozenset(a for a in ALL if a[0])
IN_P = frozenset(a for a in ALL if a[1])
EXPECTED = (('P', IN_K & IN_P), ('S', IN_K - IN_P))


class NotEvaluable(Exception):
    pass


def norm(segs, feasible=ALL):
    out = []
    for o, p in segs:
        p = frozenset(p) & feasible
        if p:
            out.append((o, p))
    return tuple(out)


def seg_text(segs):
    names = {(True, True): 'stored priority names', (True, False): 'stored other names',
             (False, True): 'priority names NOT stored', (False, False): 'foreign names'}
    order = {'P': 'in priority order', 'S': 'sorted', 'U': 'in dict order'}
    return ' + '.join('[%s, %s]' % (' and '.join(names[a] for a in sorted(p, reverse=True)), order[o]) for o, p in segs) or '[]'


class ListEval(object):
    def __init__(self, fnode, priority_attr='SortPriority'):
        self.fn = fnode
        self.pattr = priority_attr
        self.returns = []       # (segments or None, feasible, line, note)

    # ---- expressions ------------------------------------------------------------------------------
    def is_self_keys(self, e):
        t = unparse(e).replace(' ', '')
        return t in ('self', 'self.keys()', 'list(self.keys())', 'list(self)', 'tuple(self.keys())', 'set(self.keys())', 'set(self)',
                     'iter(self)', 'dict.keys(self)', 'list(dict.keys(self))')

    def is_priority(self, e):
        t = unparse(e).replace(' ', '')
        return t in ('self.' + self.pattr, 'list(self.%s)' % self.pattr, 'tuple(self.%s)' % self.pattr)

    def ev(self, e, env):
        """-> tuple of segments, or raises NotEvaluable"""
        if self.is_priority(e):
            return (('P', IN_P),)
        if self.is_self_keys(e):
            return (('U', IN_K),)
        if isinstance(e, ast.Name):
            if e.id in env and env[e.id] is not None:
                return env[e.id]
            raise NotEvaluable('`%s` is not a list the analysis follows' % e.id)
        if isinstance(e, (ast.List, ast.Tuple)) and not e.elts:
            return ()
        if isinstance(e, ast.Call):
            nm = call_name(e)
            if nm in ('list', 'tuple') and len(e.args) == 1 and not e.keywords:
                return self.ev(e.args[0], env)
            if nm in ('list', 'tuple') and not e.args:
                return ()
            if nm == 'sorted' and len(e.args) == 1 and not e.keywords:
                return self.sort_segments(self.ev(e.args[0], env))
            if nm == 'copy' and isinstance(e.func, ast.Attribute) and not e.args:
                return self.ev(e.func.value, env)
            raise NotEvaluable('call `%s` is outside the list algebra' % unparse(e)[:60])
        if isinstance(e, ast.BinOp) and isinstance(e.op, ast.Add):
            return self.ev(e.left, env) + self.ev(e.right, env)
        if isinstance(e, ast.Subscript) and isinstance(e.slice, ast.Slice) and e.slice.lower is None and e.slice.upper is None and e.slice.step is None:
            return self.ev(e.value, env)
        if isinstance(e, (ast.ListComp, ast.GeneratorExp)) and len(e.generators) == 1:
            gen = e.generators[0]
            if not (isinstance(gen.target, ast.Name) and isinstance(e.elt, ast.Name) and e.elt.id == gen.target.id):
                raise NotEvaluable('comprehension `%s` transforms its elements' % unparse(e)[:60])
            src = self.ev(gen.iter, env)
            cond = ALL
            for c in gen.ifs:
                cond = cond & self.pred(c, gen.target.id, env)
            return tuple((o, p & cond) for o, p in src)
        raise NotEvaluable('expression `%s` is outside the list algebra' % unparse(e)[:60])

    @staticmethod
    def sort_segments(segs):
        segs = norm(segs)
        for i, (o, p) in enumerate(segs):
            for o2, p2 in segs[i + 1:]:
                if p & p2:
                    raise NotEvaluable('sorting a list that holds a name twice')
        u = frozenset().union(*[p for o, p in segs]) if segs else frozenset()
        return (('S', u),) if u else ()

    def members(self, e, env):
        """predicate `x in e`"""
        if self.is_priority(e):
            return IN_P
        if self.is_self_keys(e):
            return IN_K
        segs = self.ev(e, env)
        return frozenset().union(*[p for o, p in segs]) if segs else frozenset()

    def pred(self, t, x, env):
        """the set of (in K, in P) assignments of element x under which test t holds"""
        if isinstance(t, ast.UnaryOp) and isinstance(t.op, ast.Not):
            return ALL - self.pred(t.operand, x, env)
        if isinstance(t, ast.BoolOp):
            ps = [self.pred(v, x, env) for v in t.values]
            out = ps[0]
            for p in ps[1:]:
                out = (out & p) if isinstance(t.op, ast.And) else (out | p)
            return out
        if isinstance(t, ast.Compare) and len(t.ops) == 1 and isinstance(t.ops[0], (ast.In, ast.NotIn)) and \
                isinstance(t.left, ast.Name) and t.left.id == x:
            m = self.members(t.comparators[0], env)
            return m if isinstance(t.ops[0], ast.In) else ALL - m
        raise NotEvaluable('test `%s` is not a membership test of the loop element' % unparse(t)[:60])

    # ---- statements -------------------------------------------------------------------------------
    def loop(self, n, env):
        if not isinstance(n.target, ast.Name) or n.orelse:
            raise NotEvaluable('loop at line %d: target is not a single name' % n.lineno)
        x = n.target.id
        src = self.ev(n.iter, env)
        appended = {}     # list name -> predicate of elements appended
        removed = {}
        # paths through the body for one element: (condition, env view) ; the element-level effect of every path
        def walk(stmts, cond, local):
            """local: list name -> predicate delta for THIS element (True appended / False removed)"""
            for i, s in enumerate(stmts):
                if isinstance(s, ast.Try) and len(s.body) == 1 and len(s.handlers) == 1 and not s.finalbody and \
                        s.handlers[0].type is not None and unparse(s.handlers[0].type) == 'ValueError' and \
                        isinstance(s.body[0], ast.Expr) and isinstance(s.body[0].value, ast.Call) and \
                        isinstance(s.body[0].value.func, ast.Attribute) and s.body[0].value.func.attr in ('remove', 'index') and \
                        isinstance(s.body[0].value.func.value, ast.Name) and len(s.body[0].value.args) == 1 and \
                        isinstance(s.body[0].value.args[0], ast.Name) and s.body[0].value.args[0].id == x:
                    # L.remove(x) raises ValueError exactly when x is not in L: the try is the membership test
                    lst_ = s.body[0].value.func.value
                    test_ = ast.Compare(left=ast.Name(id=x, ctx=ast.Load()), ops=[ast.In()], comparators=[ast.Name(id=lst_.id, ctx=ast.Load())])
                    s = ast.If(test=test_, body=list(s.body) + list(s.orelse), orelse=list(s.handlers[0].body))
                    ast.copy_location(s, stmts[i])
                    ast.fix_missing_locations(s)
                if isinstance(s, ast.If):
                    p = self.pred_with_local(s.test, x, env, local)
                    t_paths = walk(s.body + stmts[i + 1:], cond & p, dict(local))
                    f_paths = walk(s.orelse + stmts[i + 1:], cond - p, dict(local))
                    return t_paths + f_paths
                if isinstance(s, (ast.Continue, ast.Pass)):
                    if isinstance(s, ast.Continue):
                        return [(cond, local)]
                    continue
                if isinstance(s, ast.Expr) and isinstance(s.value, ast.Call) and isinstance(s.value.func, ast.Attribute) and \
                        isinstance(s.value.func.value, ast.Name) and s.value.func.attr in ('append', 'remove') and \
                        len(s.value.args) == 1 and isinstance(s.value.args[0], ast.Name) and s.value.args[0].id == x:
                    lst = s.value.func.value.id
                    if lst not in env or env[lst] is None:
                        raise NotEvaluable('`%s` is not a list the analysis follows' % lst)
                    if s.value.func.attr == 'append':
                        appended[lst] = appended.get(lst, frozenset()) | cond
                        local[lst] = ('app', cond)
                    else:
                        inlist = self.members(ast.Name(id=lst, ctx=ast.Load()), env)
                        elems = frozenset().union(*[p for o, p in src]) if src else frozenset()
                        if (cond & elems) - inlist:
                            self.problems.append((s.lineno, '`%s.remove(%s)` is reached for a name that is not in the list (ValueError)' % (lst, x)))
                        removed[lst] = removed.get(lst, frozenset()) | cond
                        local[lst] = ('rem', cond)
                    continue
                raise NotEvaluable('statement `%s` in the loop body is outside the list algebra' % unparse(s)[:60])
            return [(cond, local)]
        walk(list(n.body), ALL, {})
        for lst, cond in appended.items():
            if lst in removed:
                raise NotEvaluable('`%s` is appended to and removed from in one loop' % lst)
            env[lst] = env[lst] + tuple((o, p & cond) for o, p in src)
        for lst, cond in removed.items():
            hit = frozenset().union(*[p for o, p in src]) & cond if src else frozenset()
            env[lst] = tuple((o, p - hit) for o, p in env[lst])
        env[x] = None

    def pred_with_local(self, t, x, env, local):
        """membership tests see what this very iteration already did to a list (the other iterations concern other names)"""
        if not local:
            return self.pred(t, x, env)
        env2 = dict(env)
        for lst, (kind, c) in local.items():
            cur = env2[lst]
            if kind == 'app':
                env2[lst] = cur + (('U', c),)
            else:
                env2[lst] = tuple((o, p - c) for o, p in cur)
        return self.pred(t, x, env2)

    def block(self, stmts, env, feasible):
        """walk a statement list; returns list of (env, feasible) that fall through"""
        for i, s in enumerate(stmts):
            rest = stmts[i + 1:]
            if isinstance(s, ast.Expr) and isinstance(s.value, ast.Constant):
                continue
            if isinstance(s, ast.Return):
                try:
                    self.returns.append((norm(self.ev(s.value, env), feasible), feasible, s.lineno, None))
                except NotEvaluable as e:
                    self.returns.append((None, feasible, s.lineno, str(e)))
                return []
            if isinstance(s, ast.Assign) and len(s.targets) == 1 and isinstance(s.targets[0], ast.Name):
                try:
                    env[s.targets[0].id] = self.ev(s.value, env)
                except NotEvaluable:
                    env[s.targets[0].id] = None
                continue
            if isinstance(s, ast.Expr) and isinstance(s.value, ast.Call) and isinstance(s.value.func, ast.Attribute) and \
                    isinstance(s.value.func.value, ast.Name) and s.value.func.value.id in env:
                lst, m = s.value.func.value.id, s.value.func.attr
                try:
                    if m == 'sort' and not s.value.args and not s.value.keywords:
                        env[lst] = self.sort_segments(env[lst]) if env[lst] is not None else None
                    elif m == 'extend' and len(s.value.args) == 1:
                        env[lst] = env[lst] + self.ev(s.value.args[0], env) if env[lst] is not None else None
                    else:
                        env[lst] = None
                except NotEvaluable:
                    env[lst] = None
                continue
            if isinstance(s, ast.For):
                try:
                    self.loop(s, env)
                except NotEvaluable as e:
                    for nm in {x.id for x in ast.walk(s) if isinstance(x, ast.Name) and isinstance(x.ctx, ast.Store)} | \
                            {c.func.value.id for c in ast.walk(s) if isinstance(c, ast.Call) and isinstance(c.func, ast.Attribute)
                             and isinstance(c.func.value, ast.Name)}:
                        env[nm] = None
                    self.notes.append(str(e))
                continue
            if isinstance(s, ast.If):
                t = unparse(s.test).replace(' ', '')
                empty = {'notself': True, 'len(self)==0': True, 'self': False, 'len(self)>0': False, 'len(self)!=0': False,
                         'notself.keys()': True, 'len(self.keys())==0': True}
                out = []
                if t in empty:
                    for branch, is_empty in ((s.body, empty[t]), (s.orelse, not empty[t])):
                        f2 = feasible - IN_K if is_empty else feasible
                        out += self.block(list(branch) + rest, dict(env), f2)
                else:
                    for branch in (s.body, s.orelse):
                        out += self.block(list(branch) + rest, dict(env), feasible)
                return out
            if isinstance(s, (ast.FunctionDef, ast.Pass, ast.Import, ast.ImportFrom)):
                continue
            # anything else: what it assigns is unknown
            for nm in {x.id for x in ast.walk(s) if isinstance(x, ast.Name) and isinstance(x.ctx, ast.Store)}:
                env[nm] = None
            for x in ast.walk(s):
                if isinstance(x, ast.Return):
                    self.returns.append((None, feasible, x.lineno, 'return inside `%s`' % type(s).__name__))
        return [(env, feasible)]

    def run(self):
        self.problems, self.notes = [], []
        rest = self.block(list(self.fn.body), {}, ALL)
        for env, feasible in rest:
            self.returns.append((None, feasible, self.fn.lineno, 'falls off the end'))
        return self.returns
