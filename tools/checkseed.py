"""Development helper: apply a stored seed patch to a scratch copy of /repo/sfc_models and run checks with --root.
usage: checkseed.py <seed-dir-name|all> [pid,pid,...|own|all]"""
import glob, json, os, shutil, subprocess, sys, tempfile
which = sys.argv[1]
pids = sys.argv[2] if len(sys.argv) > 2 else 'own'
seeds = sorted(glob.glob('/verif/seeded/*')) if which == 'all' else ['/verif/seeded/' + which]
summary = []
for sd in seeds:
    meta = json.load(open(sd + '/meta.json'))
    d = tempfile.mkdtemp(prefix='sfcv_cs_')
    try:
        shutil.copytree('/repo/sfc_models', d + '/sfc_models', ignore=shutil.ignore_patterns('__pycache__'))
        subprocess.run(['git', 'init', '-q'], cwd=d)
        r = subprocess.run(['git', 'apply', sd + '/patch.diff'], cwd=d, capture_output=True, text=True)
        if r.returncode:
            print(os.path.basename(sd), 'PATCH FAILED', r.stderr[:200]); continue
        plist = [meta['property']] if pids == 'own' else (['C%02d' % i for i in range(1, 21)] if pids == 'all' else pids.split(','))
        res = {}
        for pid in plist:
            r = subprocess.run(['/venv/bin/python', '-m', 'sfcv', 'check', pid, '--root', d], cwd='/verif', capture_output=True, text=True)
            res[pid] = r.returncode
            if which != 'all' or r.returncode == 2:
                lines = [l for l in r.stdout.splitlines() if not l.startswith('analysed:') and 'KNOWN-FINDING' not in l]
                print('[%s %s rc=%d] %s' % (os.path.basename(sd), pid, r.returncode, '\n     '.join(x[:330] for x in lines[:5])))
        summary.append((os.path.basename(sd), res))
    finally:
        shutil.rmtree(d, ignore_errors=True)
subprocess.run(['git', '-C', '/verif', 'checkout', '--', 'evidence'], capture_output=True)
if which == 'all':
    own = sum(1 for s, r in summary if r.get(s.split('-')[0]) == 1)
    anyc = sum(1 for s, r in summary if 1 in r.values())
    print('seeds %d | caught by own check %d | caught by some check %d' % (len(summary), own, anyc))
    for s, r in summary:
        bad = {k: v for k, v in r.items() if v != 0}
        print('  %-14s %s' % (s, bad))
