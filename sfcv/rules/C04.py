"""C04 - markets clear and supply is fully allocated among suppliers (decided structural clauses).

R1 aggregation completeness : in each aggregation loop (goods/labour market, money market, deposit market) the collection
                              is the currency zone's sector list and the only guards that can skip a sector are within the
                              reason-annotated vocabulary {self-exclusion, issuer exclusion, variable absent}.
R2 term/flow coupling       : the name added to the demand sum and the name booked as outflow on the same sector are the
                              same variable, under the same guards.
R3 clearing and allocation  : SUP := DEM on every path; the supplier allocations sum to SUP as polynomials (residual =
                              SUP - sum of the others over the same collection); each supplier's own variable receives
                              exactly the market's allocation (times the cross rate across currencies) and the booked
                              flow is that same quantity; financial-asset markets: issuer supply := total demand.
R4 asset weights            : in the asset-weighting helper sum DEM_x == F; the money market's default demand is F."""
import ast

from ..inline import flatten

from ..loader import AnalysisError, unparse
from .. import effects
from ..ledger import UnitLedger, show_scenario
from ..algebra import Poly, Reader, make_sum, short, mentions_elem
from ..strdom import Str, Hole, SELF, lit
from .C01 import unique_guard

TECHNIQUE = ('static analysis: effect extraction of the market generators; guard-vocabulary check of the aggregation loops; '
             'polynomial identities (symbolic sums over supplier / holder collections) normalised to zero; truncating-break detection on '
             'the effect traces; the late-creation clause of C08.R1 recorded as R1')
EXPLANATION = (
    'The market generators are interpreted abstractly. The demand aggregation must range over the whole currency zone and may '
    'skip a sector only for a listed reason; the variable summed and the variable charged must coincide; SUP := DEM; the '
    'residual supplier gets SUP minus the same collection of other suppliers so that allocations sum to SUP identically; each '
    'supplier receives exactly its allocation; the asset demands generated from weights sum to F identically. Equality in the '
    'solved series is not inspected.')

# literal kind -> (allowed polarity of the literal under which the body runs, reason)
VOCAB_MARKET = {'same': (False, 'self-exclusion'), 'present': (True, 'variable absent')}
VOCAB_ASSET = {'same': (False, 'self-exclusion'), 'present': (None, 'variable present / filled in by default'),
               'isinstance': (False, 'markets hold no assets'), 'attr': (True, 'no ledger: cannot hold the asset'),
               'eq': (None, 'issuer exclusion')}


def guards_ok(guards, vocab, loopkey):
    bad = []
    for g in guards:
        if not mentions_elem(g.key(), loopkey):
            continue
        k = g.cond.kind
        if 'rhsof' in repr(g):
            # the test reads what a sector's equation says right now (e.g. "its demand is still '0.0'"): a declared demander is
            # dropped on the strength of text that later phases (exogenous values) replace
            bad.append(repr(g))
            continue
        if k not in vocab:
            bad.append(repr(g))
            continue
        pol, _ = vocab[k]
        if pol is not None and g.pol != pol:
            bad.append(repr(g))
        if k == 'attr' and g.cond.args[1] != 'HasF':
            bad.append(repr(g))
        if k == 'isinstance' and 'Market' not in str(g.cond.args[1]):
            bad.append(repr(g))
    return bad


def run(prog, check):
    check.explanation = EXPLANATION
    check.not_decided = 'equality in the solved series; user-supplied supply-allocation expressions'
    check.assumptions = ['exactly one issuer per financial-asset market (C11.R4)', 'supplier variables are empty before a market adds to them']
    mk = prog.cls('Market')
    n_agg = 0
    for ci in prog.subclasses('Market'):
        if not prog.is_core(ci.module.rel):
            continue
        m = prog.resolve_method(ci, '_GenerateEquations')
        if m is None or (m.cls.name == 'Market' and ci.name != 'Market'):
            if ci.name != 'Market':
                continue
        it = effects.run_unit(prog, ci)
        L = UnitLedger(it)
        check.saw(m)
        ukey = '%s::%s.G' % (ci.module.rel, ci.name)
        is_asset = any(c.name == 'FinancialAssetMarket' for c in ci.mro)
        vocab = VOCAB_ASSET if is_asset else VOCAB_MARKET
        gen = [e for e in it.effects if e.phase == 'gen']
        # ---- R1: the total-demand definition(s) -------------------------------------------------------
        dem_name = None
        dem_defs = []
        for e in gen:
            if e.kind == 'def' and e.role == SELF and e.name.parts and isinstance(e.name.parts[0], str) and e.name.parts[0].startswith('DEM_'):
                dem_defs.append(e)
                dem_name = e.name
        agg = []       # (loopkey, guards, summed Str, where)
        for e in dem_defs:
            if e.mode == 'addterm' and e.loops:
                agg.append((e.loops[-1][0], e.guards, e.rhs, e.where, e.loops[-1][1]))
            for h in (e.rhs.holes() if e.rhs is not None else []):
                if h.kind == 'fold':
                    coll = L.colls.get(h.args[0])
                    agg.append((h.args[0], h.args[2], h.args[1], e.where, coll))
        # sector demands collected in a mapping keyed by the short code collide across the countries of a zone
        mflat = flatten(prog, m)
        for loop_ in [x for x in ast.walk(mflat.node) if isinstance(x, ast.For) and isinstance(x.target, ast.Name)]:
            lv_ = loop_.target.id
            for st_ in ast.walk(loop_):
                if isinstance(st_, ast.Assign) and len(st_.targets) == 1 and isinstance(st_.targets[0], ast.Subscript) and \
                        isinstance(st_.targets[0].value, ast.Name):
                    k_ = st_.targets[0].slice
                    if isinstance(k_, ast.Attribute) and isinstance(k_.value, ast.Name) and k_.value.id == lv_ and k_.attr in ('Code', 'LongName'):
                        check.ob('C04.R1', '%s::collection-keyed-by-unique-key(%s)' % (ukey, unparse(st_.targets[0])), False,
                                 '%s:%d' % (m.module.rel, st_.lineno),
                                 'per-sector entries are stored under `%s`, which is unique only within a country: in a zone with several '
                                 'countries / regions the entries of equally named sectors overwrite each other' % unparse(k_),
                                 'two regions of one currency zone, each with a household HH')
        from ._common import truncating_breaks
        for lk_, g_, where_ in truncating_breaks(it):
            check.ob('C04.R1', '%s::loop-visits-every-sector(%s)' % (ukey, lk_), False, where_,
                     'the loop over %s is left at the first sector for which %s: the sectors declared after it are not counted in the market'
                     % (lk_, ' and '.join(repr(x) for x in g_ if mentions_elem(x.key(), lk_)) or 'the test holds'),
                     'a holder / demander declared after an object that fails the test (a tax flow, another market)')
        if not agg:
            check.ob('C04.R1', '%s::aggregates-demand' % ukey, False, m.where, 'no aggregation of sector demands into DEM_<market> found',
                     'any demander')
            continue
        n_agg += 1
        for lk, guards, summed, where, coll in agg:
            zone = coll is not None and coll.kind == 'zone_sectors' and coll.args and coll.args[0] == SELF
            check.ob('C04.R1', '%s::demand-collection(%s)' % (ukey, lk), zone, where,
                     'demand is aggregated over the currency zone of the market' if zone else
                     'demand is aggregated over %s, not the market\'s currency zone' % lk,
                     'a demander in another country of the same currency zone')
            bad = guards_ok(guards, vocab, lk)
            check.ob('C04.R1', '%s::skip-guards(%s)' % (ukey, ','.join(sorted(repr(g) for g in guards if mentions_elem(g.key(), lk)))), not bad, where,
                     'every guard that can skip a sector is in the accepted vocabulary' if not bad else
                     'guard(s) %s can skip a sector that declares a demand for this market' % bad,
                     'a sector that has the demand variable but fails the extra test')
            # the summed term is the sector's own demand variable of this market
            hs = [h for h in summed.holes() if h.kind == 'fullname']
            own = len(hs) == 1 and hs[0].args[0].kind == 'loop' and hs[0].args[0].args[0] == lk
            check.ob('C04.R1', '%s::summed-variable(%s)' % (ukey, summed.show()[:80]), own, where,
                     'the term added is the full name of the sector\'s own demand variable' if own else
                     'the term added is not the visiting sector\'s own demand variable', 'two demanders')
        # ---- R2 (goods / labour markets: the outflow is booked here) -----------------------------------
        if not is_asset:
            flows = [e for e in gen if e.kind == 'cashflow' and e.loops and e.role.kind == 'loop' and e.term.startswith_lit('-')]
            for e in flows:
                lk = e.loops[-1][0]
                match = [a for a in agg if a[0] == lk]
                ok = False
                if match:
                    a = match[0]
                    hs = [h for h in a[2].holes() if h.kind == 'fullname']
                    same_name = hs and Str(e.term.parts[1:] if e.term.parts[0] == '-' else (e.term.parts[0][1:],) + e.term.parts[1:]).key() == hs[0].args[1].key()
                    eg = set(g.key() for g in e.guards if mentions_elem(g.key(), lk))
                    ag = set(g.key() for g in a[1] if mentions_elem(g.key(), lk))
                    ok = bool(same_name) and eg == ag
                check.ob('C04.R2', '%s::outflow-matches-summed-demand' % ukey, ok, e.where,
                         'the sector is charged exactly the variable that was added to total demand, under the same guards' if ok else
                         'the variable charged to the sector and the variable added to total demand differ (name or guards)',
                         'a demander in another country of the zone (long variable name)')
            check.ob('C04.R2', '%s::outflow-present' % ukey, bool(flows), m.where,
                     'each demander is charged its demand' if flows else 'demanders are aggregated but never charged', 'any demander')
        # ---- R3 ------------------------------------------------------------------------------------------
        scs = list(L.scenarios())
        if not is_asset:
            code_sup = None
            for e in gen:
                if e.kind == 'def' and e.role == SELF and e.mode == 'set' and e.rhs == dem_name and not e.guards:
                    code_sup = e.name
            check.ob('C04.R3', '%s::supply-equals-demand' % ukey, code_sup is not None, m.where,
                     'SUP_<market> := DEM_<market> unconditionally' if code_sup is not None else
                     'total supply is not (unconditionally) set to total demand', 'any market')
            if code_sup is not None:
                # allocations: variables SUP_<supplier.FullCode> created on the market in the supplier loop(s)
                alloc = Poly()
                for e in gen:
                    if e.kind == 'def' and e.role == SELF and e.mode == 'create' and any(
                            h.kind == 'fullcode' for h in e.name.holes()) and e.name.startswith_lit('SUP_'):
                        p = Poly.atom(('var', SELF.key(), e.name.key()))
                        for lk, coll in reversed(e.loops):
                            gs = tuple(g.key() for g in e.guards if mentions_elem(g.key(), lk))
                            p = make_sum(lk, gs, p)
                        alloc = alloc + p
                total = alloc - Poly.atom(('var', SELF.key(), code_sup.key()))
                # use only the residual definition (not SUP := DEM) by reducing and then re-adding: simply reduce both sides
                for sc in scs[:1]:
                    # substitute identities but protect SUP itself from being expanded differently on the two sides
                    red = L.reduce(total, sc, unique_guard)
                    ok = red.is_zero()
                    check.ob('C04.R3', '%s::allocations-sum-to-supply%s' % (ukey, '' if ok else ' = ' + red.show()[:200]), ok, m.where,
                             'sum of supplier allocations - SUP normalises to 0' if ok else
                             'supplier allocations do not add up to total supply: residual ' + red.show()[:300],
                             'a market with two suppliers and an allocation rule')
            # each supplier receives its allocation
            for e in gen:
                if e.kind == 'def' and e.mode == 'addterm' and e.role != SELF and e.role.kind in ('loop', 'field'):
                    hs = [h for h in e.rhs.holes() if h.kind == 'fullname' and h.args[0] == SELF]
                    tgt_ok = bool(hs) and any(hh.kind == 'fullcode' and hh.args[0] == e.role for hh in hs[0].args[1].holes())
                    cross = any(g.cond.kind == 'samezone' and not g.pol for g in e.guards)
                    rates = [h for h in e.rhs.holes() if h.kind == 'fullname' and h.args[0].kind == 'ext']
                    has_rate = bool(rates)
                    # the rate converts from the market's currency into the supplier's
                    pair_ok = True
                    for rh in rates:
                        curs = [hh.args[0] for hh in rh.args[1].holes() if hh.kind == 'currency']
                        pair_ok = pair_ok and curs == [SELF, e.role]
                    ok = tgt_ok and (has_rate == cross) and pair_ok
                    check.ob('C04.R3', '%s::supplier-receives-allocation(%s,%s)' % (ukey, e.role.show(), 'cross' if cross else 'same-zone'),
                             ok, e.where,
                             'the supplier\'s own supply variable receives the market\'s allocation for this supplier%s' % (' times the cross rate' if cross else '')
                             if ok else 'the supplier\'s variable receives %s' % e.rhs.show()[:120], 'two suppliers: each must get its own allocation')
                    # the flow booked on the supplier is that same quantity
                    def compatible(f):
                        # same path: one guard set contains the other (a guard clause that raises inside one branch stays a
                        # fact after the branches join) and no condition is taken both ways
                        gf, ge = set(g.key() for g in f.guards), set(g.key() for g in e.guards)
                        opposite = any(g1.cond.key() == g2.cond.key() and g1.pol != g2.pol for g1 in f.guards for g2 in e.guards)
                        return not opposite and (gf <= ge or ge <= gf) and \
                            all(g.cond.kind == 'isnone' for g in list(f.guards) + list(e.guards) if g.key() in (gf ^ ge))
                    flows = [f for f in gen if f.kind == 'cashflow' and f.role == e.role and compatible(f)]
                    okf = False
                    for f in flows:
                        if cross:
                            okf = okf or f.term.strip().key() == e.rhs.strip().key()
                        else:
                            bare = Str((f.term.parts[0].lstrip('+'),) + f.term.parts[1:]) if f.term.parts and isinstance(f.term.parts[0], str) else f.term
                            okf = okf or bare.key() == e.name.key()
                    check.ob('C04.R3', '%s::supplier-flow-is-allocation(%s,%s)' % (ukey, e.role.show(), 'cross' if cross else 'same-zone'), okf, e.where,
                             'the inflow booked on the supplier is the same quantity' if okf else
                             'the inflow booked on the supplier differs from what its supply variable receives', 'a foreign supplier')
        else:
            # financial-asset market: issuer.SUP := market.DEM ; market.SUP := issuer.SUP
            sup_self = [e for e in gen if e.kind == 'def' and e.role == SELF and e.name.startswith_lit('SUP_')]
            sup_iss = [e for e in gen if e.kind == 'def' and e.role.kind == 'loop' and e.name.startswith_lit('SUP_')]
            ok = False
            if sup_self and sup_iss and dem_name is not None:
                p = Poly.atom(('var', SELF.key(), sup_self[-1].name.key())) - Poly.atom(('var', SELF.key(), dem_name.key()))
                # reduce under the issuer's guards: wrap in the issuer's loop so that elem identities apply
                e = sup_self[-1]
                q = Reader(SELF).read(e.rhs)
                for lk, coll in reversed(e.loops):
                    gs = tuple(g.key() for g in e.guards if mentions_elem(g.key(), lk))
                    q = make_sum(lk, gs, q)
                dd = Poly.atom(('var', SELF.key(), dem_name.key()))
                for sc in scs[:1]:
                    red = L.reduce(q, sc, unique_guard) - L.reduce(dd, sc, unique_guard)
                    from ..algebra import normalize
                    red = normalize(red, unique_guard)
                    ok = red.is_zero()
            # the variable that is given the issuer's supply is the market's own supply variable - the one its constructor created and
            # that is reported as the market's supply (a differently spelled name leaves that one empty: supply 0 against demand)
            ctor_sup = {e_.name.key() for e_ in it.effects if e_.phase == 'ctor' and e_.kind == 'def' and e_.role == SELF and e_.name.startswith_lit('SUP_')}
            if sup_self and ctor_sup:
                same_nm = sup_self[-1].name.key() in ctor_sup
                check.ob('C04.R3', '%s::market-supply-variable-is-the-declared-one' % ukey, same_nm, sup_self[-1].where,
                         'the supply defined at generation is the variable the constructor declared' if same_nm else
                         'generation defines %s, the constructor declared %s: the declared supply variable stays empty, so supply does not '
                         'equal demand for this market' % (sup_self[-1].name.show(), ', '.join(sorted(str(k_) for k_ in ctor_sup))[:80]),
                         'two countries sharing a currency, each with a deposit market')
            check.ob('C04.R3', '%s::issuer-supply-equals-demand' % ukey, ok, m.where,
                     'market supply = issuer supply = total demand as polynomials' if ok else
                     'issuer / market supply is not tied to total demand', 'any holder of the asset')
    # the collections the traces range over are the current ones: no accessor hands back a remembered list
    from ._common import accessors_not_memoised
    for f_, attr_, ok_, why_ in accessors_not_memoised(prog):
        check.saw(f_)
        check.ob('C04.R1', '%s::answers-for-current-objects%s' % (f_.key, '(%s)' % attr_ if attr_ else ''), ok_, f_.where, why_,
                 'a zone queried during construction, then one more sector created in a member country')
    if n_agg < 3:
        raise AnalysisError('expected 3 market-like aggregation units, found %d' % n_agg)
    # ---- R4 ------------------------------------------------------------------------------------------
    sec = prog.cls('Sector')
    aw = prog.resolve_method(sec, 'GenerateAssetWeighting')
    if aw is None:
        raise AnalysisError('asset-weighting helper not found')
    check.saw(aw)
    it = effects.run_method(prog, sec, 'GenerateAssetWeighting', phase='gen')
    L = UnitLedger(it)
    dems = [e for e in it.effects if e.kind == 'def' and e.name.startswith_lit('DEM_')]
    total = Poly()
    for e in dems:
        p = Poly.atom(('var', SELF.key(), e.name.key()))
        for lk, coll in reversed(e.loops):
            gs = tuple(g.key() for g in e.guards if mentions_elem(g.key(), lk))
            p = make_sum(lk, gs, p)
        total = total + p
    total = total - Poly.atom(('var', SELF.key(), lit('F').key()))
    ok = False
    red = None
    for sc in L.scenarios():
        if any(g.cond.kind == 'truthy' and sc.get(g.cond.key()) for e in dems for g in e.guards):
            continue
        red = L.reduce(total, sc, unique_guard)
        ok = red.is_zero()
    check.ob('C04.R4', '%s::asset-demands-sum-to-F%s' % (aw.key, '' if ok else ' = ' + (red.show()[:200] if red is not None else '?')), ok, aw.where,
             'sum over assets of DEM_x - F normalises to 0 (residual weight = 1 - sum of the others)' if ok else
             'asset demands do not add up to financial assets: residual ' + (red.show()[:300] if red is not None else '?'),
             'any weights: DEM_DEP + DEM_MON must equal F')
    check.ob('C04.R4', '%s::n-demand-definitions' % aw.key, len(dems) == 2, aw.where,
             'one demand per listed asset and one for the residual asset', '')
    mm = prog.classes.get('MoneyMarket')
    if mm is not None:
        itm = effects.run_unit(prog, mm)
        dflt = [e for e in itm.effects if e.phase == 'gen' and e.kind == 'def' and e.role.kind == 'loop' and e.name.startswith_lit('DEM_')]
        ok = len(dflt) == 1 and len(dflt[0].rhs.parts) == 1 and isinstance(dflt[0].rhs.parts[0], Hole) and \
            dflt[0].rhs.parts[0].kind == 'fullname' and dflt[0].rhs.parts[0].args[0] == dflt[0].role and \
            dflt[0].rhs.parts[0].args[1].literal() == 'F' and any(g.cond.kind == 'present' and not g.pol for g in dflt[0].guards)
        check.ob('C04.R4', '%s::MoneyMarket.G::default-money-demand' % mm.module.rel, ok, dflt[0].where if dflt else mm.module.rel,
                 'a sector without a money demand gets DEM_MON := its own F' if ok else 'default money demand is not the sector\'s own F',
                 'a model without asset allocation: money holdings = financial assets')
    # a demand that only comes into existence while the equations are generated is invisible to a market generated before it: the
    # clause C08.R1 decides for every variable a discovery loop looks for (here: the demand variables the markets aggregate)
    if not getattr(check, '_borrowing', False):
        from ..report import Borrowed
        from . import C08 as _c08
        b08 = Borrowed(check, lambda rule, key: rule == 'C08.R1' and '::creates(' in key, 'C04.R1',
                       'the market declared before the sector whose demand variable is created late')
        b08.run_lender(_c08, prog)
    check.floor('C04.R1', 9)
    check.floor('C04.R2', 2)
    check.floor('C04.R3', 6)
    check.floor('C04.R4', 3)
