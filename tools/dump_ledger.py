import sys
sys.path.insert(0, '/verif')
from sfcv.loader import Program
from sfcv import effects
from sfcv.ledger import UnitLedger, show_scenario
from sfcv.algebra import short
prog = Program(sys.argv[2] if len(sys.argv)>2 else '/repo')
def uniq(g):
    c, pol = g
    return pol and c[0] == 'cond' and c[1] == 'eq'
for nm in sys.argv[1].split(','):
    if '.' in nm:
        c, m = nm.split('.')
        it = effects.run_method(prog, prog.cls(c), m)
    else:
        it = effects.run_unit(prog, prog.cls(nm))
    L = UnitLedger(it)
    print('=====', nm, 'entries', len(L.entries), 'identities', len(L.identities), 'problems', L.problems)
    for x in L.entries: print('   E', short(x.cur), x.desc[:110], [repr(g) for g in x.elem_guards], '|', [repr(g) for g in x.outer])
    for sc, cur, total, xs in L.balance(uniq):
        print('  [%s] %s : %s' % (show_scenario(sc)[:100], short(cur), total.show()[:3000]))
