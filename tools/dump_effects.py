import sys
sys.path.insert(0, '/verif')
from sfcv.loader import Program
from sfcv import effects
prog = Program([a for a in sys.argv[2:] if not a.startswith('--')][0] if [a for a in sys.argv[2:] if not a.startswith('--')] else '/repo')
names = sys.argv[1].split(',')
for nm in names:
    cls = prog.cls(nm)
    it = effects.run_unit(prog, cls)
    print('=====', nm, 'fields:', {k: (v.show() if hasattr(v,'show') else v) for k, v in it.fields.items() if k not in ('LongName','ID','Parent','EquationBlock')})
    for i, e in enumerate(it.effects):
        if e.kind in ('fieldset', 'nameuse'): continue
        print('  %s %-4s %s   @%s' % ('C' if i < it.n_ctor else 'G', e.kind[:4], e.show(), e.where.split('/')[-1]))
    if it.opaque_uses: print('  OPAQUE:', it.opaque_uses)
    if it.breaks: print('  BREAKS:', it.breaks)
if '--model' in sys.argv:
    for cname, mname in (('Model','_GenerateRegisteredCashFlows'),('Sector','GenerateAssetWeighting'),('InternationalGold','SetGoldPurchases')):
        it = effects.run_method(prog, prog.cls(cname), mname, phase='prim' if cname!='Model' else 'gen')
        print('=====', cname, mname)
        for e in it.effects:
            if e.kind in ('fieldset','nameuse'): continue
            print('  ', e.kind[:4], e.show(), '@'+e.where.split('/')[-1])
        if it.opaque_uses: print('  OPAQUE:', it.opaque_uses)
