"""C17 - results depend only on the model, not on process history or diagnostics (decided structural clauses).

R1 derived-state coherence : the solver's variable list is derived from the parser; where it is cached (recomputed only
                             when empty), every method assigning the parser must invalidate / recompute it.
R2 trace purity            : blocks guarded by the trace flag write only trace state and block-local names.
R3 logging purity          : Logger(...) results are never used; format strings given with data_to_format are literals
                             with at most as many placeholders as values.
R4 fresh holder per solve  : the solve entry point always passes through the initial-conditions function, which installs
                             a newly constructed series holder.
R5 process-wide state      : state written after import is enumerated; the process-wide object counter is only used for
                             (in)equality tests, placeholder construction and log / error text."""
import ast
import re

from .. import cfg as cfgmod
from ..loader import AnalysisError, unparse, call_name, attr_chain, stmt_of
from ..dataflow import target_names, mutations_in
from ..solver_model import Sweep, solver_function, PARTITIONS

TECHNIQUE = ('static analysis: derived-field coherence (cache invalidation on every path), branch-outcome facts for trace-only statements on flattened methods and their write sets, memo / done-marker data members (reset dominance), call-shape lint of every Logger call, use-kind classification and write discipline of the global object counter; handler / raise-class agreement for log registration; dominance of the holder installation over reads of the old holder')
EXPLANATION = (
    'Finds the cached derived field of the solver (variable list rebuilt only when empty) and requires every assignment of '
    'its source (the parser) to be followed on every path by an invalidation; computes the write set of every trace-guarded '
    'block (must be trace state or block-local); lints all Logger calls (result unused, literal format, enough arguments); '
    'shows the solve entry always installs a fresh series holder; classifies every use of the process-wide object counter.')


def run(prog, check):
    check.explanation = EXPLANATION
    check.not_decided = 'equality of series across histories (only the structural channels of interference are decided)'
    check.assumptions = ['interference is only possible through attributes / class-level state, not through the OS']
    sw = Sweep(prog)
    solver_cls = sw.f.cls
    if solver_cls is None:
        raise AnalysisError('sweep function is not a method')
    # ---- R1 ----------------------------------------------------------------------------------------
    from ..solver_model import variable_list_builder
    M_raw, M, D, parts = variable_list_builder(prog, solver_cls)
    check.saw(M_raw)
    sources = set()
    for x in ast.walk(M.node):
        if isinstance(x, ast.Attribute) and x.attr in PARTITIONS:
            ch = attr_chain(x)
            if ch and ch[0] == 'self' and len(ch) >= 3:
                sources.add(ch[1])
    # builder covers all four partitions (C03.R3 states the same from the partition side)
    check.ob('C17.R1', '%s::builder-covers-partitions' % M.key, parts == set(PARTITIONS), M.where,
             'variable list is built from %s' % sorted(parts), 'a block with exogenous and decorative variables')
    # callers of the builder: cached (under emptiness test) or unconditional
    cached = False
    for f in solver_cls.methods.values():
        for n in ast.walk(f.node):
            if isinstance(n, ast.If) and any(isinstance(c, ast.Call) and call_name(c) == M.name for st in n.body for c in ast.walk(st)):
                if any(isinstance(x, ast.Attribute) and x.attr == D for x in ast.walk(n.test)):
                    cached = True
    check.note('derived field %s built by %s from self.%s; cached=%s' % (D, M.qualname, sorted(sources), cached))
    n_assign = 0
    for f in solver_cls.methods.values():
        if f.name == '__init__' or f is M:
            continue
        g = None
        for n in ast.walk(f.node):
            if isinstance(n, ast.Assign) and any(isinstance(t, ast.Attribute) and isinstance(t.value, ast.Name)
                                                 and t.value.id == 'self' and t.attr in sources for t in n.targets):
                g = g or cfgmod.build(f)
                check.saw(f)
                node = g.node_of(n)
                inval = [x for x in g.stmt_nodes() if x.kind == 'stmt' and (
                    (isinstance(x.ast, ast.Assign) and any(isinstance(t, ast.Attribute) and isinstance(t.value, ast.Name)
                                                           and t.value.id == 'self' and t.attr == D for t in x.ast.targets)) or
                    any(isinstance(c, ast.Call) and call_name(c) == M.name for c in ast.walk(x.ast)))]
                ok = (not cached) or g.must_pass(node, g.exit, inval)
                n_assign += 1
                check.ob('C17.R1', '%s::source-assignment-invalidates(%s)' % (f.key, D), ok, '%s:%d' % (f.module.rel, n.lineno),
                         ('assigning self.%s is followed on every path by resetting / rebuilding self.%s' % ('/'.join(sorted(sources)), D))
                         if ok else 'self.%s is replaced but the cached self.%s survives' % ('/'.join(sorted(sources)), D),
                         're-parsing a solver with a different block: it would still report the previous variables')
    if not cached:
        # every use must recompute unconditionally: the solve entry calls the builder before reading the list
        sa = solver_function(prog, 'solve_all')
        g = cfgmod.build(sa)
        calls = [x for x in g.stmt_nodes() if x.kind == 'stmt' and any(
            isinstance(c, ast.Call) and call_name(c) == M.name for c in ast.walk(x.ast))]
        ok = bool(calls) and g.must_pass(g.entry, g.exit, calls)
        check.ob('C17.R1', '%s::recomputed-unconditionally' % sa.key, ok, sa.where,
                 'the variable list is rebuilt on every solve' if ok else
                 'the variable list is neither cached-with-invalidation nor rebuilt on every solve', 're-parsing a solver')
    # ---- R2 ----------------------------------------------------------------------------------------
    # statements that run only when the trace flag is set (branch-outcome facts on the flattened method) may write
    # nothing but trace state and names that live only in such statements; a statement that is mirrored under the
    # opposite outcome (the same work done on both sides of an early return) is not trace-specific
    import re as _re
    from ..cfg import atomic_facts
    from ..inline import flatten

    def _norm_txt(node_ast):
        return _re.sub(r'__i\d+_*', '', unparse(node_ast))
    n_blocks = 0
    for f_raw in solver_cls.methods.values():
        f = flatten(prog, f_raw)
        flags = set()
        for n in ast.walk(f.node):
            if isinstance(n, ast.Assign) and isinstance(n.targets[0], ast.Name) and any(
                    isinstance(x, ast.Attribute) and x.attr == 'TraceStep' for x in ast.walk(n.value)):
                flags.add(n.targets[0].id)
        flags |= {p for p in f.params() if 'trace' in p.lower()}
        if not flags:
            continue
        g = cfgmod.build(f)
        on, off = [], []
        for nd in g.stmt_nodes():
            if nd.kind not in ('stmt', 'for', 'with', 'test'):
                continue
            pol = None
            for test, outcome in g.conditions_at(nd):
                for _, v, e in atomic_facts(test, outcome):
                    if isinstance(e, ast.Name) and e.id in flags:
                        pol = v
                    elif isinstance(e, ast.Compare) and any(isinstance(x, ast.Attribute) and x.attr == 'TraceStep' for x in ast.walk(e)) \
                            and len(e.ops) == 1 and isinstance(e.ops[0], ast.Eq):
                        pol = v
            if pol is True:
                on.append(nd)
            elif pol is False:
                off.append(nd)
        if not on:
            continue
        n_blocks += 1
        check.saw(f_raw)
        off_txt = {_norm_txt(nd.ast if nd.kind != 'for' else nd.ast.iter) for nd in off if nd.ast is not None}
        on_ids = set()
        for nd in on:
            if nd.kind == 'stmt':
                on_ids.update(id(x) for x in ast.walk(nd.ast))
            elif nd.kind == 'for':
                on_ids.update(id(x) for x in ast.walk(nd.ast.target))
                on_ids.update(id(x) for x in ast.walk(nd.ast.iter))
            elif nd.kind == 'test':
                on_ids.update(id(x) for x in ast.walk(nd.ast))
        assigned_on = set()
        for nd in on:
            if nd.kind == 'stmt' and isinstance(nd.ast, (ast.Assign, ast.AugAssign)):
                ts = nd.ast.targets if isinstance(nd.ast, ast.Assign) else [nd.ast.target]
                for t in ts:
                    assigned_on.update(target_names(t))
            elif nd.kind == 'for':
                assigned_on.update(target_names(nd.ast.target))
        assigned_elsewhere = {y.id for y in ast.walk(f.node) if isinstance(y, ast.Name) and isinstance(y.ctx, ast.Store) and id(y) not in on_ids}
        assigned_elsewhere |= set(f.params())
        trace_local = assigned_on - assigned_elsewhere
        # names bound to trace state by a plain copy inside the trace-only statements
        trace_alias = set()
        for nd in on:
            if nd.kind == 'stmt' and isinstance(nd.ast, ast.Assign) and len(nd.ast.targets) == 1 and isinstance(nd.ast.targets[0], ast.Name) \
                    and 'Trace' in unparse(nd.ast.value) and unparse(nd.ast.value).startswith('self.') and nd.ast.targets[0].id in trace_local:
                trace_alias.add(nd.ast.targets[0].id)
        bad = []
        for nd in on:
            if nd.kind != 'stmt':
                continue
            if _norm_txt(nd.ast) in off_txt:
                continue
            for kind, recv, mn in mutations_in(nd.ast):
                if kind == '+=' and isinstance(recv, ast.Name):
                    if recv.id not in trace_local:
                        bad.append('+= on outer local %s' % recv.id)
                    continue
                base = recv
                while isinstance(base, (ast.Subscript, ast.Attribute)):
                    base = base.value
                txt = unparse(recv if kind not in ('attr=', 'attr+=') else
                              (mn.targets[0] if isinstance(mn, ast.Assign) else mn.target))
                if isinstance(base, ast.Name) and base.id == 'self':
                    if 'Trace' in txt:
                        continue
                    bad.append('%s on %s' % (kind, txt))
                elif isinstance(base, ast.Name) and base.id in trace_alias:
                    continue
                elif isinstance(base, ast.Name) and base.id not in trace_local:
                    bad.append('%s on outer local %s' % (kind, txt))
            if isinstance(nd.ast, ast.Assign):
                for t in nd.ast.targets:
                    for nm in target_names(t):
                        if nm not in trace_local:
                            bad.append('assignment to outer local %s' % nm)
            if isinstance(nd.ast, (ast.Return, ast.Raise, ast.Break, ast.Continue)):
                bad.append('control transfer `%s`' % unparse(nd.ast)[:40])
            # calls on self other than trace helpers and the mirrored work
            for c in ast.walk(nd.ast):
                if isinstance(c, ast.Call) and isinstance(c.func, ast.Attribute) and isinstance(c.func.value, ast.Name) and \
                        c.func.value.id == 'self' and 'Trace' not in c.func.attr:
                    callee = prog.resolve_method(solver_cls, c.func.attr)
                    if callee is not None:
                        from .C15 import self_writes
                        ws = {w for w in self_writes(prog, callee, 3) if 'Trace' not in w}
                        if ws:
                            bad.append('call self.%s writes %s' % (c.func.attr, sorted(ws)[:3]))
        for x in ast.walk(f.node):
            if isinstance(x, ast.Name) and isinstance(x.ctx, ast.Load) and x.id in trace_local and id(x) not in on_ids:
                bad.append('trace-only name `%s` is read outside the trace-only statements' % x.id)
        bad = sorted(set(bad))
        check.ob('C17.R2', '%s::trace-only-statements(%s)' % (f.key, ','.join(sorted(flags))), not bad, f.where,
                 '%d trace-only statement(s) write only trace state and trace-only names' % len(on) if not bad else '; '.join(bad[:4]),
                 'solving with TraceStep set to some period vs unset must give identical series')
    # ---- R3 ----------------------------------------------------------------------------------------
    nlog = 0
    for f in prog.all_functions():
        for n in ast.walk(f.node):
            if isinstance(n, ast.Call) and isinstance(n.func, ast.Name) and n.func.id == 'Logger':
                nlog += 1
                parent = getattr(n, '_parent', None)
                unused = isinstance(parent, ast.Expr)
                fmt_ok, why = True, 'result unused'
                dtf = [k.value for k in n.keywords if k.arg == 'data_to_format']
                if len(n.args) >= 4:
                    dtf.append(n.args[3])
                if dtf:
                    txt = n.args[0] if n.args else None
                    if not (isinstance(txt, ast.Constant) and isinstance(txt.value, str)):
                        fmt_ok, why = False, 'format string passed with data_to_format is not a literal: `%s`' % unparse(txt)
                    else:
                        idx = [int(i) for i in re.findall(r'\{(\d+)[^}]*\}', txt.value)]
                        auto = len(re.findall(r'\{\}', txt.value))
                        need = max(idx) + 1 if idx else auto
                        d = dtf[0]
                        if isinstance(d, ast.Tuple) and not any(isinstance(e, ast.Starred) for e in d.elts) and len(d.elts) < need:
                            fmt_ok, why = False, 'format string needs %d values, %d given' % (need, len(d.elts))
                        # the data is unpacked with * when (and only when) the log is registered: a scalar given where the tuple of
                        # values belongs (`(x)` for `(x,)`) fails exactly then
                        scalar = isinstance(d, (ast.Constant, ast.BinOp, ast.Compare, ast.BoolOp, ast.UnaryOp, ast.JoinedStr)) or \
                            (isinstance(d, ast.Call) and isinstance(d.func, ast.Name) and d.func.id in ('len', 'int', 'float', 'abs', 'max', 'min', 'sum', 'round', 'id', 'bool'))
                        if scalar and not (isinstance(d, ast.Constant) and isinstance(d.value, (str, tuple))):
                            fmt_ok, why = False, 'data_to_format is the scalar `%s`, not a tuple of values: with the log registered the call raises ' \
                                                  'TypeError, without it nothing happens' % unparse(d)
                if not unused:
                    fmt_ok, why = False, 'the Logger(...) object is used as a value'
                check.ob('C17.R3', '%s::Logger(%s)' % (f.key, (unparse(n.args[0])[:40] if n.args else '')), fmt_ok,
                         '%s:%d' % (f.module.rel, n.lineno), why,
                         'the same model solved with and without a registered log must behave identically')
    # the logger drops the message (no formatting, no exception) when the log is not registered
    lg = prog.classes.get('Logger')
    if lg is None or '__init__' not in lg.methods:
        raise AnalysisError('Logger class not found')
    li = lg.methods['__init__']
    check.saw(li)
    gl = cfgmod.build(li)
    fmt_nodes = [x for x in gl.stmt_nodes() if x.kind == 'stmt' and any(
        isinstance(c, ast.Call) and call_name(c) == 'format' for c in ast.walk(x.ast))]
    handle = [x for x in gl.stmt_nodes() if x.kind == 'stmt' and any(
        isinstance(c, ast.Call) and call_name(c) == 'get_handle' for c in ast.walk(x.ast))]
    ok = bool(handle) and all(gl.dominates(handle[0], x) for x in fmt_nodes)
    check.ob('C17.R3', '%s::unregistered-log-is-a-no-op' % li.key, ok, li.where,
             'the handle lookup (KeyError -> return) dominates all formatting' if ok else
             'the message is formatted before it is known whether the log exists', 'logging inactive')
    # ---- R4 ----------------------------------------------------------------------------------------
    sa = solver_function(prog, 'solve_all')
    ic = solver_function(prog, 'initial_conditions')
    check.saw(sa)
    check.saw(ic)
    g = cfgmod.build(sa)
    calls = [x for x in g.stmt_nodes() if x.kind == 'stmt' and any(
        isinstance(c, ast.Call) and call_name(c) == ic.name for c in ast.walk(x.ast))]
    loops = [x for x in g.nodes if x.kind == 'for']
    ok = bool(calls) and all(g.dominates(calls[0], l) for l in loops) and g.must_pass(g.entry, g.exit, calls)
    check.ob('C17.R4', '%s::always-reinitialises' % sa.key, ok, sa.where,
             'every solve passes through %s before the first step' % ic.name if ok else
             'a solve can start stepping without re-initialising the series', 'solving the same solver twice')
    gi = cfgmod.build(ic)
    holders = [n.targets[0].id for n in ast.walk(ic.node) if isinstance(n, ast.Assign) and isinstance(n.value, ast.Call)
               and call_name(n.value) == 'TimeSeriesHolder' and isinstance(n.targets[0], ast.Name)]
    installs = [x for x in gi.stmt_nodes() if x.kind == 'stmt' and isinstance(x.ast, ast.Assign) and
                isinstance(x.ast.targets[0], ast.Attribute) and x.ast.targets[0].attr == 'TimeSeries' and
                isinstance(x.ast.value, ast.Name) and x.ast.value.id in holders]
    ok = bool(installs) and gi.must_pass(gi.entry, gi.exit, installs)
    check.ob('C17.R4', '%s::installs-fresh-holder' % ic.key, ok, ic.where,
             'a newly constructed holder is installed on every normal path' if ok else
             'the previous holder (with the previous solve\'s series) can survive', 'solving twice: series would keep growing')
    # until the fresh holder is installed, the series of the previous solve are still in place: nothing may read them
    stale = []
    for x in gi.stmt_nodes():
        if x.ast is None or x in installs:
            continue
        reads = [a for a in ast.walk(x.ast if x.kind != 'for' else x.ast.iter) if isinstance(a, ast.Attribute) and a.attr == 'TimeSeries' and
                 isinstance(a.ctx, ast.Load) and isinstance(a.value, ast.Name) and a.value.id == 'self']
        if reads and not any(gi.dominates(inst, x) for inst in installs):
            stale.append(x)
    check.ob('C17.R4', '%s::previous-series-not-read' % ic.key, not stale, '%s:%d' % (ic.module.rel, stale[0].line) if stale else ic.where,
             'the initialisation reads nothing of the holder it is about to replace' if not stale else
             'self.TimeSeries is read at line %d before the fresh holder is installed: it still holds the previous solve\'s series, so '
             'what this solve sets up depends on what was solved before' % stale[0].line,
             'one solver object re-parsed and re-solved with different blocks')
    # the holder is filled from the variable list (every variable gets its k=0 point)
    # reading the results is not part of the history either: no series accessor mutates a stored series (alias analysis of C16.R2)
    from .C16 import discover_accessors as _disc, check_accessor as _chk_acc, Summaries as _Summ
    acc_ = _disc(prog)
    summ_ = _Summ(prog)
    for f_acc in acc_['series']:
        _chk_acc(prog, check, f_acc, 'series', summ_, pid_rules=(None, 'C17.R4'))
    # ---- R5 ----------------------------------------------------------------------------------------
    global_writes = {}
    for f in prog.all_functions():
        for n in ast.walk(f.node):
            tg = None
            if isinstance(n, ast.Assign):
                tg = n.targets[0]
            elif isinstance(n, ast.AugAssign):
                tg = n.target
            if tg is None:
                continue
            base = tg
            while isinstance(base, ast.Subscript):
                base = base.value
            if isinstance(base, ast.Attribute) and isinstance(base.value, ast.Name) and base.value.id in prog.classes \
                    and base.value.id not in f.params():
                global_writes.setdefault('%s.%s' % (base.value.id, base.attr), []).append((f, n))
            if isinstance(n, ast.Global):
                pass
        for n in ast.walk(f.node):
            if isinstance(n, ast.Global):
                for nm in n.names:
                    global_writes.setdefault('global ' + nm, []).append((f, n))
    for gw, sites in sorted(global_writes.items()):
        cls, _, attr = gw.partition('.')
        # reads of that class attribute outside its own class
        reads = []
        for f in prog.all_functions():
            for x in ast.walk(f.node):
                if isinstance(x, ast.Attribute) and isinstance(x.ctx, ast.Load) and x.attr == attr and \
                        isinstance(x.value, ast.Name) and x.value.id == cls:
                    if f.cls is None or f.cls.name != cls:
                        reads.append('%s:%d' % (f.module.rel, x.lineno))
        if gw == 'EconomicObject.ID':
            continue     # classified below, use by use
        ok = not reads
        check.ob('C17.R5', 'global-write(%s)' % gw, ok, '%s:%d' % (sites[0][0].module.rel, sites[0][1].lineno),
                 'process-wide state %s is not read by model / solver code' % gw if ok else
                 'process-wide state %s is read at %s' % (gw, reads[:3]),
                 'two models / solvers built in one process')
    # class-level mutable objects that instances read through `self.<attr>` are shared by all instances
    n_mut = 0
    for ci in prog.classes.values():
        if not prog.is_core(ci.module.rel):
            continue
        for st in ci.node.body:
            if isinstance(st, ast.Assign) and isinstance(st.targets[0], ast.Name) and (
                    isinstance(st.value, (ast.List, ast.Dict, ast.Set)) or
                    (isinstance(st.value, ast.Call) and call_name(st.value) in ('list', 'dict', 'set'))):
                attr = st.targets[0].id
                n_mut += 1
                via_self = []
                for f in prog.all_functions():
                    for x in ast.walk(f.node):
                        if isinstance(x, ast.Attribute) and x.attr == attr and isinstance(x.ctx, ast.Load) and \
                                isinstance(x.value, ast.Name) and x.value.id == 'self' and f.cls is not None and \
                                any(c.name == ci.name for c in f.cls.mro):
                            via_self.append('%s:%d' % (f.module.rel, x.lineno))
                if attr.startswith('_') and not attr.startswith('__'):
                    # a private table: shared state only matters if the package edits it in place or hands it out
                    touched = []
                    for f in prog.all_functions():
                        for x in ast.walk(f.node):
                            if not (isinstance(x, ast.Attribute) and x.attr == attr):
                                continue
                            par = getattr(x, '_parent', None)
                            if isinstance(x.ctx, (ast.Store, ast.Del)):
                                touched.append(x.lineno)
                            elif isinstance(par, ast.Subscript) and par.value is x and isinstance(par.ctx, (ast.Store, ast.Del)):
                                touched.append(x.lineno)
                            elif isinstance(par, ast.Attribute) and par.value is x and par.attr in (
                                    'append', 'extend', 'insert', 'pop', 'remove', 'clear', 'update', 'setdefault', 'add', 'discard', 'sort', 'reverse', 'popitem'):
                                touched.append(x.lineno)
                            elif isinstance(par, (ast.Return, ast.Assign, ast.Yield)) and getattr(par, 'value', None) is x:
                                touched.append(x.lineno)
                    if not touched:
                        via_self = []
                ok = not via_self
                check.ob('C17.R5', '%s::class-level-mutable(%s)' % (ci.key, attr), ok, '%s:%d' % (ci.module.rel, st.lineno),
                         'class-level %s is only used as an explicit process-wide registry (%s.%s)' % (attr, ci.name, attr) if ok else
                         'the mutable class attribute %s is read through self at %s: every instance shares one object, so an in-place edit '
                         'made through one solver changes the behaviour of all others' % (attr, via_self[:3]),
                         'two solvers in one process, one of them appends to the list')
    if 'EconomicObject.ID' not in global_writes:
        raise AnalysisError('the process-wide object counter (EconomicObject.ID) was not found')
    # the object counter only ever counts up: objects recognise themselves (and each other) by it, so two live objects
    # must never share a number
    for f_, n_ in global_writes['EconomicObject.ID']:
        inc = isinstance(n_, ast.AugAssign) and isinstance(n_.op, ast.Add) and isinstance(n_.value, ast.Constant) and n_.value.value == 1
        own = f_.cls is not None and f_.cls.name == 'EconomicObject'
        check.ob('C17.R5', '%s::counter-write(%s)' % (f_.key, unparse(n_)[:40]), inc and own, '%s:%d' % (f_.module.rel, n_.lineno),
                 'the counter is incremented by the base constructor' if (inc and own) else
                 'the process-wide object counter is re-set: objects of models that are alive at the same time get equal IDs '
                 '(a market then skips a household as "itself")', 'a second Model created while the first is still being populated')
    # ---- R6: memo / done-marker data members of the solver are not carried from one parse or solve to the next ----
    from ..cfg import atomic_facts as _af
    init_m = solver_cls.methods.get('__init__')
    containers = set()
    for n in (ast.walk(init_m.node) if init_m else []):
        if isinstance(n, ast.Assign) and isinstance(n.targets[0], ast.Attribute) and isinstance(n.targets[0].value, ast.Name) \
                and n.targets[0].value.id == 'self' and (isinstance(n.value, (ast.Dict, ast.Set)) or (
                    isinstance(n.value, ast.Call) and call_name(n.value) in ('dict', 'set'))):
            containers.add(n.targets[0].attr)
    parse_sources = {'Parser', 'EquationString'} | set(sources)
    n6 = 0
    from ..inline import judged_at_callers
    at_callers = judged_at_callers(prog, list(solver_cls.methods.values()))
    for f_raw in solver_cls.methods.values():
        if f_raw.name == '__init__' or f_raw.key in at_callers:
            continue
        fl = flatten(prog, f_raw)
        aliases = {}
        for n in ast.walk(fl.node):
            if isinstance(n, ast.Assign) and len(n.targets) == 1 and isinstance(n.targets[0], ast.Name) and \
                    isinstance(n.value, ast.Attribute) and isinstance(n.value.value, ast.Name) and n.value.value.id == 'self' \
                    and n.value.attr in containers:
                aliases[n.targets[0].id] = n.value.attr

        def member_of(e):
            if isinstance(e, ast.Attribute) and isinstance(e.value, ast.Name) and e.value.id == 'self' and e.attr in containers:
                return e.attr
            if isinstance(e, ast.Name) and e.id in aliases:
                return aliases[e.id]
            if isinstance(e, ast.Call) and isinstance(e.func, ast.Attribute) and e.func.attr == 'keys':
                return member_of(e.func.value)
            return None
        fills, consults = {}, {}
        for n in ast.walk(fl.node):
            if isinstance(n, ast.Assign):
                for t in n.targets:
                    if isinstance(t, ast.Subscript) and member_of(t.value):
                        fills.setdefault(member_of(t.value), []).append(n)
            if isinstance(n, ast.Compare) and len(n.ops) == 1 and isinstance(n.ops[0], (ast.In, ast.NotIn)) and member_of(n.comparators[0]):
                consults.setdefault(member_of(n.comparators[0]), []).append(n)
            if isinstance(n, ast.Try) and any('KeyError' in unparse(h.type) for h in n.handlers if h.type is not None):
                for x in ast.walk(ast.Module(body=n.body, type_ignores=[])):
                    if isinstance(x, ast.Subscript) and isinstance(x.ctx, ast.Load) and member_of(x.value):
                        consults.setdefault(member_of(x.value), []).append(x)
        memos = sorted(set(fills) & set(consults))
        if not memos:
            continue
        g_ = cfgmod.build(fl)
        for A in memos:
            n6 += 1
            check.saw(f_raw)
            resets = [nd for nd in g_.stmt_nodes() if nd.kind == 'stmt' and isinstance(nd.ast, ast.Assign) and any(
                isinstance(t, ast.Attribute) and isinstance(t.value, ast.Name) and t.value.id == 'self' and t.attr == A for t in nd.ast.targets)]
            first_use = [g_.node_of(stmt_of(x)) for x in consults[A]]
            reset_first = bool(resets) and all(any(g_.dominates(r, u) for r in resets) for u in first_use if u is not None)
            # M1: re-set whenever the parsed block is replaced
            stale_parse = []
            for fo in solver_cls.methods.values():
                if fo.name == '__init__':
                    continue
                assigns_src = any(isinstance(n, ast.Assign) and any(isinstance(t, ast.Attribute) and isinstance(t.value, ast.Name) and
                                                                   t.value.id == 'self' and t.attr in parse_sources for t in n.targets)
                                  for n in ast.walk(fo.node))
                assigns_A = any(isinstance(n, ast.Assign) and any(isinstance(t, ast.Attribute) and isinstance(t.value, ast.Name) and
                                                                 t.value.id == 'self' and t.attr == A for t in n.targets)
                                for n in ast.walk(fo.node))
                if assigns_src and not assigns_A:
                    stale_parse.append(fo.name)
            ok1 = reset_first or not stale_parse
            check.ob('C17.R6', '%s::memo-reset-on-new-block(%s)' % (f_raw.key, A), ok1, f_raw.where,
                     'the memo self.%s is re-set whenever the parsed block changes (or at the start of its user)' % A if ok1 else
                     'self.%s is filled and consulted here but survives %s: entries computed for the previous block are used for the new one'
                     % (A, stale_parse), 'ParseString(A), solve, ParseString(B) with a shared variable name, solve')
            # M2: a membership test on the memo that lets other state be skipped needs a fresh memo per run
            skips_other = False
            for c in consults[A]:
                if not isinstance(c, ast.Compare):
                    continue
                tnode = None
                for nd in g_.nodes:
                    if nd.kind == 'test' and any(x is c for x in ast.walk(nd.ast)):
                        tnode = nd
                if tnode is None:
                    continue
                for nd in g_.stmt_nodes():
                    if nd.kind != 'stmt' or not isinstance(nd.ast, ast.Assign):
                        continue
                    writes_other = any(isinstance(t, ast.Subscript) and not member_of(t.value) == A for t in nd.ast.targets)
                    if not writes_other:
                        continue
                    for test, outcome in g_.conditions_at(nd):
                        if test is tnode.ast or any(x is c for x in ast.walk(test)):
                            skips_other = True
            ok2 = (not skips_other) or reset_first
            check.ob('C17.R6', '%s::done-marker-fresh-per-run(%s)' % (f_raw.key, A), ok2, f_raw.where,
                     'membership in self.%s does not decide whether other state is computed (or it starts empty on every run)' % A if ok2 else
                     'membership in self.%s decides whether results are computed, and the container is not emptied at the start of the run: '
                     'a second run skips what the first one marked as done' % A, 'a second SolveEquation() on the same solver')

    # ---- R3 (cont.): set-up of the log files tolerates an earlier set-up ---------------------------------------------------------
    # a `try: <one call of a package function>` whose handlers name classes the callee never raises cannot absorb the callee's own
    # refusal (e.g. "log already registered"): whether main() then works depends on what the process did before
    from ..cfg import handler_types as _ht, exc_is_a as _isa, raised_name as _rn
    byname_ = {}
    for f_ in prog.all_functions():
        byname_.setdefault(f_.name, []).append(f_)
    for f_ in prog.all_functions():
        if '/deprecated/' in f_.module.rel:
            continue
        for t_ in [x_ for x_ in ast.walk(f_.node) if isinstance(x_, ast.Try)]:
            if len(t_.body) != 1 or not (isinstance(t_.body[0], ast.Expr) and isinstance(t_.body[0].value, ast.Call)) or t_.orelse or t_.finalbody:
                continue
            cn_ = call_name(t_.body[0].value)
            if not cn_ or len(byname_.get(cn_, [])) != 1 or 'log' not in cn_.lower():
                continue
            raised_ = {_rn(r_) for r_ in ast.walk(byname_[cn_][0].node) if isinstance(r_, ast.Raise) and r_.exc is not None} - {None}
            if not raised_:
                continue
            for h_ in t_.handlers:
                tys_ = _ht(h_)
                hit_ = [r_ for r_ in raised_ if any(ty_ == '*' or _isa(r_, ty_) for ty_ in tys_)]
                check.saw(f_)
                check.ob('C17.R3', '%s::handler-matches-refusal(%s)' % (f_.key, cn_), bool(hit_), '%s:%d' % (f_.module.rel, h_.lineno),
                         'the handler absorbs the %s raised by %s' % (', '.join(sorted(hit_)), cn_) if hit_ else
                         'the handler catches %s but %s refuses with %s: a log registered earlier in the process makes the run fail'
                         % (', '.join(tys_), cn_, ', '.join(sorted(raised_))),
                         'Model.main(base_file_name=...) after the standard logs were registered once before')
    nid = 0
    for f, x, kind, ok in id_uses(prog):
        nid += 1
        check.ob('C17.R5', '%s::ID-use(%s)' % (f.key, kind), ok, '%s:%d' % (f.module.rel, x.lineno),
                 'object counter used for ' + kind, 'the same model built after another model in the same process')
    # ---- R3 (cont.): a message is only treated as a format template when data came with it ---------------------------
    LG = prog.classes.get('Logger')
    lg_init = LG.methods.get('__init__') if LG else None
    n_fmt = 0
    seen_fmt = set()
    for lg_m in (list(LG.methods.values()) if LG else []):
        from ..cfg import atomic_facts as _facts17
        lg_init = lg_m
        lgf = flatten(prog, lg_m)
        glg = cfgmod.build(lgf)
        data_p = [p_ for p_ in lgf.params() if 'format' in p_.lower() or 'data' in p_.lower()]
        for nd in glg.stmt_nodes():
            if nd.kind != 'stmt':
                continue
            for c in ast.walk(nd.ast):
                if isinstance(c, ast.Call) and isinstance(c.func, ast.Attribute) and c.func.attr == 'format' and \
                        any(isinstance(a_, ast.Starred) for a_ in c.args):
                    if (c.lineno, c.col_offset) in seen_fmt:
                        continue
                    seen_fmt.add((c.lineno, c.col_offset))
                    n_fmt += 1
                    star = [a_.value for a_ in c.args if isinstance(a_, ast.Starred)][0]
                    plain = isinstance(star, ast.Name) and star.id in data_p
                    guarded = False
                    for test, outcome in glg.conditions_at(nd):
                        for _, v_, e_ in _facts17(test, outcome):
                            if isinstance(e_, ast.Compare) and len(e_.ops) == 1 and isinstance(e_.ops[0], ast.Is) and isinstance(e_.left, ast.Name) \
                                    and e_.left.id in data_p and isinstance(e_.comparators[0], ast.Constant) and e_.comparators[0].value is None and v_ is False:
                                guarded = True
                            if isinstance(e_, ast.Name) and e_.id in data_p and v_ is True:
                                guarded = True
                    ok_f = plain and guarded
                    check.saw(lg_init)
                    check.ob('C17.R3', '%s::template-only-with-data' % lg_init.key, ok_f, '%s:%d' % (lgf.module.rel, c.lineno),
                             'the message text is run through str.format only when the caller supplied data for it' if ok_f else
                             'the message text is run through str.format even when no data came with it: free text containing braces (a '
                             'description, an equation) raises - but only when a log is registered', "a description 'Y_{t-1}' logged with and without a registered log")
    if LG is not None and not n_fmt:
        raise AnalysisError('Logger: the place where message data is formatted into the text was not found')
    # ---- R6 (cont.): solving does not edit the solver's own configuration ---------------------------------------------
    # a `Parameter...` data member is set by the constructor and by the user; a method that re-sets it through `self` makes
    # the next identical call take another path (a working copy of the solver may of course be configured)
    from ..inline import judged_at_callers as _jac17
    cfg_funcs = list(solver_cls.methods.values())
    at_callers17 = _jac17(prog, cfg_funcs)
    seen17 = set()
    n_cfg = 0
    for f_raw in cfg_funcs:
        if f_raw.name == '__init__' or f_raw.key in at_callers17:
            continue
        fl = flatten(prog, f_raw)
        for n in ast.walk(fl.node):
            tg = n.targets if isinstance(n, ast.Assign) else ([n.target] if isinstance(n, ast.AugAssign) else [])
            for t in tg:
                if isinstance(t, ast.Attribute) and t.attr.startswith('Parameter') and isinstance(t.value, ast.Name) and t.value.id == 'self':
                    if (fl.module.rel, n.lineno, n.col_offset) in seen17:
                        continue
                    seen17.add((fl.module.rel, n.lineno, n.col_offset))
                    n_cfg += 1
                    check.saw(f_raw)
                    check.ob('C17.R6', '%s::configuration-write(%s)' % (f_raw.key, t.attr), False, '%s:%d' % (fl.module.rel, n.lineno),
                             'self.%s is re-set while solving: a second identical call on the same solver runs with another configuration' % t.attr,
                             'SolveEquation() called twice on one solver')
    check.ob('C17.R6', '%s::configuration-only-set-by-constructor-and-user' % solver_cls.key, n_cfg == 0, solver_cls.module.rel,
             'no method re-sets a Parameter... member of its own solver' if n_cfg == 0 else '%d write(s), listed above' % n_cfg, '')
    check.floor('C17.R1', 2)
    check.floor('C17.R2', 2)
    check.floor('C17.R3', 60)
    check.floor('C17.R4', 2)
    check.floor('C17.R5', 12)


def _block_key(ifnode):
    calls = sorted({call_name(c) or '?' for st in ifnode.body for c in ast.walk(st) if isinstance(c, ast.Call)})
    return ','.join(calls)[:60]


def id_uses(prog):
    """every read of an object counter `.ID` in the package -> (function, node, kind, ok).  Functions are read with their private
    helpers in place (a counter handed out by a private static helper is judged where the value ends up); a read that only copies
    the counter into a local is judged by the uses of that local."""
    from ..inline import flatten, judged_at_callers
    funcs = list(prog.all_functions())
    skip = judged_at_callers(prog, funcs)
    seen = set()
    for f_raw in funcs:
        if f_raw.key in skip:
            continue
        f = flatten(prog, f_raw)
        for x in ast.walk(f.node):
            if isinstance(x, ast.Attribute) and x.attr == 'ID' and isinstance(x.ctx, ast.Load):
                kind, ok = classify_id_use(x, f)
                k = (f_raw.key, getattr(x, 'lineno', 0), kind)
                if k in seen:
                    continue
                seen.add(k)
                yield f_raw, x, kind, ok


def classify_id_use(x, f, depth=0):
    p = getattr(x, '_parent', None)
    st0 = p
    while st0 is not None and not isinstance(st0, ast.stmt):
        st0 = getattr(st0, '_parent', None)
    if depth < 3 and isinstance(st0, ast.Assign) and st0.value is x and len(st0.targets) == 1 and isinstance(st0.targets[0], ast.Name):
        # next_id = EconomicObject.ID: the local stands for the counter value; judged by what is done with it
        nm = st0.targets[0].id
        uses = [n for n in ast.walk(f.node) if isinstance(n, ast.Name) and n.id == nm and isinstance(n.ctx, ast.Load)]
        others = [n for n in ast.walk(f.node) if isinstance(n, ast.Name) and n.id == nm and isinstance(n.ctx, ast.Store) and
                  n is not st0.targets[0]]
        if uses and not others:
            res = [classify_id_use(u, f, depth + 1) for u in uses]
            bad = [r for r in res if not r[1]]
            if bad:
                return bad[0]
            return 'counter copied to `%s`: %s' % (nm, ', '.join(sorted({r[0] for r in res}))[:80]), True
    p = getattr(x, '_parent', None)
    chain = []
    while p is not None and not isinstance(p, ast.stmt):
        chain.append(p)
        p = getattr(p, '_parent', None)
    stmt = p
    first = chain[0] if chain else stmt
    if isinstance(first, ast.Compare):
        if all(isinstance(o, (ast.Eq, ast.NotEq, ast.Is, ast.IsNot)) for o in first.ops):
            return 'equality test', True
        return 'ordering comparison `%s`' % unparse(first), False
    # argument of Logger / exception constructor / error text
    for c in chain:
        if isinstance(c, ast.Call) and isinstance(c.func, ast.Name) and (c.func.id == 'Logger' or c.func.id.endswith('Error')
                                                                          or c.func.id in ('Warning', 'Exception')):
            return 'log / error text', True
    if isinstance(stmt, ast.Raise):
        return 'log / error text', True
    # self.ID = EconomicObject.ID ; EconomicObject.ID += 1
    if isinstance(stmt, ast.Assign) and isinstance(stmt.targets[0], ast.Attribute) and stmt.targets[0].attr == 'ID':
        return 'counter hand-out', True
    if isinstance(stmt, ast.AugAssign):
        return 'counter increment', True
    # placeholder construction: '_{0}__{1}'.format(self.ID, ...)
    for c in chain:
        if isinstance(c, ast.Call) and call_name(c) == 'format' and isinstance(c.func.value, ast.Constant) and \
                '__' in str(c.func.value.value) and str(c.func.value.value).startswith('_'):
            return 'placeholder construction (sanitised by the alias pass, C05.R1)', True
    # passed as an identifying key to AddInitialCondition (looked up by equality in LookupSector)
    for c in chain:
        if isinstance(c, ast.Call) and call_name(c) in ('AddInitialCondition',):
            return 'lookup key (resolved by equality)', True
    if isinstance(first, ast.Return) or isinstance(stmt, ast.Return):
        return 'returned `%s`' % unparse(stmt)[:50], False
    return 'other use `%s`' % unparse(stmt)[:60], False
