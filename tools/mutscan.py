"""Development helper (not a check): generic single-node mutants of the package, filtered by the unedited test suite, then run
against all 20 checks.  Lists the mutants the tests accept and no check reports - each is either equivalent / outside every
property, or a clause no rule covers (to be read by hand).
usage: mutscan.py <n per file> <seed> [file-substring]"""
import ast, copy, json, os, random, shutil, subprocess, sys, tempfile
from concurrent.futures import ThreadPoolExecutor
N, SEED = int(sys.argv[1]), int(sys.argv[2])
SUB = sys.argv[3] if len(sys.argv) > 3 else ''
ROOT = '/repo'
FILES = ['sfc_models/models.py', 'sfc_models/sector.py', 'sfc_models/sector_definitions.py', 'sfc_models/equation.py',
         'sfc_models/equation_parser.py', 'sfc_models/equation_solver.py', 'sfc_models/utils.py', 'sfc_models/external.py',
         'sfc_models/base_solver.py', 'sfc_models/deprecated/iterative_machine_generator.py', 'sfc_models/gl_book/chapter3.py',
         'sfc_models/gl_book/chapter4.py', 'sfc_models/gl_book/__init__.py']
FILES = [f for f in FILES if SUB in f]
CMP = {ast.Lt: ast.LtE, ast.LtE: ast.Lt, ast.Gt: ast.GtE, ast.GtE: ast.Gt, ast.Eq: ast.NotEq, ast.NotEq: ast.Eq,
       ast.In: ast.NotIn, ast.NotIn: ast.In, ast.Is: ast.IsNot, ast.IsNot: ast.Is}


def sites(tree):
    out = []
    for n in ast.walk(tree):
        if isinstance(n, ast.Compare) and len(n.ops) == 1 and type(n.ops[0]) in CMP:
            out.append(('cmp', n))
        elif isinstance(n, ast.Constant) and isinstance(n.value, bool):
            out.append(('bool', n))
        elif isinstance(n, ast.Constant) and isinstance(n.value, int) and not isinstance(n.value, bool) and abs(n.value) <= 3:
            out.append(('int', n))
        elif isinstance(n, ast.BinOp) and isinstance(n.op, (ast.Add, ast.Sub)) and not isinstance(n.left, ast.Constant):
            out.append(('arith', n))
        elif isinstance(n, ast.If):
            out.append(('neg', n))
        elif isinstance(n, ast.Expr) and isinstance(n.value, ast.Call):
            out.append(('drop', n))
        elif isinstance(n, ast.Constant) and isinstance(n.value, str) and n.value[:1] in '+-' and 1 < len(n.value) < 30 and '\n' not in n.value:
            out.append(('sign', n))
        elif isinstance(n, (ast.Break, ast.Continue)):
            out.append(('jump', n))
    return out


def mutate(kind, n):
    if kind == 'cmp':
        n.ops = [CMP[type(n.ops[0])]()]
    elif kind == 'bool':
        n.value = not n.value
    elif kind == 'int':
        n.value = n.value + 1
    elif kind == 'arith':
        n.op = ast.Sub() if isinstance(n.op, ast.Add) else ast.Add()
    elif kind == 'neg':
        n.test = ast.UnaryOp(op=ast.Not(), operand=n.test)
    elif kind == 'drop':
        n.value = ast.Constant(value=None)
    elif kind == 'sign':
        n.value = ('-' if n.value[0] == '+' else '+') + n.value[1:]
    elif kind == 'jump':
        return 'swap'


def make(rel, idx):
    src = open(os.path.join(ROOT, rel)).read()
    tree = ast.parse(src)
    st = sites(tree)
    kind, node = st[idx]
    line = getattr(node, 'lineno', 0)
    before = ast.unparse(node)[:70]
    if mutate(kind, node) == 'swap':
        # break <-> continue needs the parent: redo by line
        for p in ast.walk(tree):
            for f in ('body', 'orelse'):
                blk = getattr(p, f, None)
                if isinstance(blk, list):
                    for i, s in enumerate(blk):
                        if s is node:
                            blk[i] = ast.copy_location(ast.Continue() if isinstance(node, ast.Break) else ast.Break(), node)
    ast.fix_missing_locations(tree)
    return kind, line, before, ast.unparse(tree)


def run(job):
    rel, idx = job
    try:
        kind, line, before, text = make(rel, idx)
    except Exception as e:
        return None
    d = tempfile.mkdtemp(prefix='sfcv_ms_')
    try:
        shutil.copytree(ROOT + '/sfc_models', d + '/sfc_models', ignore=shutil.ignore_patterns('__pycache__'))
        shutil.copytree(ROOT + '/test', d + '/test', ignore=shutil.ignore_patterns('__pycache__'))
        open(os.path.join(d, rel), 'w').write(text)
        r = subprocess.run(['/venv/bin/python', '-m', 'pytest', '-q', '-p', 'no:cacheprovider', '--timeout=120', '-x', '--deselect',
                            'sfc_models/deprecated/test_iterative_machine_generator.py::TestIterativeMachineGenerator::test_main'], cwd=d, env=dict(os.environ, PYTHONPATH=d), capture_output=True, text=True, timeout=900)
        tail = r.stdout.strip().splitlines()[-1] if r.stdout.strip() else ''
        if r.returncode != 0:
            return (rel, line, kind, before, 'tests', [])
        fired = []
        env = dict(os.environ, SFCV_OUT_DIR=d + '/_out')
        for i in range(1, 21):
            pid = 'C%02d' % i
            c = subprocess.run(['/venv/bin/python', '-m', 'sfcv', 'check', pid, '--root', d], cwd='/verif', env=env, capture_output=True, text=True, timeout=600)
            if c.returncode != 0:
                fired.append('%s:%d' % (pid, c.returncode))
        return (rel, line, kind, before, 'checks' if fired else 'SURVIVES', fired)
    except subprocess.TimeoutExpired:
        return (rel, line, kind, before, 'timeout', [])
    finally:
        shutil.rmtree(d, ignore_errors=True)


random.seed(SEED)
jobs = []
for rel in FILES:
    tree = ast.parse(open(os.path.join(ROOT, rel)).read())
    n = len(sites(tree))
    for idx in random.sample(range(n), min(N, n)):
        jobs.append((rel, idx))
with ThreadPoolExecutor(max_workers=10) as ex:
    res = [r for r in ex.map(run, jobs) if r]
tally = {}
for r in res:
    tally[r[4]] = tally.get(r[4], 0) + 1
print('mutants %d: %s' % (len(res), tally))
for r in sorted(res):
    if r[4] == 'SURVIVES':
        print('SURVIVES %s:%d %s  `%s`' % (r[0], r[1], r[2], r[3]))
for r in sorted(res):
    if r[4] == 'checks':
        print('caught   %s:%d %s  `%s`  %s' % (r[0], r[1], r[2], r[3], ','.join(r[5])))
