"""C07 - cross-currency flows conserve value at the prevailing exchange rates (decided structural clauses).

R1 credited amount     : wherever a unit credits a sector in another currency, the credited term is
                         amount * CrossRate(source, target) and the cross-rate definition reads source/target over the
                         rate variables (so the receiver gets amount * XR_source / XR_target).
R2 numeraire valuation : for every unit with FX legs, sum_c NET_c * XR_c + NET_NUMERAIRE == 0 as a polynomial
                         (Laurent monomials in the rates), in every branch.
R3 paired legs         : in units calling both FX primitives the numeraire legs cancel (numeraire ledger == 0).
R4 refusal             : every cross-currency booking is dominated by an `ExternalSector is None -> raise` test."""
import ast

from ..loader import AnalysisError, call_name
from .. import effects
from ..ledger import UnitLedger, show_scenario
from ..algebra import Poly, short
from ..strdom import Str, ext, SELF
from .C01 import booking_units, unique_guard
from .C11 import external_sector_guards

TECHNIQUE = ('static analysis: effect extraction of the FX primitives and their callers; Laurent-polynomial normalisation of the valued FX position with the cross-rate definition substituted; feasible-path search with ExternalSector bound to None for the external-sector guard; Laurent monomial of the local gold price; ledger clauses of C01.R1 and the currency-equality clause of C18.R3 recorded as R2 / R4')
EXPLANATION = (
    'The two FX primitives and every unit that calls them are interpreted abstractly; the FX intermediary\'s entries are valued '
    'at the rate variables (NET_c * XR_c, numeraire at 1), the cross-rate definition emitted by GetCrossRate is substituted and '
    'the result must be the zero polynomial for every branch. An inverted or swapped cross rate, a sign slip on one leg or a '
    'source mismatch between the legs leaves a non-zero Laurent polynomial. The solved numeraire totals are not inspected.')


def run(prog, check):
    check.explanation = EXPLANATION
    check.not_decided = 'solved numeraire totals; exchange-rate paths supplied by the user'
    check.assumptions = ['the rate of a currency is the variable EXT_XR__<currency>; the numeraire has rate 1']
    units = []
    for ci in booking_units(prog, True):
        units.append((ci, '_GenerateEquations', effects.run_unit(prog, ci)))
    units.append((prog.cls('Model'), '_GenerateRegisteredCashFlows', effects.run_method(prog, prog.cls('Model'), '_GenerateRegisteredCashFlows')))
    seen = set()
    n_fx = 0
    for ci, mname, it in units:
        L = UnitLedger(it)
        fx = [x for x in L.entries if hasattr(x, 'fx_name')]
        if not fx:
            # a unit whose code calls the FX primitives but whose interpreted paths never book an FX leg: the legs sit
            # behind a condition that does not follow from the flow being cross-zone
            m0 = prog.resolve_method(ci, mname)
            from ..inline import flatten as _fl
            calls_fx = any(isinstance(c, ast.Call) and call_name(c) in ('_SendMoney', '_ReceiveMoney')
                           for c in ast.walk(_fl(prog, m0).node)) if m0 is not None else False
            if calls_fx and (m0.key, 'nofx') not in seen:
                seen.add((m0.key, 'nofx'))
                check.saw(m0)
                ukey0 = '%s::%s.%s' % (ci.module.rel, ci.name, 'G' if mname == '_GenerateEquations' else mname)
                check.ob('C07.R2', '%s::fx-legs-booked' % ukey0, False, m0.where,
                         'the method calls the FX primitives, but on no interpreted path are the FX legs booked under the condition '
                         '"the two parties are in different currency zones"', 'a cross-zone flow followed by a domestic one')
            continue
        m = prog.resolve_method(ci, mname)
        sig = tuple(e.key() for e in it.effects if e.phase == 'gen' and e.kind in ('cashflow', 'blockterm'))
        if (m.key, sig) in seen:
            continue
        seen.add((m.key, sig))
        check.saw(m)
        n_fx += 1
        ukey = '%s::%s.%s' % (ci.module.rel, ci.name, 'G' if mname == '_GenerateEquations' else mname)
        # ---- R2 ------------------------------------------------------------------------------------
        for sc, total, used in L.fx_valuation(unique_guard):
            ok = total.is_zero()
            check.ob('C07.R2', '%s::fx-valuation[%s]%s' % (ukey, show_scenario(sc), '' if ok else ' = ' + total.show()[:300]), ok, used[0].where,
                     '%d FX legs valued at the rate variables net to zero' % len(used) if ok else
                     'valued FX position is not zero: %s; legs: %s' % (total.show()[:300], '; '.join(x.desc for x in used)[:400]),
                     'any non-unit exchange rate', detail={'legs': [x.desc for x in used]})
        # ---- R3 ------------------------------------------------------------------------------------
        both = any('_ReceiveMoney' in v for x in fx for v in getattr(x, 'via', ())) and any('_SendMoney' in v for x in fx for v in getattr(x, 'via', ()))
        if both:
            for sc, cur, total, xs in L.balance(unique_guard):
                if short(cur) != '(cur,NUMERAIRE)':
                    continue
                ok = total.is_zero()
                check.ob('C07.R3', '%s::numeraire-legs[%s]%s' % (ukey, show_scenario(sc), '' if ok else ' = ' + total.show()[:200]), ok, xs[0].where,
                         'the numeraire legs of send and receive cancel' if ok else 'numeraire position is left open: ' + total.show()[:300],
                         'paired flows must leave the numeraire position at zero')
        # ---- R1 ------------------------------------------------------------------------------------
        for sc in L.scenarios():
            sends = [x for x in fx if not x.fx_name.is_literal() and L.holds(x.outer, sc) and
                     all(c > 0 for c in x.poly.terms.values())]
            for snd in sends:
                src_hole = [h for h in snd.fx_name.holes() if h.kind == 'currency'][0]
                # sector entries credited under the same loops/guards in another currency
                for x in L.entries:
                    if hasattr(x, 'fx_name') or not L.holds(x.outer, sc) or x.loops != snd.loops or \
                            set(g.key() for g in x.elem_guards) != set(g.key() for g in snd.elem_guards) or x.cur == snd.cur:
                        continue
                    tgt_sym = L.cur_sym(x.role)
                    tgt_name = None
                    for y in fx:
                        if not y.fx_name.is_literal() and y.cur == x.cur:
                            hs = [h for h in y.fx_name.holes() if h.kind == 'currency']
                            if hs:
                                tgt_name = Str([hs[0]])
                    if tgt_name is None:
                        continue
                    xr_s = Poly.atom(('var', ext('XR').key(), Str([src_hole]).key()))
                    xr_t = Poly.atom(('var', ext('XR').key(), tgt_name.key()))
                    from ..ledger import Entry
                    exp_entry = Entry(x.cur, snd.poly * xr_s * xr_t.inverse(), x.loops, x.elem_guards, x.outer, x.where, '', x.role)
                    expected = L.reduce(exp_entry.wrapped(), sc, unique_guard)
                    got = L.reduce(x.wrapped(), sc, unique_guard)
                    ok = L.reduce(x.wrapped() - exp_entry.wrapped(), sc, unique_guard).is_zero()
                    key = '%s::credited(%s)[%s]' % (ukey, x.role.show(), show_scenario({k: v for k, v in sc.items() if any(k == g.cond.key() for g in x.outer)}))
                    if key in seen:
                        continue
                    seen.add(key)
                    check.ob('C07.R1', key, ok, x.where,
                             'receiver is credited amount * XR_source / XR_target' if ok else
                             'receiver is credited %s, required %s' % (got.show()[:200], expected.show()[:200]),
                             'a flow from a currency worth 2 numeraire units to one worth 1: the receiver must get twice the amount')
    # ---- R1b: an amount booked on a counterparty of possibly another currency is either guarded by a same-zone test
    #           (booked 1:1) or converted at the cross rate (the not-same-zone branch) ----------------------------------
    for ci, mname, it in units:
        L = UnitLedger(it)
        if not any(hasattr(x, 'fx_name') for x in L.entries):
            continue
        ukey = '%s::%s.%s' % (ci.module.rel, ci.name, 'G' if mname == '_GenerateEquations' else mname)
        for x in L.entries:
            if hasattr(x, 'fx_name'):
                continue
            rsym = L.cur_sym(x.role)
            # the owner(s) of the amount variables in the booked term
            owners = set()
            for a in x.poly.atoms():
                if a[0] == 'var' and a[1] != ext('XR').key():
                    owners.add(a[1])
            foreign_owner = [o for o in owners if o != x.role.key()]
            if not foreign_owner:
                continue          # the sector books its own variable: same currency by construction
            if L.cur_sym(x.role) == ('cur', SELF.key()) and all(o == SELF.key() for o in foreign_owner) and x.role.kind in ('loop', 'lookup') and \
                    L.cur_sym(x.role) == L.cur_sym(SELF):
                continue
            guards = list(x.elem_guards) + list(x.outer)
            plain = [g for g in guards if g.cond.kind == 'samezone']
            ok = bool(plain) or L.cur_sym(x.role) == L.cur_sym(SELF)
            key = '%s::cross-zone-booking-guarded(%s)' % (ukey, x.role.show())
            if key in seen:
                continue
            seen.add(key)
            check.ob('C07.R1', key, ok, x.where,
                     'the booking sits in an explicit same-zone / other-zone branch' if ok else
                     'an amount owned by another object is booked on %s without a plain same-currency-zone test: a counterparty in another '
                     'zone is credited 1:1 and never refused' % x.role.show(),
                     'a residual supplier / flow target in another currency zone, with and without an ExternalSector')
    # the cross-rate definition itself
    xr_cls = prog.classes.get('ExchangeRates')
    if xr_cls is None:
        raise AnalysisError('ExchangeRates class not found')
    itx = effects.run_method(prog, xr_cls, 'GetCrossRate', phase='prim', bind={'local': Str(['A']), 'foreign': Str(['B'])})
    defs = [e for e in itx.effects if e.kind == 'def']
    m = prog.resolve_method(xr_cls, 'GetCrossRate')
    check.saw(m)
    ok = len(defs) == 1 and defs[0].name.literal() == 'A_B' and defs[0].rhs.literal() is not None and \
        defs[0].rhs.literal().replace(' ', '') == 'A/B'
    check.ob('C07.R1', '%s::cross-rate-definition' % m.key, ok, m.where,
             'GetCrossRate(A, B) defines A_B := A/B' if ok else 'GetCrossRate(A, B) defines %s' % [d.show() for d in defs],
             'non-unit rates: an inverted definition credits amount * XR_target / XR_source')
    rets = [r for r in ast.walk(m.node) if isinstance(r, ast.Return)]
    # gold bought for a currency is valued at the prevailing rate: the gold price a sector sees is the gold sector's own (numeraire)
    # price divided by the rate of the sector's currency - the same rate variable that converts the sector's payment into the numeraire
    gold_cls = prog.classes.get('InternationalGold')
    gm = prog.resolve_method(gold_cls, 'SetGoldPurchases') if gold_cls is not None else None
    if gm is not None:
        from ..algebra import Reader
        from fractions import Fraction
        itg = effects.run_method(prog, gold_cls, 'SetGoldPurchases', phase='prim')
        for e in itg.effects:
            if e.kind != 'def' or e.role == SELF or e.rhs is None:
                continue
            rd = Reader(e.role)
            pg = rd.read(e.rhs)
            own = [a for a in pg.atoms() if a[0] == 'var' and a[1] == SELF.key()]
            if not own:
                continue          # not a valuation of the gold sector's price
            rates = [a for a in pg.atoms() if a[0] == 'var' and a[1] != SELF.key() and a[1] != e.role.key()]
            okg = len(pg.terms) == 1 and len(own) == 1 and len(rates) == 1 and not rd.problems
            if okg:
                (mono, coef), = pg.terms.items()
                okg = coef == Fraction(1) and dict(mono) == {own[0]: 1, rates[0]: -1}
            check.saw(gm)
            check.ob('C07.R1', '%s::local-gold-price(%s)' % (gm.key, e.name.show()), okg, e.where,
                     'local gold price = numeraire gold price / rate of the local currency' if okg else
                     'the local gold price is defined as %s: it is not the numeraire price converted at the rate of the buyer\'s currency, so the '
                     'gold received is not worth the currency paid' % e.rhs.show(),
                     'a gold purchase with a rate and a gold price different from 1.0')
    # the payment for gold arrives: the intermediary passes -amount*rate on in the numeraire, the gold sector's own net position
    # (an added term on a variable of the gold sector itself) takes up +rate*amount - the two numeraire legs are paired
    if gm is not None:
        flows_ = [e for e in itg.effects if e.kind == 'cashflow' and e.role != SELF]
        adds_ = [e for e in itg.effects if e.kind == 'def' and e.role == SELF and e.mode == 'addterm' and e.rhs is not None]
        if flows_:
            okn = False
            for e in adds_:
                rd2 = Reader(SELF)
                pa = rd2.read(e.rhs)
                if len(pa.terms) == 1 and not rd2.problems:
                    (mono2, coef2), = pa.terms.items()
                    owners2 = {a_[1] for a_, _x in mono2 if a_[0] == 'var'}
                    if coef2 == Fraction(1) and len(mono2) == 2 and all(x_ == 1 for _a, x_ in mono2) and flows_[0].role.key() in owners2:
                        okn = True
            check.ob('C07.R3', '%s::gold-payment-received-in-the-numeraire' % gm.key, okn, gm.where,
                     'the gold sector\'s net position takes up rate * amount for every purchase' if okn else
                     'no term `rate * amount` is added to a variable of the gold sector: the payment the intermediary passes on in the numeraire '
                     'is received by nobody', 'an unpaired gold purchase at a rate different from 1.0')
    # ---- R4 ----------------------------------------------------------------------------------------
    n = external_sector_guards(prog, check, 'C07.R4')
    if n < 4:
        raise AnalysisError('expected at least 4 cross-currency booking sites, found %d' % n)
    if n_fx < 4:
        raise AnalysisError('expected at least 4 units with FX legs, found %d' % n_fx)
    # what the intermediary receives, the sender gives up: the currency ledgers of the units with cross-currency legs balance
    # (the clause C01.R1 decides per unit and branch; taken over here for the branches that have an external sector)
    if not getattr(check, '_borrowing', False):
        from ..report import Borrowed
        from . import C01 as _c01
        b01 = Borrowed(check, lambda rule, key: rule == 'C01.R1' and ('extsector()' in key or 'ext(XR)' in key or 'samezone(' in key), 'C07.R2',
                       'a gold purchase / cross-currency flow: payer debited x, intermediary credited x in the same currency')
        b01.run_lender(_c01, prog)
    # which flows cross a currency boundary is decided by the identity of the currency codes (the clause C18.R3 decides: equality only)
    if not getattr(check, '_borrowing', False):
        from . import C18 as _c18
        b18 = Borrowed(check, lambda rule, key: rule == 'C18.R3' and 'currency-identity-is-equality' in key, 'C07.R4',
                       "currencies 'AUS' and 'US': a flow between them must be converted, or refused without an external sector")
        b18.run_lender(_c18, prog)
    check.floor('C07.R1', 3)
    check.floor('C07.R2', 4)
    check.floor('C07.R3', 2)
    check.floor('C07.R4', 4)
