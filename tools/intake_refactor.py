"""Development helper: verify a behaviour-preserving refactoring produced by a sub-agent and record whether the checks stay silent.

usage: intake_refactor.py <name> <dir-with-patch.diff>
  1. patch applies to clean HEAD, touches only sfc_models/ non-test files
  2. the pinned test suite still gives the baseline result
  3. every registered check is run with --root on the patched tree; any non-zero exit is reported for triage
Stores /verif/refactors/<name>/{patch.diff, notes.md, meta.json}."""
import json, os, shutil, subprocess, sys, tempfile
PY = '/venv/bin/python'


def sh(cmd, cwd=None, env=None, timeout=1800):
    r = subprocess.run(cmd, cwd=cwd, env=env, capture_output=True, text=True, timeout=timeout)
    return r.returncode, r.stdout + r.stderr


def main():
    name, src = sys.argv[1], sys.argv[2].rstrip('/')
    patch = os.path.join(src, 'patch.diff')
    if not os.path.exists(patch):
        print('missing', patch); return 2
    wt = tempfile.mkdtemp(prefix='sfcv_ref_'); os.rmdir(wt)
    meta = {'refactor': name, 'ran': []}
    try:
        rc, out = sh(['git', '-C', '/repo', 'worktree', 'add', '-q', '--detach', wt, 'HEAD'])
        if rc: print(out); return 2
        env = dict(os.environ, PYTHONPATH=wt)
        rc, out = sh(['git', 'apply', '--check', patch], cwd=wt)
        if rc: print('PATCH DOES NOT APPLY\n' + out); return 1
        files = [l.split('\t')[-1] for l in sh(['git', 'apply', '--numstat', patch], cwd=wt)[1].splitlines() if l.strip()]
        meta['files'] = files
        sh(['git', 'apply', patch], cwd=wt)
        rct, outt = sh([PY, '-m', 'pytest', '-ra', '-q', '-p', 'no:cacheprovider', '--timeout=900', '--continue-on-collection-errors'], cwd=wt, env=env)
        last = [l for l in outt.strip().splitlines() if 'passed' in l or 'failed' in l][-1:] or ['?']
        ok_tests = '221 passed' in last[0] and '1 failed' in last[0]
        meta['tests_unchanged'] = ok_tests
        meta['ran'].append('pytest on patched tree -> ' + last[0].strip())
        alarms = {}
        for i in range(1, 21):
            c = 'C%02d' % i
            rc, out = sh([PY, '-m', 'sfcv', 'check', c, '--root', wt], cwd='/verif', env=dict(os.environ, SFCV_OUT_DIR=wt + '/_sfcv_out'))
            if rc != 0:
                lines = [l.strip() for l in out.splitlines() if (l.startswith('  ') and ('  C%02d.' % i) in l) or l.startswith('ANALYSIS-ERROR')]
                alarms[c] = {'rc': rc, 'lines': [x[:400] for x in lines[:5]]}
                print('  [%s rc=%d] %s' % (c, rc, (lines[0][:330] if lines else out.strip()[:330])))
        meta['non_silent_checks'] = alarms
        print('tests:', last[0].strip(), '| non-silent checks:', sorted(alarms))
        dst = '/verif/refactors/' + name
        os.makedirs(dst, exist_ok=True)
        shutil.copy(patch, dst + '/patch.diff')
        if os.path.exists(os.path.join(src, 'notes.md')):
            shutil.copy(os.path.join(src, 'notes.md'), dst + '/notes.md')
        json.dump(meta, open(dst + '/meta.json', 'w'), indent=1)
        return 0
    finally:
        sh(['git', '-C', '/repo', 'worktree', 'remove', '--force', wt])
        shutil.rmtree(wt, ignore_errors=True)


if __name__ == '__main__':
    sys.exit(main())
