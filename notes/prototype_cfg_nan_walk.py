# Throwaway feasibility prototype (design round; NOT framework code): statement CFG + the C02.R1 NaN walk.
import ast, sys, subprocess
class Node:
    def __init__(s, kind, stmt=None, cond=None): s.kind=kind; s.stmt=stmt; s.cond=cond; s.succ=[]   # succ: list of (node, label)
    def __repr__(s): return '%s@%s'%(s.kind, getattr(s.stmt,'lineno',None) or getattr(s.cond,'lineno','-'))
class CFG:
    def __init__(s, fn):
        s.exit=Node('exit'); s.raise_=Node('raise'); s.nodes=[]
        s.entry=s.block(fn.body, s.exit, None, None)
    def new(s,*a,**k): n=Node(*a,**k); s.nodes.append(n); return n
    def block(s, stmts, nxt, brk, cont):
        for st in reversed(stmts): nxt=s.stmt(st, nxt, brk, cont)
        return nxt
    def stmt(s, st, nxt, brk, cont):
        if isinstance(st, ast.If):
            n=s.new('if',cond=st.test); n.succ=[(s.block(st.body,nxt,brk,cont),True),(s.block(st.orelse,nxt,brk,cont),False)]; return n
        if isinstance(st, ast.While):
            h=s.new('while',stmt=st,cond=st.test); body=s.block(st.body,h,nxt,h); h.succ=[(body,True),(s.block(st.orelse,nxt,brk,cont),False)]; return h
        if isinstance(st, ast.For):
            h=s.new('for',stmt=st); body=s.block(st.body,h,nxt,h); h.succ=[(body,'iter'),(s.block(st.orelse,nxt,brk,cont),'done')]; return h
        if isinstance(st, ast.Try):
            fin=s.block(st.finalbody,nxt,brk,cont) if st.finalbody else nxt
            n=s.new('try',stmt=st); hs=[(s.block(h.body,fin,brk,cont),'except') for h in st.handlers]
            n.succ=[(s.block(st.body+st.orelse,fin,brk,cont),'ok')]+hs; return n   # coarse: handler entered from try head
        if isinstance(st, ast.Raise): n=s.new('raise',stmt=st); n.succ=[(s.raise_,None)]; return n
        if isinstance(st, ast.Return): n=s.new('return',stmt=st); n.succ=[(s.exit,None)]; return n
        if isinstance(st, ast.Break): n=s.new('break',stmt=st); n.succ=[(brk,None)]; return n
        if isinstance(st, ast.Continue): n=s.new('continue',stmt=st); n.succ=[(cont,None)]; return n
        n=s.new('stmt',stmt=st); n.succ=[(nxt,None)]; return n
def mentions(e,name): return any(isinstance(x,ast.Name) and x.id==name for x in ast.walk(e))
def ev3(e, E):
    """truth of e when E is NaN: True/False/None(unknown)"""
    if isinstance(e, ast.Compare) and len(e.ops)==1 and (mentions(e.left,E) or mentions(e.comparators[0],E)):
        return isinstance(e.ops[0], ast.NotEq)
    if isinstance(e, ast.UnaryOp) and isinstance(e.op, ast.Not):
        v=ev3(e.operand,E); return None if v is None else (not v)
    if isinstance(e, ast.BoolOp):
        vs=[ev3(v,E) for v in e.values]
        if isinstance(e.op, ast.And): return False if False in vs else (None if None in vs else True)
        return True if True in vs else (None if None in vs else False)
    if isinstance(e, ast.Call) and getattr(e.func,'id',getattr(e.func,'attr',''))=='isnan' and mentions(e,E): return True
    if isinstance(e, ast.Call) and getattr(e.func,'id',getattr(e.func,'attr',''))=='isfinite' and mentions(e,E): return False
    return None
def assigns(st, name):
    return isinstance(st,(ast.Assign,)) and any(isinstance(t,ast.Name) and t.id==name for t in st.targets)
def is_commit(st): 
    return any(isinstance(c,ast.Call) and isinstance(c.func,ast.Attribute) and c.func.attr=='append' and 'TimeSeries[' in ast.unparse(c.func.value) and 'StepTrace' not in ast.unparse(c.func.value) for c in ast.walk(st)) if st is not None else False
def nan_walk(src):
    t=ast.parse(src); fn=[n for n in ast.walk(t) if isinstance(n,ast.FunctionDef) and n.name=='_SolveStep'][0]
    g=CFG(fn)
    def sweeps(w):
        return any(isinstance(f,ast.For) and 'Endogenous' in ast.unparse(f.iter) and any(isinstance(c,ast.Call) and getattr(c.func,'id','')=='eval' for c in ast.walk(f)) for f in ast.walk(w.stmt))
    wh=[n for n in g.nodes if n.kind=='while' and sweeps(n)][0]
    E=[x.id for x in ast.walk(wh.cond) if isinstance(x,ast.Name)][0]   # measure = first name in loop test (prototype shortcut)
    # start: the statement after the last accumulation of E in the loop body == first node after the inner 'for' over Endogenous; shortcut: start at loop header
    seen=set(); stack=[wh]; hits=[]
    while stack:
        n=stack.pop()
        if n in seen or n.kind in('exit','raise'): continue
        seen.add(n)
        if n.kind=='stmt' and assigns(n.stmt,E): continue          # E redefined: walk ends
        if n.kind in('stmt','for') and n.kind=='stmt' and is_commit(n.stmt): hits.append(n); continue
        if n.kind in('if','while'):
            v=ev3(n.cond,E)
            for m,lab in n.succ:
                if v is None or lab==v: stack.append(m)
        else:
            for m,lab in n.succ: stack.append(m)
    return E, hits
orig=open('/repo/sfc_models/equation_solver.py').read()
fixed=orig.replace("while relative_error > err_toler:","while not (relative_error <= err_toler):")
alt=orig.replace("        if had_evaluation_errors:\n            Logger('Had evaluation errors')","        if isnan(relative_error):\n            raise ConvergenceError('nan')\n        if had_evaluation_errors:\n            Logger('Had evaluation errors')")
for name,src in (('orig',orig),('fixed',fixed),('alt-postloop-isnan',alt)):
    E,h=nan_walk(src); print(name, 'measure=',E, 'commit reachable under NaN at lines', [x.stmt.lineno for x in h])
