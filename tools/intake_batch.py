"""Development helper: intake every finished, not yet stored sub-agent result under /tmp/wt (6 at a time).
Breaking agents Bxx: _out/changeN with the property on the first line of notes.md (fallback: _props.json, change1-2 -> first,
change3-4 -> second).  Refactoring agents Rxx: _out/refactorN."""
import glob, json, os, re, subprocess, sys
from concurrent.futures import ThreadPoolExecutor
jobs = []
ONLY = set(sys.argv[1:])     # optional: names of finished agents (B33 R21 ...); default every worktree
for wt in sorted(glob.glob('/tmp/wt/[BR]*')):
    name = os.path.basename(wt)
    if ONLY and name not in ONLY:
        continue
    props = []
    if os.path.exists(wt + '/_props.json'):
        props = json.load(open(wt + '/_props.json'))['props']
    for d in sorted(glob.glob(wt + '/_out/change*')) + sorted(glob.glob(wt + '/_out/refactor*')):
        item = os.path.basename(d)
        if not os.path.exists(d + '/patch.diff'):
            continue
        if item.startswith('change'):
            sid = '%s-%s' % (name, item)
            if os.path.isdir('/verif/seeded/' + sid):
                continue
            pid = None
            try:
                m = re.search(r'\bC(\d\d)\b', open(d + '/notes.md').read().splitlines()[0])
                if m:
                    pid = 'C' + m.group(1)
            except (IOError, IndexError):
                pass
            n = int(re.sub(r'\D', '', item) or 1)
            if pid is None or (props and pid not in props):
                half = max(len(glob.glob(wt + "/_out/change*")) // 2, 1)
                pid = props[0 if n <= half else 1] if props else None
            if pid:
                jobs.append(['/venv/bin/python', '/verif/tools/intake_seed.py', pid, d, '--name', sid])
        else:
            rid = '%s-%s' % (name, item)
            if os.path.isdir('/verif/refactors/' + rid):
                continue
            jobs.append(['/venv/bin/python', '/verif/tools/intake_refactor.py', rid, d])


def run(cmd):
    r = subprocess.run(cmd, capture_output=True, text=True)
    return cmd, r.returncode, (r.stdout + r.stderr)


with ThreadPoolExecutor(6) as ex:
    for cmd, rc, out in ex.map(run, jobs):
        print('=== %s rc=%d' % (' '.join(cmd[2:]), rc))
        print('\n'.join(l[:320] for l in out.strip().splitlines()[-6:]))
print('jobs:', len(jobs))
