"""C16 - reading results never changes them.

R1 no escape      : an accessor returns fresh objects on every path, never a may-alias of stored state.
R2 no mutation    : no mutator / store through a may-alias of stored state inside an accessor.
R3 right window   : the slice bound is cutoff+1 (default cutoff from the model when None); time-zero
                    suppression removes exactly element 0 of the fresh list."""
import ast

from ..inline import flatten

from .. import cfg as cfgmod
from ..dataflow import (resolve_expr, AliasAnalysis, ALIAS, mutations_in, own_exprs, linform, lin_eq, lin_str,
                        single_assign_subst)
from ..loader import AnalysisError, unparse, call_name

EXPLANATION = (
    'Flow-sensitive may-alias/escape analysis over the CFG of every result accessor (series getter, table '
    'renderers and their helper/wrapper methods): return values must be fresh objects, no mutator may be applied '
    'to an alias of stored state, and the series window must be [0:cutoff+1] with time-zero suppression removing '
    'exactly index 0 of the fresh copy. Holds for every call history because the rule is over all paths of the '
    'accessor code, not over sampled calls.')


TECHNIQUE = ('static analysis: flow-sensitive may-alias/escape dataflow over the CFG of each public accessor with its private helpers inlined; path-wise symbolic evaluation of the window the series accessor returns (linear forms over cutoff / default, stored[lo:hi] references, assumptions taken at None / flag tests); constructor / class-level defaults and injectivity of the group-to-holder choice')
def _has_return_value(f):
    return any(isinstance(n, ast.Return) and n.value is not None for n in ast.walk(f.node))


def discover_accessors(prog):
    """role-based discovery; returns {role: [FuncInfo]}"""
    series, renderers, wrappers, helpers = [], [], [], []
    for f_raw in prog.all_functions():
        if not _has_return_value(f_raw):
            continue
        # public entry points are judged with their private helpers inlined; a private helper is part of its callers
        if f_raw.name.startswith('_') and not f_raw.name.startswith('__') and f_raw.cls is not None and f_raw.cls.name == 'Model':
            continue
        f = flatten(prog, f_raw)
        body = f.node
        reads_ts = any(isinstance(n, ast.Attribute) and n.attr == 'TimeSeries' and isinstance(n.ctx, ast.Load)
                       for n in ast.walk(body))
        tab_join = any(isinstance(n, ast.Call) and call_name(n) == 'join' and isinstance(n.func, ast.Attribute)
                       and isinstance(n.func.value, ast.Constant) and n.func.value.value == '\t'
                       for n in ast.walk(body))
        if f.cls is not None and f.cls.name == 'Model' and reads_ts:
            series.append(f)
        if tab_join:
            renderers.append(f)
    # a private helper that builds part of the text and is read in place inside another renderer is part of that renderer
    inl_ = {k_ for f_ in renderers for k_ in getattr(f_, 'inlined', ())}
    renderers = [f_ for f_ in renderers if not (f_.name.startswith('_') and not f_.name.startswith('__') and f_.key in inl_)] or renderers
    rnames = {f.name for f in renderers}
    for f in prog.all_functions():
        if f in renderers or f in series:
            continue
        rets = [n for n in ast.walk(f.node) if isinstance(n, ast.Return) and n.value is not None]
        if rets and all(isinstance(r.value, ast.Call) and call_name(r.value) in rnames for r in rets):
            wrappers.append(f)
    # helpers: same-class methods called on self by a renderer and returning a value
    for r in renderers:
        if r.cls is None:
            continue
        for c in ast.walk(r.node):
            if isinstance(c, ast.Call) and isinstance(c.func, ast.Attribute) and \
                    isinstance(c.func.value, ast.Name) and c.func.value.id == 'self':
                m = prog.resolve_method(r.cls, c.func.attr)
                if m is not None and _has_return_value(m) and m not in helpers and m not in renderers:
                    helpers.append(m)
    return {'series': series, 'renderer': renderers, 'wrapper': wrappers, 'helper': helpers}


class Summaries(object):
    """'returns fresh' summaries of package functions, computed on demand from their own alias analysis"""

    def __init__(self, prog):
        self.prog = prog
        self.cache = {}

    def returns_fresh_call(self, call):
        nm = call_name(call)
        if nm is None:
            return None
        defs = self.prog.definitions_of(nm)
        if not defs:
            return None
        res = [self.of(f) for f in defs]
        if all(r is True for r in res):
            return True
        if any(r is False for r in res):
            return False
        return None

    def of(self, f):
        if f.key in self.cache:
            return self.cache[f.key]
        self.cache[f.key] = None      # recursion guard
        g = cfgmod.build(f)
        aa = AliasAnalysis(g, f.node, self.prog, f.cls, returns_fresh=self.returns_fresh_call)
        ok = True
        for n in g.stmt_nodes(lambda n: isinstance(n.ast, ast.Return)):
            if n.ast.value is not None and ALIAS in aa.tags(n.ast.value, n):
                ok = False
        self.cache[f.key] = ok
        return ok


def check_accessor(prog, check, f, role, summ, pid_rules=('C16.R1', 'C16.R2')):
    check.saw(f)
    g = cfgmod.build(f)
    aa = AliasAnalysis(g, f.node, prog, f.cls, returns_fresh=summ.returns_fresh_call)
    r1, r2 = pid_rules
    for n in g.stmt_nodes(lambda n: isinstance(n.ast, ast.Return)):
        if n.ast.value is None or r1 is None:
            continue
        tags = aa.tags(n.ast.value, n)
        check.ob(r1, '%s::return(%s)' % (f.key, unparse(n.ast.value)), ALIAS not in tags,
                 '%s:%d' % (f.module.rel, n.line),
                 'returned object may be the stored object itself' if ALIAS in tags else 'fresh on every path',
                 'caller mutates the returned list, or reads twice: later reads change')
    nmut = 0
    for n in g.stmt_nodes():
        for ex in own_exprs(n):
            if n.kind == 'stmt' and isinstance(ex, (ast.For, ast.While, ast.If, ast.Try, ast.With)):
                continue
            for kind, recv, mnode in mutations_in(ex):
                tags = aa.tags(recv, n)
                nmut += 1
                bad = ALIAS in tags
                check.ob(r2, '%s::%s(%s)' % (f.key, kind, unparse(recv)), not bad,
                         '%s:%d' % (f.module.rel, getattr(mnode, 'lineno', n.line)),
                         'mutates an object that may be stored state' if bad else 'receiver is a fresh local object',
                         'second retrieval/rendering after the first call sees changed stored results')
    return g, aa


def check_window(prog, check, f):
    """C16.R3 on the series accessor: every path is evaluated symbolically (sfcv/window.py) and the window it returns is
    compared with the one the property states for the assumptions the path took"""
    from ..window import Evaluator, expected_window, lin_same, lin_text, TooManyPaths
    params = f.params()
    cands = [p for p in params if 'cutoff' in p.lower()]
    if not cands:
        for n in ast.walk(f.node):
            if isinstance(n, ast.Compare) and isinstance(n.left, ast.Name) and n.left.id in params and len(n.ops) == 1 and \
                    isinstance(n.ops[0], (ast.Is, ast.IsNot)) and isinstance(n.comparators[0], ast.Constant) and n.comparators[0].value is None:
                cands.append(n.left.id)
    if not cands:
        raise AnalysisError('C16.R3: cannot identify the cutoff parameter of ' + f.qualname)
    cutoff = cands[0]
    init = prog.resolve_method(f.cls, '__init__') if f.cls is not None else None
    attrs = []
    if init is not None:
        for n in ast.walk(init.node):
            if isinstance(n, ast.Attribute) and isinstance(n.ctx, ast.Store) and isinstance(n.value, ast.Name) and n.value.id == 'self':
                attrs.append(n.attr)
    # defaults kept at class level count as well
    class_level = []
    for ci_ in (f.cls.mro if f.cls is not None else []):
        for st_ in ci_.node.body:
            if isinstance(st_, ast.Assign) and len(st_.targets) == 1 and isinstance(st_.targets[0], ast.Name):
                class_level.append((ci_, st_))
                attrs.append(st_.targets[0].id)
    attrs = list(dict.fromkeys(attrs))
    dattr = [a for a in attrs if 'cutoff' in a.lower()]
    sattr = [a for a in attrs if 'upress' in a.lower()]
    if len(dattr) != 1 or len(sattr) != 1:
        raise AnalysisError('C16.R3: cannot identify the default cutoff / suppression attributes (%s / %s)' % (dattr, sattr))
    # "all points when there is no cutoff": a model nobody gave a cutoff starts without one, and with the k=0 point shown
    for n in ast.walk(init.node):
        if isinstance(n, ast.Assign) and len(n.targets) == 1 and isinstance(n.targets[0], ast.Attribute) and \
                isinstance(n.targets[0].value, ast.Name) and n.targets[0].value.id == 'self' and n.targets[0].attr in (dattr[0], sattr[0]):
            want = None if n.targets[0].attr == dattr[0] else False
            okd = isinstance(n.value, ast.Constant) and n.value.value is want
            check.saw(init)
            check.ob('C16.R3', '%s::starts-without(%s)' % (init.key, n.targets[0].attr), okd, '%s:%d' % (init.module.rel, n.lineno),
                     'a new model has %s = %r' % (n.targets[0].attr, want) if okd else
                     'a new model starts with %s = `%s`: retrievals are cut / shifted although no cutoff or suppression was asked for'
                     % (n.targets[0].attr, unparse(n.value)), 'a model solved over more periods than that default, read with GetTimeSeries(name)')
    # the groups of series are different results: two group names never select the same holder
    chosen = {}
    for n in ast.walk(f.node):
        if isinstance(n, ast.If) and isinstance(n.test, ast.Compare) and len(n.test.ops) == 1 and isinstance(n.test.ops[0], ast.Eq) and \
                isinstance(n.test.left, ast.Name) and n.test.left.id in params and isinstance(n.test.comparators[0], ast.Constant) and \
                isinstance(n.test.comparators[0].value, str):
            for st_ in n.body:
                if isinstance(st_, ast.Assign) and len(st_.targets) == 1 and isinstance(st_.targets[0], ast.Name) and \
                        isinstance(st_.value, ast.Attribute) and st_.value.attr.startswith('TimeSeries'):
                    chosen.setdefault(n.test.comparators[0].value, []).append((st_.value.attr, st_.lineno))
    if len(chosen) >= 2:
        by_attr = {}
        for lit_, lst_ in chosen.items():
            for a_, ln_ in lst_:
                by_attr.setdefault(a_, []).append((lit_, ln_))
        for a_, users in sorted(by_attr.items()):
            lits_ = sorted({u[0] for u in users})
            check.ob('C16.R3', '%s::group-selects-its-own-holder(%s)' % (f.key, a_), len(lits_) == 1, '%s:%d' % (f.module.rel, users[0][1]),
                     'holder %s is what group %r returns' % (a_, lits_[0]) if len(lits_) == 1 else
                     'groups %s all return the series stored in %s: one of them does not return its own stored results' % (lits_, a_),
                     "GetTimeSeries(name, group_of_series=...) for each group after a solve with a step trace and an initial steady state")
    for ci_, st_ in class_level:
        if st_.targets[0].id in (dattr[0], sattr[0]):
            want = None if st_.targets[0].id == dattr[0] else False
            okd = isinstance(st_.value, ast.Constant) and st_.value.value is want
            check.ob('C16.R3', '%s::%s::starts-without(%s)' % (ci_.module.rel, ci_.name, st_.targets[0].id), okd, '%s:%d' % (ci_.module.rel, st_.lineno),
                     'a new model has %s = %r' % (st_.targets[0].id, want) if okd else
                     'a new model starts with %s = `%s`: retrievals are cut / shifted although no cutoff or suppression was asked for'
                     % (st_.targets[0].id, unparse(st_.value)), 'a model solved over more periods than that default, read with GetTimeSeries(name)')
    ev = Evaluator(f.node, cutoff, dattr[0], sattr[0])
    try:
        rets = ev.run(params)
    except TooManyPaths:
        raise AnalysisError('C16.R3: more than the bounded number of paths through ' + f.qualname)
    bad = {'default-cutoff': [], 'window': [], 'suppress-time-zero': [], 'suppress-polarity': [], 'evaluable': []}

    def say(assum):
        names = {'C': cutoff, 'D': 'self.' + dattr[0], 'S': 'self.' + sattr[0]}
        return ', '.join('%s %s' % (names[k], {'none': 'is None', 'some': 'is a number', 'zero': 'is 0', True: 'set', False: 'not set'}[v])
                         for k, v in sorted(assum.items()))
    for v, w, assum, line in rets:
        where = '%s:%d' % (f.module.rel, line)
        if w is None or w[0] == '?':
            bad['evaluable'].append((where, 'the value returned when %s is not a window of the stored series the analysis can follow' % (say(assum) or 'always')))
            continue
        exp, why = expected_window(assum)
        lo, hi = w
        c = assum.get('C')
        if c is not None:
            want_hi = None
            if c != 'none':
                want_hi = {'C': 1, '': 1}
                if not lin_same(hi, want_hi):
                    bad['window'].append((where, 'with %s the points returned end at %s, required %s+1' % (say(assum), lin_text(hi).replace('C', cutoff), cutoff)))
            elif assum.get('D') is not None:
                want_hi = None if assum['D'] == 'none' else {'D': 1, '': 1}
                if not lin_same(hi, want_hi):
                    bad['default-cutoff'].append((where, 'with %s the points returned end at %s, required %s' % (
                        say(assum), lin_text(hi).replace('D', 'self.' + dattr[0]), lin_text(want_hi).replace('D', 'self.' + dattr[0]))))
            else:
                bad['default-cutoff'].append((where, why))
        else:
            bad['evaluable'].append((where, why))
        if 'S' in assum:
            if assum['S'] and lo != 1:
                bad['suppress-time-zero'].append((where, 'with %s the result starts at point %s, required 1' % (say(assum), lo)))
            if not assum['S'] and lo != 0:
                bad['suppress-polarity'].append((where, 'with %s the result starts at point %s, required 0' % (say(assum), lo)))
        else:
            bad['evaluable'].append((where, why or 'the path never consults the time-zero suppression flag'))
    good = {'default-cutoff': 'without an argument the model default bounds the window (all points when that is None too)',
            'window': 'with a cutoff the result is stored[..cutoff+1] on every path',
            'suppress-time-zero': 'with the flag set every path drops exactly the k=0 point',
            'suppress-polarity': 'with the flag not set every path keeps the k=0 point',
            'evaluable': 'every returning path settles cutoff, default and flag and returns a window of the stored series'}
    wit = {'default-cutoff': 'Model.TimeSeriesCutoff set, GetTimeSeries called without cutoff',
           'window': 'any cutoff: caller receives cutoff+1 points k=0..cutoff',
           'suppress-time-zero': 'suppression flag on: result must be points 1..cutoff',
           'suppress-polarity': 'suppression flag off: k=0 point must be kept',
           'evaluable': 'a call taking that path'}
    for k in ('default-cutoff', 'window', 'suppress-time-zero', 'suppress-polarity', 'evaluable'):
        b = bad[k]
        check.ob('C16.R3', f.key + '::' + k, not b, b[0][0] if b else f.where,
                 good[k] if not b else '; '.join(sorted({x[1] for x in b}))[:600], wit[k])
    bounded = [r for r in rets if r[1] is not None and r[1][1] is not None and r[1][0] != '?']
    check.ob('C16.R3', f.key + '::window-present', bool(bounded), f.where,
             '%d of %d returning paths are bounded by a cutoff' % (len(bounded), len(rets)) if bounded else
             'the cutoff never bounds the result: it is ignored', 'cutoff smaller than the horizon')
    consulted = [r for r in rets if 'S' in r[2]]
    check.ob('C16.R3', f.key + '::suppress-present', bool(consulted), f.where,
             'the suppression flag is consulted' if consulted else 'suppression flag is never consulted', 'suppression flag on')
    check.note('C16.R3 %s: %d returning paths evaluated symbolically' % (f.qualname, len(rets)))


def run(prog, check):
    check.explanation = EXPLANATION
    check.not_decided = 'nothing material: the property is structural (values themselves are not inspected)'
    check.assumptions = ['callees not defined in the package (builtins, str/dict methods) return fresh values',
                         'elements of series lists are immutable numbers']
    acc = discover_accessors(prog)
    if not acc['series']:
        raise AnalysisError('no series accessor found (a Model method reading .TimeSeries and returning a value)')
    if len(acc['renderer']) < 2:
        raise AnalysisError('expected at least two tab-delimited renderers, found %d' % len(acc['renderer']))
    summ = Summaries(prog)
    n = 0
    for role in ('series', 'renderer', 'wrapper', 'helper'):
        for f in acc[role]:
            check_accessor(prog, check, f, role, summ)
            n += 1
    for f in acc['series']:
        check_window(prog, check, f)
    check.note('accessors: ' + ', '.join('%s=%s' % (r, [f.qualname for f in fs]) for r, fs in sorted(acc.items())))
    check.floor('C16.R1', 5)
    check.floor('C16.R2', 4)
    check.floor('C16.R3', 6)
    # liveness control: the analysis must flag the textbook aliasing accessor
    check.control('alias-escape control fires', _control())


CONTROL_SRC = '''
class Holder(object):
    def Get(self, name):
        val = self.Store[name]
        if self.Flag:
            val.pop(0)
        return val
'''


def _control():
    tree = ast.parse(CONTROL_SRC)
    fn = tree.body[0].body[0]
    g = cfgmod.CFG(fn)
    aa = AliasAnalysis(g, fn)
    esc = any(ALIAS in aa.tags(n.ast.value, n) for n in g.stmt_nodes(lambda n: isinstance(n.ast, ast.Return)))
    mut = False
    for n in g.stmt_nodes():
        for ex in own_exprs(n):
            for kind, recv, _ in mutations_in(ex):
                if ALIAS in aa.tags(recv, n):
                    mut = True
    return esc and mut
