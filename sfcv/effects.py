"""E4 - effect extraction: a structured abstract interpretation of constructors, `_GenerateEquations` overrides,
Model-level booking and the FX primitives.  Produces, per unit, a list of DSL effects whose receivers are roles,
whose string arguments are templates (strdom) and which carry their guard stack and loop nest.  Loops are not
unrolled (body interpreted once per collection part); helper methods are inlined with parameter binding."""
import ast

from .inline import flatten as _flatten_plain, sink_search_tails


def flatten(prog, fi):
    """helpers inlined, and the continuation of a sentinel search moved to the hit (both exact, see inline.py)"""
    cache = prog.__dict__.setdefault('_flat_sunk_cache', {})
    key = (fi.key, id(fi.node))
    if key not in cache:
        cache[key] = sink_search_tails(_flatten_plain(prog, fi))
    return cache[key]

from .loader import AnalysisError, unparse, call_name, attr_chain
from .strdom import (Val, Role, Coll, Cond, Guard, Hole, Str, Num, Tup, ListVal, EqObj, Opaque, Const, Phi,
                     SELF, MODEL, EXTSECTOR, NONE, TRUE, FALSE, ext, lit, hole)

MAX_DEPTH = 9
EXT_CLASSES = {'FX': 'ForexTransations', 'XR': 'ExchangeRates', 'GOLD': 'InternationalGold'}
IGNORED_CALLS = {'Logger', '_AddSector', '_AddCountry', 'print', 'RegisterCurrency', '_RegisterAlias'}


def ignored_calls(prog):
    """calls without an effect on the equations: logging, the bookkeeping of object lists, and - by role - the Model method(s)
    that record a placeholder in self.Aliases (called `_RegisterAlias` today)"""
    cached = getattr(prog, '_ignored_calls', None)
    if cached is None:
        cached = set(IGNORED_CALLS)
        M = prog.classes.get('Model')
        for mf in (M.methods.values() if M is not None else []):
            if any(isinstance(a_, ast.Assign) and any(isinstance(t_, ast.Subscript) and isinstance(t_.value, ast.Attribute) and
                                                      t_.value.attr == 'Aliases' for t_ in a_.targets) for a_ in ast.walk(mf.node)):
                cached.add(mf.name)
        prog._ignored_calls = cached
    return cached


class P(Val):
    """a value of unknown type (constructor / unit parameter, loop element component): adapts to its use"""

    def __init__(self, kind, name, idx=None):
        self.kind = kind      # 'param' | 'elem'
        self.name = name
        self.idx = idx

    def key(self):
        return ('P', self.kind, self.name, self.idx)

    def show(self):
        return '$%s%s' % (self.name, '' if self.idx is None else '[%s]' % self.idx)

    def as_str(self):
        if self.kind == 'param':
            return hole('param', self.name)
        if self.kind == 'carried':
            return hole('opaque', 'loop-carried ' + self.name)
        return hole('elem', self.name, self.idx)

    def as_role(self):
        if self.kind == 'param':
            return Role('param', self.name)
        if self.kind == 'carried':
            return Role('carried', self.name)
        return Role('loop', self.name, self.idx)

    def as_coll(self):
        return Coll('param', self.name) if self.kind == 'param' else Coll('elem', self.name, self.idx)


class CondVal(Val):
    """a boolean computed from an (undecided) condition, e.g. `is_cross = a.Zone != b.Zone`"""

    def __init__(self, guard):
        self.guard = guard

    def key(self):
        return ('condval',) + self.guard.key()

    def show(self):
        return repr(self.guard)


class IdOf(Val):
    """the identity number of an object (only ever compared)"""

    def __init__(self, role):
        self.role = role

    def key(self):
        return ('idof', self.role.key())

    def show(self):
        return 'ID(%s)' % self.role.show()


class FlagVal(Val):
    """a boolean attribute of another object (HasF, IsTaxable)"""

    def __init__(self, role, attr):
        self.role = role
        self.attr = attr

    def key(self):
        return ('flag', self.role.key(), self.attr)

    def show(self):
        return '%s.%s' % (self.role.show(), self.attr)


class Effect(object):
    def __init__(self, kind, **kw):
        self.kind = kind
        self.role = kw.get('role')
        self.name = kw.get('name')
        self.rhs = kw.get('rhs')
        self.mode = kw.get('mode')
        self.term = kw.get('term')
        self.income = kw.get('income')
        self.args = kw.get('args', ())
        self.guards = tuple(kw.get('guards', ()))
        self.loops = tuple(kw.get('loops', ()))
        self.where = kw.get('where', '')
        self.unit = kw.get('unit', '')
        self.phase = kw.get('phase', '')
        self.via = kw.get('via', ())
        self.desc = kw.get('desc')

    def show(self):
        g = ' if ' + ' and '.join(repr(x) for x in self.guards) if self.guards else ''
        lp = ' for ' + ', '.join(l[0] for l in self.loops) if self.loops else ''
        if self.kind == 'def':
            core = 'Def(%s, %s := %s, %s)' % (self.role.show(), self.name.show(), self.rhs.show() if self.rhs is not None else None, self.mode)
        elif self.kind == 'cashflow':
            core = 'CashFlow(%s, %s, eqn=%s, income=%s)' % (self.role.show(), self.term.show(),
                                                            self.rhs.show() if isinstance(self.rhs, Val) else self.rhs,
                                                            self.income.show() if isinstance(self.income, Val) else self.income)
        elif self.kind == 'blockterm':
            core = 'BlockTerm(%s[%s] += %s)' % (self.role.show(), self.name.show(), self.term.show())
        else:
            core = '%s(%s)' % (self.kind, ', '.join(a.show() if isinstance(a, Val) else str(a) for a in self.args))
        return core + lp + g

    def key(self):
        return (self.kind, self.role.key() if self.role else None, self.name.key() if self.name else None,
                self.rhs.key() if isinstance(self.rhs, Val) else None, self.mode,
                self.term.key() if self.term else None, tuple(g.key() for g in self.guards), tuple(l[0] for l in self.loops))


class Abrupt(Exception):
    pass


class Frame(object):
    def __init__(self, func, env, self_role, self_cls, depth, via):
        self.func = func
        self.env = env
        self.self_role = self_role
        self.self_cls = self_cls
        self.depth = depth
        self.via = via
        self.returns = []          # (guards, value)


NORMAL, CONT, BREAK, RET, RAISE = 'normal', 'continue', 'break', 'return', 'raise'


class Interp(object):
    def __init__(self, prog, unit_name, phase):
        self.prog = prog
        self.unit = unit_name
        self.phase = phase
        self.effects = []
        self.guards = []
        self.loops = []            # (collkey string, Coll, extra)
        self.fields = {}           # fields of Self: name -> value
        self.field_origin = {}     # name -> 'ctor' ...
        self.notes = []
        self.opaque_uses = []
        self.breaks = []           # (loopkey, guards, where, selects the element)
        self.loop_serial = 0

    # ---- helpers ---------------------------------------------------------------------------------------
    def emit(self, kind, node, frame, **kw):
        kw.setdefault('guards', list(self.guards))
        kw.setdefault('loops', list(self.loops))
        kw['where'] = '%s:%d' % (frame.func.module.rel, getattr(node, 'lineno', 0))
        kw['unit'] = self.unit
        kw['phase'] = self.phase
        kw['via'] = frame.via
        e = Effect(kind, **kw)
        self.effects.append(e)
        return e

    def to_str(self, v, node=None):
        if isinstance(v, Str):
            return v
        if isinstance(v, P):
            return v.as_str()
        if isinstance(v, Num):
            return Str([Hole('num', v.text, 's', None)])
        if isinstance(v, Phi):
            a, b = self.to_str(v.a), self.to_str(v.b)
            if a == b:
                return a
            return Str([Hole('phi', v.guard.cond if v.guard.pol else Cond('not', v.guard.cond), a, b)])
        if isinstance(v, Const):
            return lit(str(v.value))
        if isinstance(v, EqObj):
            return v.rhs()
        if isinstance(v, Role):
            return Str([Hole('opaque', 'str(%s)' % v.show())])
        if isinstance(v, Opaque):
            return Str([Hole('opaque', v.text)])
        return Str([Hole('opaque', v.show() if isinstance(v, Val) else repr(v))])

    def to_role(self, v):
        if isinstance(v, Role):
            return v
        if isinstance(v, P):
            return v.as_role()
        if isinstance(v, Phi):
            a, b = self.to_role(v.a), self.to_role(v.b)
            return a if a == b else Role('phi', v.guard.cond, a, b)
        if isinstance(v, Const) and v.value is None:
            return Role('none')
        return Role('opaque', v.show() if isinstance(v, Val) else repr(v))

    def role_class(self, role, frame):
        if role.kind == 'self':
            return frame.self_cls if frame.self_role.kind == 'self' else None
        if role is frame.self_role or role == frame.self_role:
            return frame.self_cls
        if role.kind == 'ext':
            return self.prog.classes.get(EXT_CLASSES.get(role.args[0], ''))
        if role.kind == 'extsector':
            return self.prog.classes.get('ExternalSector')
        if role.kind == 'model':
            return self.prog.classes.get('Model')
        if role.cls:
            return self.prog.classes.get(role.cls)
        return None

    # ---- expressions -----------------------------------------------------------------------------------
    def ev(self, e, fr):
        m = getattr(self, 'ev_' + type(e).__name__, None)
        if m is None:
            return Opaque(unparse(e))
        return m(e, fr)

    def ev_Constant(self, e, fr):
        v = e.value
        if isinstance(v, str):
            return lit(v)
        if isinstance(v, bool) or v is None:
            return Const(v)
        if isinstance(v, (int, float)):
            return Num(repr(v), v)
        return Opaque(repr(v))

    def ev_Name(self, e, fr):
        if e.id in fr.env:
            v = fr.env[e.id]
            # a value chosen by an earlier test, read where the outcome of that test is a fact: the branch's value
            while isinstance(v, Phi) and isinstance(v.guard, Guard) and self.guards:
                keys = {g.key() for g in self.guards if isinstance(g, Guard)}
                if v.guard.key() in keys:
                    v = v.a
                elif v.guard.neg().key() in keys:
                    v = v.b
                else:
                    break
            return v
        if e.id == 'self':
            return fr.self_role
        if e.id in ('True', 'False', 'None'):
            return Const({'True': True, 'False': False, 'None': None}[e.id])
        if e.id in self.prog.classes:
            return Opaque('class:' + e.id)
        return Opaque('name:' + e.id)

    def ev_JoinedStr(self, e, fr):
        parts = []
        for v in e.values:
            if isinstance(v, ast.Constant):
                parts.append(v.value)
            else:
                spec = None
                if v.format_spec is not None:
                    spec = ''.join(x.value for x in v.format_spec.values if isinstance(x, ast.Constant))
                parts.append(self.fmt_value(self.ev(v.value, fr), spec, 'r' if v.conversion == 114 else None))
        return Str(parts)

    def fmt_value(self, val, spec, conv=None):
        """value inserted into a format hole with an optional spec like '0.4f'"""
        if isinstance(val, (Num,)) or (isinstance(val, P) and spec) or (isinstance(val, Opaque) and spec):
            text = val.text if isinstance(val, (Num, Opaque)) else val.show()
            c, prec = parse_spec(spec, conv)
            return Str([Hole('num', text, c, prec)])
        if isinstance(val, Tup) and len(val.items) == 1:
            return self.fmt_value(val.items[0], spec, conv)
        if spec and parse_spec(spec, conv)[0] in 'feEgGd':
            c, prec = parse_spec(spec, conv)
            return Str([Hole('num', val.show() if isinstance(val, Val) else repr(val), c, prec)])
        return self.to_str(val)

    def ev_Tuple(self, e, fr):
        return Tup([self.ev(x, fr) for x in e.elts])

    def ev_List(self, e, fr):
        return ListVal([('item', self.ev(x, fr)) for x in e.elts])

    def ev_Dict(self, e, fr):
        return Opaque(unparse(e))

    def ev_IfExp(self, e, fr):
        c = self.cond(e.test, fr)
        if c is True:
            return self.ev(e.body, fr)
        if c is False:
            return self.ev(e.orelse, fr)
        return Phi(c, self.ev(e.body, fr), self.ev(e.orelse, fr))

    def ev_UnaryOp(self, e, fr):
        v = self.ev(e.operand, fr)
        if isinstance(e.op, ast.USub) and isinstance(v, Num):
            return Num('-(%s)' % v.text, -v.const if v.const is not None else None)
        if isinstance(e.op, ast.Not):
            c = self.cond(e, fr)
            return Const(c) if isinstance(c, bool) else CondVal(c)
        return Opaque(unparse(e))

    def ev_BinOp(self, e, fr):
        a, b = self.ev(e.left, fr), self.ev(e.right, fr)
        if isinstance(e.op, ast.Add):
            if isinstance(a, (Str,)) or isinstance(b, (Str,)):
                return self.to_str(a) + self.to_str(b)
            if isinstance(a, ListVal) and isinstance(b, ListVal):
                return ListVal(a.items + b.items, a.base or b.base)
            if isinstance(a, (Num, P)) and isinstance(b, (Num, P)):
                return self.num_op(a, b, '+')
        if isinstance(e.op, ast.Mod) and isinstance(a, Str):
            return self.percent_format(a, b)
        if isinstance(e.op, (ast.Sub, ast.Mult, ast.Div)) and isinstance(a, (Num, P, Opaque)) and isinstance(b, (Num, P, Opaque)):
            return self.num_op(a, b, {ast.Sub: '-', ast.Mult: '*', ast.Div: '/'}[type(e.op)])
        if isinstance(e.op, ast.Mult) and isinstance(a, Str) and isinstance(b, Num):
            return Str([Hole('opaque', unparse(e))])
        return Opaque(unparse(e))

    def num_op(self, a, b, op):
        ta = a.text if isinstance(a, (Num, Opaque)) else a.show()
        tb = b.text if isinstance(b, (Num, Opaque)) else b.show()
        const = None
        if isinstance(a, Num) and isinstance(b, Num) and a.const is not None and b.const is not None:
            try:
                const = {'+': a.const + b.const, '-': a.const - b.const, '*': a.const * b.const,
                         '/': a.const / b.const if b.const else None}[op]
            except Exception:
                const = None
        return Num('(%s %s %s)' % (ta, op, tb), const)

    def percent_format(self, fmt, arg):
        """'..%0.4f..%s' % (a, b) with a literal format"""
        if not fmt.is_literal():
            return Str([Hole('opaque', 'percent-format of a computed format')])
        s = fmt.literal()
        args = list(arg.items) if isinstance(arg, Tup) else [arg]
        import re
        out, pos, i = [], 0, 0
        for m in re.finditer(r'%(?:\(\w+\))?([#0\- +]*\d*(?:\.\d+)?)([sdrfeEgGi%])', s):
            out.append(s[pos:m.start()])
            pos = m.end()
            if m.group(2) == '%':
                out.append('%')
                continue
            if i >= len(args):
                out.append(Hole('opaque', 'missing format argument'))
                continue
            out.append(self.fmt_value(args[i], m.group(1) + m.group(2)))
            i += 1
        out.append(s[pos:])
        return Str(out)

    def str_format(self, fmt, args, kwargs):
        if not fmt.is_literal():
            return Str([Hole('opaque', 'format of a computed format')])
        s = fmt.literal()
        import re
        out, pos, auto = [], 0, 0
        for m in re.finditer(r'\{\{|\}\}|\{([^{}!:]*)(?:!([rsa]))?(?::([^{}]*))?\}', s):
            out.append(s[pos:m.start()])
            pos = m.end()
            if m.group(0) == '{{':
                out.append('{')
                continue
            if m.group(0) == '}}':
                out.append('}')
                continue
            fld = m.group(1)
            if fld == '':
                val = args[auto] if auto < len(args) else Opaque('missing')
                auto += 1
            elif fld.isdigit():
                val = args[int(fld)] if int(fld) < len(args) else Opaque('missing')
            else:
                val = kwargs.get(fld, Opaque('missing ' + fld))
            out.append(self.fmt_value(val, m.group(3), m.group(2)))
        out.append(s[pos:])
        return Str(out)

    def ev_Attribute(self, e, fr):
        if isinstance(e.value, ast.Name) and e.value.id == 'self' and ('self.' + e.attr) in fr.env:
            return fr.env['self.' + e.attr]          # a field list this function has appended to (see `rebind`)
        base = self.ev(e.value, fr)
        a = e.attr
        if isinstance(base, P):
            base = base.as_role()
        if isinstance(base, Phi) and isinstance(base.a, (Role, P)) and isinstance(base.b, (Role, P)):
            base = self.to_role(base)
        if isinstance(base, Role):
            return self.role_attr(base, a, fr)
        if isinstance(base, Coll) and base.kind in ('zone',):
            pass
        if isinstance(base, Opaque):
            return Opaque(base.text + '.' + a)
        return Opaque(unparse(e))

    def role_attr(self, role, a, fr):
        if a == 'Code':
            if role.kind == 'self' and 'Code' in self.fields and self.phase != 'prim':
                return self.fields['Code']
            return hole('code', role)
        if a == 'FullCode':
            return hole('fullcode', role)
        if a == 'LongName':
            return hole('attr', role, 'LongName')
        if a == 'ID':
            return IdOf(role)
        if a == 'Currency':
            # Country.Currency / CurrencyZone.Currency
            inner = role.args[0] if role.kind in ('zone', 'parent') and role.args else role
            return hole('currency', inner)
        if a == 'CurrencyZone':
            return Role('zone', role)
        if a == 'Parent':
            if role.kind == 'ext':
                return EXTSECTOR
            return Role('parent', role)
        if a == 'SearchListSource':
            if role == fr.self_role and 'SearchListSource' in self.fields:
                return self.fields['SearchListSource']
            return Role('zone', role)
        if a == 'ExternalSector':
            return EXTSECTOR
        if a in ('EquationBlock',):
            return Opaque('block:' + role.show(), role=role)
        if a in ('SectorList',):
            inner = role.args[0] if role.kind == 'parent' else role
            return Coll('country_sectors', inner)
        if a in ('HasF', 'IsTaxable'):
            if (role == fr.self_role or role.kind == 'self') and a in self.fields and isinstance(self.fields[a], Const):
                return self.fields[a]
            return FlagVal(role, a)
        if a == 'RegisteredCashFlows':
            return Coll('registered_flows')
        if a == 'IncomeExclusions':
            return Coll('exclusions')
        if a == 'CurrencyZoneList':
            return Coll('zones')
        if role == fr.self_role or role.kind == 'self':
            if a in self.fields:
                v = self.fields[a]
                if isinstance(v, Const) and v.value is None:
                    return Role('field', a)
                if isinstance(v, ListVal) and not v.items:
                    return Coll('field', a)
                return v
            return P('param', 'self.' + a)
        return Opaque('%s.%s' % (role.show(), a))

    def ev_Subscript(self, e, fr):
        base = self.ev(e.value, fr)
        if isinstance(e.slice, ast.Slice):
            if isinstance(base, Str):
                lo = e.slice.lower
                if lo is not None and isinstance(lo, ast.Constant) and lo.value == 1 and e.slice.upper is None and \
                        base.parts and isinstance(base.parts[0], str) and len(base.parts[0]) >= 1:
                    return Str((base.parts[0][1:],) + base.parts[1:])
            return Opaque(unparse(e))
        idx = self.ev(e.slice, fr)
        if isinstance(base, Role) and base.kind == 'extsector' and isinstance(idx, Str) and idx.is_literal():
            return ext(idx.literal())
        if isinstance(base, Role) and base.kind == 'parent' and isinstance(idx, Str) and idx.is_literal() and \
                base.args and base.args[0].kind == 'ext':
            return ext(idx.literal())
        if isinstance(base, Role) and isinstance(idx, Str):
            # country['CODE'] : sector lookup by code within a country-like role
            return Role('lookup', 'country', base.args[0] if base.kind == 'parent' and base.args else base, idx)
        if isinstance(base, Tup) and isinstance(idx, Num) and idx.const is not None:
            return base.items[int(idx.const)]
        if isinstance(base, Opaque) and base.text.startswith('block:'):
            return Opaque('eq:%s:%s' % (base.text[6:], self.to_str(idx).show()), role=base.role, name=self.to_str(idx))
        return Opaque(unparse(e))

    def ev_Compare(self, e, fr):
        c = self.cond(e, fr)
        if isinstance(c, bool):
            return Const(c)
        return CondVal(c)

    def ev_BoolOp(self, e, fr):
        c = self.cond(e, fr)
        if isinstance(c, bool):
            return Const(c)
        return CondVal(c)

    def ev_Call(self, e, fr):
        return self.call(e, fr)

    # ---- conditions ------------------------------------------------------------------------------------
    def cond(self, e, fr):
        """-> True / False (decided) or a Guard"""
        if isinstance(e, ast.UnaryOp) and isinstance(e.op, ast.Not):
            c = self.cond(e.operand, fr)
            if isinstance(c, bool):
                return not c
            return c.neg()
        if isinstance(e, ast.BoolOp):
            vals = [self.cond(v, fr) for v in e.values]
            if isinstance(e.op, ast.And):
                if any(v is False for v in vals):
                    return False
                rest = [v for v in vals if v is not True]
                if not rest:
                    return True
                if len(rest) == 1:
                    return rest[0]
                return Guard(Cond('and', *[Cond('g', r.cond, r.pol) for r in rest]))
            if any(v is True for v in vals):
                return True
            rest = [v for v in vals if v is not False]
            if not rest:
                return False
            if len(rest) == 1:
                return rest[0]
            return Guard(Cond('or', *[Cond('g', r.cond, r.pol) for r in rest]))
        if isinstance(e, ast.Compare) and len(e.ops) == 1:
            return self.compare(e, fr)
        if isinstance(e, ast.Call):
            nm = call_name(e)
            if nm == 'isinstance' and len(e.args) == 2:
                r = self.to_role(self.ev(e.args[0], fr))
                return Guard(Cond('isinstance', r, unparse(e.args[1])))
            if nm in ('ShareParent', 'IsSharedCurrencyZone') and isinstance(e.func, ast.Attribute):
                a = self.to_role(self.ev(e.func.value, fr))
                b = self.to_role(self.ev(e.args[0], fr))
                return Guard(Cond('shareparent' if nm == 'ShareParent' else 'samezone', a, b))
            if nm == 'is_local_variable' and e.args:
                s = self.to_str(self.ev(e.args[0], fr))
                hs = s.holes()
                if len(s.parts) == 1 and hs and hs[0].kind == 'fullname':
                    return False
                if not any(h.kind in ('fullname', 'opaque', 'elem') for h in hs) and '__' not in ''.join(p for p in s.parts if isinstance(p, str)):
                    return True
                return Guard(Cond('islocal', s))
            v = self.ev(e, fr)
            return self.truth(v, e)
        v = self.ev(e, fr)
        return self.truth(v, e)

    def truth(self, v, e):
        if isinstance(v, Const):
            return bool(v.value)
        if isinstance(v, CondVal):
            return v.guard
        if isinstance(v, Str) and v.is_literal():
            return bool(v.literal())
        if isinstance(v, Num) and v.const is not None:
            return bool(v.const)
        if isinstance(v, FlagVal):
            return Guard(Cond('attr', v.role, v.attr))
        if isinstance(v, P):
            return Guard(Cond('truthy', v))
        if isinstance(v, Phi) and isinstance(v.guard, Guard):
            # a flag set differently by the two outcomes of an earlier test is that test
            ta, tb = self.truth(v.a, e), self.truth(v.b, e)
            if isinstance(ta, bool) and isinstance(tb, bool):
                if ta == tb:
                    return ta
                return v.guard if ta else v.guard.neg()
        return Guard(Cond('opaque', unparse(e)))

    def compare(self, e, fr):
        op = e.ops[0]
        L, R = e.left, e.comparators[0]
        # membership in an equation block  ->  present(role, name)
        if isinstance(op, (ast.In, ast.NotIn)):
            blk = self.block_role(R, fr)
            if blk is not None:
                name = self.to_str(self.ev(L, fr))
                g = Guard(Cond('present', blk, name))
                return g if isinstance(op, ast.In) else g.neg()
            a = self.ev(L, fr)
            b = self.ev(R, fr)
            if isinstance(a, Str) and a.is_literal() and isinstance(b, Tup) and all(isinstance(x, Str) and x.is_literal() for x in b.items):
                r = a.literal() in [x.literal() for x in b.items]
                return r if isinstance(op, ast.In) else not r
            if isinstance(a, Str) and isinstance(b, Str) and a.is_literal() and b.is_literal():
                r = a.literal() in b.literal()
                return r if isinstance(op, ast.In) else not r
            if isinstance(a, Str) and a.is_literal() and isinstance(b, Str):
                # '__' in <template>: decidable when a fullname hole is present / when the template has no such literal
                if a.literal() == '__':
                    if any(h.kind == 'fullname' for h in b.holes()):
                        return isinstance(op, ast.In)
            g = Guard(Cond('in', self.as_key(a), self.as_key(b)))
            return g if isinstance(op, ast.In) else g.neg()
        if isinstance(L, ast.Call) and call_name(L) == 'type' and isinstance(L.func, ast.Name) and isinstance(R, ast.Name) and \
                isinstance(op, (ast.Is, ast.IsNot, ast.Eq, ast.NotEq)):
            v = self.ev(L.args[0], fr)
            pos = isinstance(op, (ast.Is, ast.Eq))
            if R.id == 'str':
                if isinstance(v, Str):
                    return pos
                if isinstance(v, (Role, Coll, Num, Tup, ListVal, EqObj)):
                    return not pos
            if R.id in ('Equation', 'Term'):
                if isinstance(v, EqObj):
                    return pos
                if isinstance(v, (Str, Num, P)):
                    return not pos
            if R.id in ('int', 'float') and isinstance(v, (Str, Role)):
                return not pos
        a = self.ev(L, fr)
        b = self.ev(R, fr)
        if isinstance(op, (ast.Is, ast.IsNot, ast.Eq, ast.NotEq)):
            pos = isinstance(op, (ast.Is, ast.Eq))
            # None tests
            if isinstance(b, Const) and b.value is None:
                if isinstance(a, Const):
                    return (a.value is None) == pos
                if isinstance(a, (Str, Num, Tup, ListVal, EqObj)):
                    return not pos
                if isinstance(a, Phi) and isinstance(a.guard, Guard):
                    # a value that is None on exactly one outcome of an earlier test: the None test is that test
                    def none_ness(v_):
                        if isinstance(v_, Const):
                            return v_.value is None
                        if isinstance(v_, (Str, Num, Tup, ListVal, EqObj)):
                            return False
                        return None
                    na, nb = none_ness(a.a), none_ness(a.b)
                    if na is not None and nb is not None:
                        if na == nb:
                            return na == pos
                        g = a.guard if na else a.guard.neg()
                        return g if pos else g.neg()
                g = Guard(Cond('isnone', self.as_key(a)))
                return g if pos else g.neg()
            if isinstance(a, Str) and isinstance(b, Str):
                if a.is_literal() and b.is_literal():
                    return (a.literal() == b.literal()) == pos
                if a == b:
                    return pos
                g = Guard(Cond('eq', a, b))
                return g if pos else g.neg()
            if isinstance(a, Const) and isinstance(b, Const):
                return (a.value == b.value) == pos
            if isinstance(a, Num) and isinstance(b, Num) and a.const is not None and b.const is not None:
                return (a.const == b.const) == pos
            if isinstance(a, (Num, P)) and isinstance(b, Num) and b.const == 0:
                g = Guard(Cond('numzero', a.text if isinstance(a, Num) else a.show()))
                return g if pos else g.neg()
            # identity of objects: s.ID == self.ID ; zone comparison
            ka, kb = self.as_key(a), self.as_key(b)
            if isinstance(a, IdOf) and isinstance(b, IdOf):
                if a.role.kind == 'zone' and b.role.kind == 'zone':
                    g = Guard(Cond('samezone', a.role.args[0], b.role.args[0]))
                else:
                    g = Guard(Cond('same', a.role, b.role))
                return g if pos else g.neg()
            if isinstance(a, Role) and isinstance(b, Role):
                if a.kind == 'zone' and b.kind == 'zone':
                    g = Guard(Cond('samezone', a.args[0], b.args[0]))
                elif a.kind == 'parent' and b.kind == 'parent':
                    g = Guard(Cond('shareparent', a.args[0], b.args[0]))
                else:
                    g = Guard(Cond('same', a, b))
                return g if pos else g.neg()
            if isinstance(a, Opaque) and a.text.startswith('type('):
                # type(x) == Equation etc. : decided by the abstract value where possible
                return Guard(Cond('opaque', unparse(e)))
            g = Guard(Cond('eq', ka, kb))
            return g if pos else g.neg()
        return Guard(Cond('opaque', unparse(e)))

    def as_key(self, v):
        return v if isinstance(v, Val) else Opaque(repr(v))

    def block_role(self, e, fr):
        """X.EquationBlock / X.EquationBlock.Equations / X.EquationBlock.GetEquationList() / X.GetVariables() -> role X"""
        node = e
        if isinstance(node, ast.Call) and call_name(node) in ('GetEquationList', 'GetVariables', 'keys'):
            if call_name(node) == 'GetVariables':
                return self.to_role(self.ev(node.func.value, fr))
            node = node.func.value
        if isinstance(node, ast.Attribute) and node.attr == 'Equations':
            node = node.value
        if isinstance(node, ast.Attribute) and node.attr == 'EquationBlock':
            return self.to_role(self.ev(node.value, fr))
        return None

    # ---- calls -----------------------------------------------------------------------------------------
    def call(self, e, fr):
        nm = call_name(e)
        f = e.func
        args = e.args
        kw = {k.arg: k.value for k in e.keywords if k.arg}

        def A(i, name=None, default=None):
            if i is not None and i < len(args):
                return self.ev(args[i], fr)
            if name in kw:
                return self.ev(kw[name], fr)
            return default
        if isinstance(f, ast.Name):
            if nm in ignored_calls(self.prog):
                return NONE
            if nm == 'str' or nm == 'repr':
                v = A(0)
                if isinstance(v, Num):
                    return Str([Hole('num', v.text, 'r' if nm == 'repr' else 's', None)])
                return self.to_str(v)
            if nm == 'float' or nm == 'int':
                v = A(0)
                return v if isinstance(v, Num) else Num('%s(%s)' % (nm, v.show() if isinstance(v, Val) else v))
            if nm == 'round':
                v = A(0)
                return Num('round(%s)' % (v.text if isinstance(v, Num) else v.show()))
            if nm == 'len':
                return Num('len(%s)' % unparse(args[0]))
            if nm == 'type':
                return Opaque('type(%s)' % unparse(args[0]))
            if nm in ('dict', 'list', 'tuple'):
                if not args:
                    return ListVal([]) if nm == 'list' else Opaque(nm + '()')
                return A(0)
            if nm == 'Equation':
                lhs = self.to_str(A(0, 'lhs'))
                rhs = A(2, 'rhs')
                eq = EqObj(lhs)
                if isinstance(rhs, (Str, P)):
                    s = self.to_str(rhs)
                    if not s.is_empty():
                        eq.lead = s
                elif isinstance(rhs, ListVal):
                    for it in rhs.items:
                        eq.terms.append(it if it[0] != 'item' else ('item', self.to_str(it[1])))
                return eq
            if nm == 'Term':
                return A(0)
            if nm in ('create_equation_from_terms',):
                return self.join_terms(A(0))
            if nm in ('LogicError', 'Warning', 'ValueError', 'KeyError', 'NotImplementedError', 'Exception'):
                return Opaque('exc:' + nm)
            if nm == 'is_local_variable':
                c = self.cond(e, fr)
                return Const(c) if isinstance(c, bool) else Opaque(unparse(e))
            # module-level function of the package
            defs = [d for d in self.prog.definitions_of(nm) if d.cls is None]
            if len(defs) == 1:
                return self.inline(defs[0], [A(i) for i in range(len(args))], {k: self.ev(v, fr) for k, v in kw.items()}, fr, None, None, e)
            return Opaque(unparse(e))
        if not isinstance(f, ast.Attribute):
            return Opaque(unparse(e))
        # utils.create_equation_from_terms(...)
        if nm == 'create_equation_from_terms':
            return self.join_terms(A(0))
        if nm == 'is_local_variable':
            c = self.cond(e, fr)
            return Const(c) if isinstance(c, bool) else Opaque(unparse(e))
        # explicit base-class call: Base.method(self, ...)
        if isinstance(f.value, ast.Name) and f.value.id in self.prog.classes and args and isinstance(args[0], ast.Name) and args[0].id == 'self':
            target = self.prog.resolve_method(f.value.id, nm)
            if target is not None:
                if self.is_intrinsic(nm) and target.cls.name in ('Sector', 'EconomicObject') and nm != '__init__':
                    return self.intrinsic(nm, fr.self_role, e, fr, skip_first=True)
                vals = [self.ev(a, fr) for a in args[1:]]
                return self.inline(target, vals, {k: self.ev(v, fr) for k, v in kw.items()}, fr, fr.self_role, fr.self_cls, e)
        recv = self.ev(f.value, fr)
        # string methods
        if isinstance(recv, (Str,)) or (isinstance(recv, P) and nm in ('strip', 'format', 'replace', 'lower', 'upper')):
            s = self.to_str(recv)
            if nm == 'format':
                return self.str_format(s, [A(i) for i in range(len(args))], {k: self.ev(v, fr) for k, v in kw.items()})
            if nm == 'strip':
                return s.strip()
            if nm == 'replace' and len(args) == 2:
                a0 = A(0)
                if isinstance(a0, Str) and a0.is_literal() and s.is_literal():
                    rep = self.to_str(A(1))
                    pieces = s.literal().split(a0.literal())
                    out = []
                    for i, pc in enumerate(pieces):
                        if i:
                            out.append(rep)
                        out.append(pc)
                    return Str(out)
                return Str([Hole('opaque', unparse(e))])
            if nm == 'join':
                return self.join_terms(A(0), sep=s)
            if nm in ('lower', 'upper'):
                return s
            if nm in ('startswith', 'endswith'):
                return Opaque(unparse(e))
            return Opaque(unparse(e))
        if isinstance(recv, EqObj):
            if nm == 'AddTerm':
                t = self.to_str(A(0))
                if self.loops and getattr(recv, '_born', 0) < len(self.loops):
                    recv.terms.append(('fold', self.loops[-1][0], tuple(self.guards[getattr(recv, '_gborn', 0):]), t))
                else:
                    recv.terms.append(('item', t))
                return NONE
            if nm in ('RHS', 'GetRightHandSide'):
                return recv.rhs()
        if isinstance(recv, ListVal) or isinstance(recv, Coll) and recv.kind == 'field':
            if nm == 'append':
                v = A(0)
                lst = recv if isinstance(recv, ListVal) else None
                if lst is None:
                    # appending to a field list: rebind the local alias to base ++ [v]
                    lst = ListVal([], base=recv)
                    self.rebind(f.value, lst, fr)
                born = getattr(lst, '_born', 0)
                if len(self.loops) > born:
                    lst.items.append(('fold', self.loops[-1][0], tuple(self.guards[getattr(lst, '_gborn', 0):]), v, self.loops[-1][1]))
                else:
                    lst.items.append(('item', v))
                return NONE
            if nm == 'items':
                return recv
            if nm in ('extend', 'insert', 'remove', 'pop', 'sort', 'reverse', 'clear', '__iadd__') and isinstance(recv, ListVal):
                # a change of the list this domain does not follow: whoever ranges over the list afterwards ranges over
                # something unknown as well (never silently over less)
                v = A(0) if nm == 'extend' else None
                if nm == 'extend' and isinstance(v, ListVal) and len(self.loops) <= getattr(recv, '_born', 0) and \
                        not any(it[0] == 'taint' for it in v.items):
                    recv.items.extend(v.items)
                else:
                    recv.items.append(('taint', unparse(e)[:80]))
                return NONE
        if nm == 'items' and isinstance(recv, (P, Phi, Opaque)):
            p = recv
            if isinstance(p, Phi):
                p = p.a if isinstance(p.a, P) else p.b
            name = p.name if isinstance(p, P) else unparse(f.value)
            return Coll('dict_items', name)
        if nm in ignored_calls(self.prog):
            return NONE
        role = None
        if isinstance(recv, (Role, P)):
            role = self.to_role(recv)
        elif isinstance(recv, Phi):
            role = self.to_role(recv)
        if role is not None:
            return self.method_call(role, nm, e, fr)
        if isinstance(recv, Opaque) and recv.text.startswith('eq:') and nm == 'AddTerm':
            self.emit('blockterm', e, fr, role=self.to_role(recv.role), name=recv.name, term=self.to_str(A(0)))
            return NONE
        if isinstance(recv, Opaque) and recv.text.startswith('eq:') and nm in ('RHS', 'GetRightHandSide'):
            return Str([Hole('rhsof', self.to_role(recv.role), recv.name)])
        if isinstance(recv, Coll):
            if nm == 'GetSectors':
                return recv
        return Opaque(unparse(e))

    def rebind(self, target, value, fr):
        if isinstance(target, ast.Name):
            fr.env[target.id] = value
        elif isinstance(target, ast.Attribute) and isinstance(target.value, ast.Name) and target.value.id == 'self':
            fr.env['self.' + target.attr] = value

    def join_terms(self, lst, sep=None):
        """create_equation_from_terms / ''.join : algebraic reading = sum of the items"""
        if isinstance(lst, ListVal):
            parts = []
            first = True
            septxt = ''
            if isinstance(sep, Str) and len(sep.parts) == 1 and isinstance(sep.parts[0], str):
                septxt = sep.parts[0].strip()
            minus = septxt == '-'
            for it in lst.items:
                if it[0] == 'taint':
                    parts.append(Str([Hole('opaque', it[1])]))
                    first = False
                    continue
                if it[0] == 'item':
                    s = self.to_str(it[1])
                    if first:
                        parts.append(s)
                    elif minus:
                        parts.append(lit('-') + s)
                    else:
                        parts.append(lit('+') + s if not (s.startswith_lit('+') or s.startswith_lit('-')) else s)
                else:
                    item = self.to_str(it[3])
                    if minus:
                        if first:
                            return Str([Hole('opaque', 'join(%s)' % lst.show())])
                        item = lit('-') + item
                    parts.append(Str([Hole('fold', it[1], item, tuple(it[2]))]))
                first = False
            return Str(parts)
        return Str([Hole('opaque', 'join(%s)' % (lst.show() if isinstance(lst, Val) else lst))])

    INTRINSICS = {'AddVariable', 'AddVariableFromEquation', 'SetEquationRightHandSide', 'AddTermToEquation', 'AddCashFlow',
                  'GetVariableName', 'SetExogenous', 'AddInitialCondition', 'GetVariables', 'GetModel', 'ShareParent',
                  'IsSharedCurrencyZone', 'RegisterCashFlow', 'AddCashFlowIncomeExclusion', 'LookupSector', 'GetSectors',
                  'AddGlobalEquation', 'AddExogenous', '_AddSector', '_AddCountry'}

    def is_intrinsic(self, nm):
        return nm in self.INTRINSICS

    def method_call(self, role, nm, e, fr):
        cls = self.role_class(role, fr)
        if self.is_intrinsic(nm):
            # an override in a known class (e.g. InternationalGold.GetVariableName) is interpreted, the base is intrinsic
            if cls is not None:
                m = self.prog.resolve_method(cls, nm)
                if m is not None and m.cls.name not in ('Sector', 'EconomicObject', 'Model', 'Country', 'CurrencyZone', 'Region') \
                        and nm in ('GetVariableName',):
                    vals = [self.ev(a, fr) for a in e.args]
                    return self.inline(m, vals, {}, fr, role, cls, e)
            return self.intrinsic(nm, role, e, fr)
        if cls is not None:
            m = self.prog.resolve_method(cls, nm)
            if m is not None:
                vals = [self.ev(a, fr) for a in e.args]
                kws = {k.arg: self.ev(k.value, fr) for k in e.keywords if k.arg}
                return self.inline(m, vals, kws, fr, role, cls, e)
        # method of an unknown class: resolve by unique name in the package (closed world for DSL helpers)
        defs = [d for d in self.prog.definitions_of(nm) if d.cls is not None]
        if nm in ('_SendMoney', '_ReceiveMoney', 'GetCrossRate', 'SetGoldPurchases', 'GetSupplierTerm', 'GetSectorCodeWithCountry',
                  'AddMarket', 'SetUpVariables'):
            pick = None
            for d in defs:
                if role.kind == 'extsector' and d.cls.name == 'ExternalSector':
                    pick = d
                if role.kind == 'ext' and d.cls.name == EXT_CLASSES.get(role.args[0]):
                    pick = d
            if pick is None and len(defs) == 1:
                pick = defs[0]
            if pick is None and nm == 'GetSectorCodeWithCountry':
                pick = [d for d in defs if d.cls.name == 'Model'][0] if any(d.cls.name == 'Model' for d in defs) else None
            if pick is not None:
                vals = [self.ev(a, fr) for a in e.args]
                kws = {k.arg: self.ev(k.value, fr) for k in e.keywords if k.arg}
                is_static = any(isinstance(d, ast.Name) and d.id == 'staticmethod' for d in pick.node.decorator_list)
                return self.inline(pick, vals, kws, fr, None if is_static else role, pick.cls, e, static=is_static)
        self.opaque_uses.append(('%s:%d' % (fr.func.module.rel, e.lineno), unparse(e)[:80]))
        return Opaque(unparse(e))

    EMITTING = ('AddVariable', 'AddVariableFromEquation', 'SetEquationRightHandSide', 'AddTermToEquation', 'AddCashFlow',
                'RegisterCashFlow', 'SetExogenous', 'AddInitialCondition', 'AddCashFlowIncomeExclusion')

    def intrinsic(self, nm, role, e, fr, skip_first=False):
        args = e.args[1:] if skip_first else e.args
        kw = {k.arg: k.value for k in e.keywords if k.arg}
        if nm in self.EMITTING:
            # an argument whose value was chosen by an earlier branch: the call is recorded once per branch, under the
            # condition of that branch (the same effects as when the call is written inside both branches)
            def namelike(v):
                # a variable name (literal text with code / parameter holes): the ledger reads a choice between two names
                # as one guarded name; anything else (a converted term, a flag, None) is a choice between two bookings
                if isinstance(v, Phi):
                    return namelike(v.a) and namelike(v.b)
                if isinstance(v, P):
                    return True
                if not isinstance(v, Str):
                    return False
                for h in v.holes():
                    if h.kind == 'phi':
                        if not (namelike(h.args[1]) and namelike(h.args[2])):
                            return False
                    elif h.kind not in ('param', 'code', 'fullcode', 'currency', 'elem'):
                        return False
                return True

            def is_join(v):
                return isinstance(v, Phi) and isinstance(v.guard, Guard) and getattr(v, '_join', False) and not namelike(v)
            names = [n.id for a in list(args) + list(kw.values()) for n in ast.walk(a)
                     if isinstance(n, ast.Name) and is_join(fr.env.get(n.id))]
            if names:
                g = fr.env[names[0]].guard
                same = {k: v for k, v in fr.env.items() if is_join(v) and v.guard.key() == g.key()}
                res = NONE
                try:
                    for pick, guard in (('a', g), ('b', g.neg())):
                        for k, v in same.items():
                            fr.env[k] = getattr(v, pick)
                        self.guards.append(guard)
                        try:
                            res = self.intrinsic(nm, role, e, fr, skip_first)
                        finally:
                            self.guards.pop()
                finally:
                    for k, v in same.items():
                        fr.env[k] = v
                return res

        def A(i, name=None, default=None):
            if i is not None and i < len(args):
                return self.ev(args[i], fr)
            if name in kw:
                return self.ev(kw[name], fr)
            return default
        if nm == 'AddVariable':
            name = self.to_str(A(0, 'varname'))
            eqn = A(2, 'eqn', lit(''))
            rhs = eqn.rhs() if isinstance(eqn, EqObj) else self.to_str(eqn)
            self.emit('def', e, fr, role=role, name=name, rhs=rhs, mode='create', desc=A(1, 'desc'))
            return NONE
        if nm == 'AddVariableFromEquation':
            eq = A(0, 'eqn')
            if isinstance(eq, EqObj):
                self.emit('def', e, fr, role=role, name=eq.lhs, rhs=eq.rhs(), mode='create')
            else:
                self.emit('def', e, fr, role=role, name=Str([Hole('opaque', 'lhs of ' + unparse(args[0]))]),
                          rhs=self.to_str(eq), mode='create')
            return NONE
        if nm == 'SetEquationRightHandSide':
            self.emit('def', e, fr, role=role, name=self.to_str(A(0, 'varname')), rhs=self.to_str(A(1, 'rhs')), mode='set')
            return NONE
        if nm == 'AddTermToEquation':
            self.emit('def', e, fr, role=role, name=self.to_str(A(0, 'varname')), rhs=self.to_str(A(1, 'term')), mode='addterm')
            return NONE
        if nm == 'AddCashFlow':
            term = self.to_str(A(0, 'term'))
            eqn = A(1, 'eqn', NONE)
            inc = A(3, 'is_income', TRUE)
            self.emit('cashflow', e, fr, role=role, term=term, rhs=None if (isinstance(eqn, Const) and eqn.value is None) else self.to_str(eqn),
                      income=inc, desc=A(2, 'desc'))
            return NONE
        if nm == 'GetVariableName':
            name = self.to_str(A(0, 'varname'))
            self.emit('nameuse', e, fr, role=role, name=name)
            return Str([Hole('fullname', role, name)])
        if nm == 'GetVariables':
            return Opaque('vars:' + role.show())
        if nm == 'GetModel':
            return MODEL
        if nm in ('ShareParent', 'IsSharedCurrencyZone'):
            c = self.cond(e, fr)
            return Const(c) if isinstance(c, bool) else Opaque(unparse(e))
        if nm == 'RegisterCashFlow':
            self.emit('register', e, fr, args=(self.to_role(A(0, 'source_sector')), self.to_role(A(1, 'target_sector')),
                                              self.to_str(A(2, 'amount_variable')), A(3, 'is_income_source', TRUE), A(4, 'is_income_dest', TRUE)))
            return NONE
        if nm == 'AddCashFlowIncomeExclusion':
            self.emit('exclusion', e, fr, args=(self.to_role(A(0, 'sector')), self.to_str(A(1, 'cash_flow_name'))))
            return NONE
        if nm == 'SetExogenous':
            self.emit('exog', e, fr, role=role, name=self.to_str(A(0, 'varname')), rhs=self.to_str(A(1, 'val')))
            return NONE
        if nm == 'AddInitialCondition':
            if role.kind == 'model':
                self.emit('ic', e, fr, args=(A(0), self.to_str(A(1)), A(2)))
            else:
                self.emit('ic', e, fr, role=role, name=self.to_str(A(0, 'variable_name')), args=(A(1, 'value'),))
            return NONE
        if nm == 'LookupSector':
            code = self.to_str(A(0))
            if role.kind == 'zone':
                return Role('lookup', 'zone', role.args[0], code)
            if role.kind == 'parent':
                return Role('lookup', 'country', role.args[0], code)
            if role.kind == 'model':
                return Role('lookup', 'model', MODEL, code)
            return Role('lookup', 'other', role, code)
        if nm == 'GetSectors':
            if role.kind == 'zone':
                return Coll('zone_sectors', role.args[0])
            if role.kind == 'parent':
                return Coll('country_sectors', role.args[0])
            if role.kind == 'model':
                return Coll('model_sectors')
            return Coll('sectors_of', role)
        if nm in ('AddGlobalEquation', 'AddExogenous'):
            self.emit('modelcall', e, fr, args=(nm,) + tuple(self.ev(a, fr) for a in args))
            return NONE
        return NONE

    # ---- inlining --------------------------------------------------------------------------------------
    def inline(self, target, vals, kws, fr, self_role, self_cls, node, static=False):
        if fr.depth >= MAX_DEPTH:
            self.opaque_uses.append(('%s:%d' % (fr.func.module.rel, node.lineno), 'inline depth: ' + target.qualname))
            return Opaque('depth:' + target.qualname)
        if any(v is target for v in fr.via_funcs) if hasattr(fr, 'via_funcs') else False:
            return Opaque('recursion:' + target.qualname)
        params = target.params()
        if not static and params and params[0] == 'self':
            params = params[1:]
        env = {}
        defaults = target.defaults()
        for i, p in enumerate(params):
            if i < len(vals):
                env[p] = vals[i]
            elif p in kws:
                env[p] = kws[p]
            elif p in defaults:
                env[p] = self.ev(defaults[p], Frame(target, {}, self_role, self_cls, fr.depth + 1, fr.via))
            else:
                env[p] = P('param', p)
        new = Frame(target, env, self_role if self_role is not None else fr.self_role, self_cls, fr.depth + 1,
                    fr.via + (target.qualname,))
        new.via_funcs = getattr(fr, 'via_funcs', ()) + (target,)
        base = len(self.guards)
        status = self.block(flatten(self.prog, target).node.body, new)
        if not new.returns:
            return NONE
        rets = [(g[base:], v) for g, v in new.returns]
        out = rets[-1][1]
        for g, v in reversed(rets[:-1]):
            if v == out:
                continue
            out = Phi(g[0] if g else Guard(Cond('opaque', 'return-path')), v, out)
        return out

    # ---- statements ------------------------------------------------------------------------------------
    def block(self, stmts, fr):
        """returns the set of completion kinds; pushes early-exit guards for the remainder of the block"""
        pushed = 0
        kinds = set()
        try:
            for s in stmts:
                k = self.stmt(s, fr)
                if isinstance(k, tuple):
                    # ('guard', Guard, kinds_of_abrupt_arm): continue the rest under the guard
                    self.guards.append(k[1])
                    pushed += 1
                    kinds |= k[2]
                    continue
                if k != NORMAL:
                    kinds.add(k)
                    return kinds
            kinds.add(NORMAL)
            return kinds
        finally:
            for _ in range(pushed):
                self.guards.pop()

    def stmt(self, s, fr):
        if isinstance(s, ast.Expr):
            if isinstance(s.value, ast.Constant):
                return NORMAL
            self.ev(s.value, fr)
            return NORMAL
        if isinstance(s, ast.Pass):
            return NORMAL
        if isinstance(s, ast.Assign):
            v = self.ev(s.value, fr)
            if not hasattr(fr, 'deftext'):
                fr.deftext = {}
            for t in s.targets:
                if isinstance(t, ast.Name):
                    fr.deftext[t.id] = unparse(s.value)
                self.assign(t, v, fr, s)
            return NORMAL
        if isinstance(s, ast.AugAssign):
            cur = self.ev(s.target, fr) if not isinstance(s.target, ast.Name) else fr.env.get(s.target.id, Opaque(s.target.id))
            v = self.ev(s.value, fr)
            if isinstance(s.op, ast.Add) and (isinstance(cur, Str) or isinstance(v, Str)):
                born = getattr(cur, '_born', 0) if isinstance(cur, Str) else 0
                add = self.to_str(v)
                if len(self.loops) > self.born_of(s.target, fr):
                    new = self.to_str(cur) + Str([Hole('fold', self.loops[-1][0], add, tuple(self.guards[self.gborn_of(s.target, fr):]))])
                    # the fold replaces repeated accumulation: mark so a second pass does not add twice
                else:
                    new = self.to_str(cur) + add
                self.assign(s.target, new, fr, s, keep_birth=True)
            elif isinstance(cur, (Num, P)) and isinstance(v, (Num, P)):
                self.assign(s.target, self.num_op(cur, v, {ast.Add: '+', ast.Sub: '-', ast.Mult: '*', ast.Div: '/'}.get(type(s.op), '?')), fr, s)
            else:
                self.assign(s.target, Opaque(unparse(s)), fr, s)
            return NORMAL
        if isinstance(s, ast.Return):
            fr.returns.append((tuple(self.guards), self.ev(s.value, fr) if s.value is not None else NONE))
            return RET
        if isinstance(s, ast.Raise):
            self.emit('raise', s, fr, args=(unparse(s.exc)[:80] if s.exc else 'reraise',))
            return RAISE
        if isinstance(s, ast.Continue):
            return CONT
        if isinstance(s, ast.Break):
            if self.loops:
                lk = self.loops[-1][0]
                targets, start = self.loop_meta[-1] if getattr(self, 'loop_meta', None) else (set(), 0)
                from .algebra import mentions_elem
                # does leaving the loop here select the element?  (an effect of this iteration names it, or it is kept in
                # a variable) - a search that only raises a flag selects nothing
                used = any(any(l[0] == lk for l in e_.loops) for e_ in self.effects[start:])
                kept = any(k_ not in targets and isinstance(v_, Val) and not isinstance(v_, (ListVal,)) and mentions_elem(v_.key(), lk)
                           for k_, v_ in fr.env.items())
                self.breaks.append((lk, tuple(self.guards), '%s:%d' % (fr.func.module.rel, s.lineno), used or kept))
            return BREAK
        if isinstance(s, ast.If):
            return self.if_stmt(s, fr)
        if isinstance(s, ast.For):
            return self.for_stmt(s, fr)
        if isinstance(s, ast.Try):
            return self.try_stmt(s, fr)
        if isinstance(s, ast.While):
            self.opaque_uses.append(('%s:%d' % (fr.func.module.rel, s.lineno), 'while loop'))
            return NORMAL
        if isinstance(s, (ast.FunctionDef, ast.ClassDef, ast.Import, ast.ImportFrom, ast.Global, ast.Assert, ast.Delete)):
            return NORMAL
        self.opaque_uses.append(('%s:%d' % (fr.func.module.rel, getattr(s, 'lineno', 0)), 'statement ' + type(s).__name__))
        return NORMAL

    def born_of(self, target, fr):
        if isinstance(target, ast.Name):
            return fr.births.get(target.id, (0, 0))[0] if hasattr(fr, 'births') else 0
        return 0

    def gborn_of(self, target, fr):
        if isinstance(target, ast.Name):
            return fr.births.get(target.id, (0, 0))[1] if hasattr(fr, 'births') else 0
        return 0

    def assign(self, t, v, fr, node, keep_birth=False):
        if isinstance(t, ast.Name):
            if not hasattr(fr, 'births'):
                fr.births = {}
            if not keep_birth:
                fr.births[t.id] = (len(self.loops), len(self.guards))
                if isinstance(v, (ListVal, EqObj)) and not hasattr(v, '_born'):
                    v._born = len(self.loops)
                    v._gborn = len(self.guards)
            fr.env[t.id] = v
            return
        if isinstance(t, (ast.Tuple, ast.List)):
            for i, el in enumerate(t.elts):
                if isinstance(v, Tup) and i < len(v.items):
                    self.assign(el, v.items[i], fr, node)
                elif isinstance(v, P):
                    self.assign(el, P(v.kind, v.name, i), fr, node)
                else:
                    self.assign(el, Opaque('%s[%d]' % (v.show() if isinstance(v, Val) else v, i)), fr, node)
            return
        if isinstance(t, ast.Attribute):
            base = self.ev(t.value, fr)
            if isinstance(base, Role) and (base == fr.self_role):
                if fr.self_role.kind == 'self':
                    if self.phase == 'ctor' or t.attr not in self.fields:
                        self.fields[t.attr] = v
                        self.field_origin[t.attr] = (self.phase, '%s:%d' % (fr.func.module.rel, node.lineno))
                    self.emit('fieldset', node, fr, role=base, name=lit(t.attr), args=(v,))
                return
            if isinstance(base, (Role, P)):
                self.emit('attrset', node, fr, role=self.to_role(base), name=lit(t.attr), args=(v,))
                return
            if isinstance(base, Opaque) and base.text.startswith('eq:') and t.attr == 'TermList':
                self.emit('def', node, fr, role=self.to_role(base.role), name=base.name, rhs=self.to_str(v), mode='set')
                return
            return
        if isinstance(t, ast.Subscript):
            base = self.ev(t.value, fr)
            if isinstance(base, Opaque) and base.text.startswith('block:'):
                self.emit('def', node, fr, role=self.to_role(base.role), name=self.to_str(self.ev(t.slice, fr)),
                          rhs=self.to_str(v), mode='create')
            return

    def if_stmt(self, s, fr):
        c = self.cond(s.test, fr)
        if c is True:
            return self.passthru(self.block(s.body, fr))
        if c is False:
            return self.passthru(self.block(s.orelse, fr)) if s.orelse else NORMAL
        env0 = dict(fr.env)
        births0 = dict(getattr(fr, 'births', {}))
        self.guards.append(c)
        k1 = self.block(s.body, fr)
        self.guards.pop()
        env1 = fr.env
        fr.env = dict(env0)
        fr.births = dict(births0)
        self.guards.append(c.neg())
        k2 = self.block(s.orelse, fr) if s.orelse else {NORMAL}
        self.guards.pop()
        env2 = fr.env
        n1, n2 = NORMAL in k1, NORMAL in k2
        if n1 and n2:
            fr.env = self.merge(env1, env2, c)
            ab = (k1 | k2) - {NORMAL}
            return NORMAL if not ab else ('guard', Guard(Cond('opaque', 'after-partial-exit')), ab) if False else NORMAL
        if n1 and not n2:
            fr.env = env1
            return ('guard', c, k2)
        if n2 and not n1:
            fr.env = env2
            return ('guard', c.neg(), k1)
        fr.env = env1
        ab = k1 | k2
        return sorted(ab)[0] if ab else NORMAL

    def passthru(self, kinds):
        if NORMAL in kinds:
            return NORMAL
        return sorted(kinds)[0] if kinds else NORMAL

    def merge(self, e1, e2, c):
        out = {}
        for k in set(e1) | set(e2):
            a, b = e1.get(k), e2.get(k)
            if a is None:
                out[k] = b
            elif b is None:
                out[k] = a
            elif a is b or (isinstance(a, Val) and isinstance(b, Val) and a == b):
                out[k] = a
            else:
                out[k] = Phi(c, a, b)
                out[k]._join = True       # chosen by an if statement of the function itself (see `intrinsic`)
        return out

    def for_stmt(self, s, fr):
        it = self.ev(s.iter, fr)
        if isinstance(it, P):
            it = it.as_coll()
        if isinstance(it, Role) and it.kind == 'field':
            it = Coll('field', it.args[0])
        if isinstance(it, Phi):
            it = it.a if isinstance(it.a, (Coll, ListVal)) else it.b
        parts = []       # (collection-or-None, element value)
        if isinstance(it, Coll):
            parts.append((it, None))
        elif isinstance(it, ListVal):
            if it.base is not None:
                parts.append((it.base, None))
            for item in it.items:
                if item[0] == 'item':
                    parts.append((None, item[1]))
                elif item[0] == 'taint':
                    parts.append((Coll('opaque', item[1]), None))
                elif len(item) > 4 and isinstance(item[4], Coll):
                    # the elements collected from a loop over a known collection, under the conditions they were collected
                    # under: ranging over them is ranging over that collection again, restricted by those conditions
                    parts.append((item[4], item[3], tuple(item[2])))
                else:
                    parts.append((Coll('folded', item[1]), item[3]))
        elif isinstance(it, Tup):
            for v in it.items:
                parts.append((None, v))
        else:
            parts.append((Coll('opaque', unparse(s.iter)), None))
        kinds = set()
        self.widen_carried(s, fr)
        for part in parts:
            coll, elem = part[0], part[1]
            extra_guards = part[2] if len(part) > 2 else ()
            for g_ in extra_guards:
                self.guards.append(g_)
            if coll is not None:
                ck = coll.show()
                self.loops.append((ck, coll))
                if not hasattr(self, 'loop_meta'):
                    self.loop_meta = []
                self.loop_meta.append(({x.id for x in ast.walk(s.target) if isinstance(x, ast.Name)}, len(self.effects)))
                if elem is None:
                    if coll.kind in ('zone_sectors', 'country_sectors', 'model_sectors', 'sectors_of'):
                        ev_ = Role('loop', ck)
                    else:
                        ev_ = P('elem', ck)
                else:
                    ev_ = elem
                self.assign(s.target, ev_, fr, s)
                k = self.block(s.body, fr)
                self.loops.pop()
                self.loop_meta.pop()
            else:
                self.assign(s.target, elem, fr, s)
                k = self.block(s.body, fr)
            for g_ in extra_guards:
                self.guards.pop()
            kinds |= (k - {CONT, BREAK, NORMAL})
        if s.orelse:
            self.block(s.orelse, fr)
        # a `return`/`raise` inside a loop body does not end the enclosing block for the analysis
        return NORMAL

    def widen_carried(self, loop, fr):
        """names re-assigned inside the loop body to something else than their pre-loop definition are loop-carried:
        inside the body their value is unknown (pre-loop value or a value from an earlier iteration)"""
        if not hasattr(fr, 'deftext'):
            fr.deftext = {}
        targets = set()
        for x in ast.walk(loop.target):
            if isinstance(x, ast.Name):
                targets.add(x.id)
        for st in loop.body:
            for n in ast.walk(st):
                if isinstance(n, ast.Assign):
                    for t in n.targets:
                        if isinstance(t, ast.Name) and t.id in fr.env and t.id not in targets:
                            if fr.deftext.get(t.id) != unparse(n.value):
                                fr.env[t.id] = P('carried', t.id)
                elif isinstance(n, ast.AugAssign) and isinstance(n.target, ast.Name) and n.target.id in fr.env and \
                        isinstance(fr.env[n.target.id], (Num, P)):
                    fr.env[n.target.id] = P('carried', n.target.id)

    def try_stmt(self, s, fr):
        """`try: ... GetVariableName ... except KeyError: <handler>` -> Branch(present(role, name))"""
        handlers = s.handlers
        key_handler = None
        for h in handlers:
            tys = []
            if h.type is not None:
                tys = [unparse(x) for x in (h.type.elts if isinstance(h.type, ast.Tuple) else [h.type])]
            if 'KeyError' in tys or h.type is None:
                key_handler = h
        gv = None
        for st in s.body:
            for c in ast.walk(st):
                if isinstance(c, ast.Call) and call_name(c) in ('GetVariableName', 'LookupSector') and gv is None:
                    gv = c
        if key_handler is None or gv is None:
            k = self.block(s.body, fr)
            if s.finalbody:
                self.block(s.finalbody, fr)
            return self.passthru(k)
        # presence condition of the first lookup
        if call_name(gv) == 'GetVariableName':
            role = self.to_role(self.ev(gv.func.value, fr))
            name = self.to_str(self.ev(gv.args[0], fr))
            c = Guard(Cond('present', role, name))
        else:
            role = self.to_role(self.ev(gv.func.value, fr))
            c = Guard(Cond('found', role, self.to_str(self.ev(gv.args[0], fr))))
        env0 = dict(fr.env)
        self.guards.append(c)
        k1 = self.block(s.body + s.orelse, fr)
        self.guards.pop()
        env1 = fr.env
        fr.env = dict(env0)
        self.guards.append(c.neg())
        k2 = self.block(key_handler.body, fr)
        self.guards.pop()
        env2 = fr.env
        n1, n2 = NORMAL in k1, NORMAL in k2
        if n1 and n2:
            fr.env = self.merge(env1, env2, c)
            return NORMAL
        if n1:
            fr.env = env1
            return ('guard', c, k2)
        if n2:
            fr.env = env2
            return ('guard', c.neg(), k1)
        fr.env = env1
        return sorted(k1 | k2)[0]


def parse_spec(spec, conv=None):
    """format spec -> (conversion char, precision or None)"""
    import re
    if not spec:
        return (conv or 's', None)
    m = re.match(r'^[#0\- +]*\d*(?:\.(\d+))?([sdrfeEgGi]?)$', spec)
    if not m:
        return (conv or 's', None)
    c = m.group(2) or (conv or 's')
    prec = int(m.group(1)) if m.group(1) is not None else None
    return (c, prec)


# ---- unit drivers ----------------------------------------------------------------------------------------
def run_ctor_chain(prog, cls, interp=None):
    """interpret cls.__init__ (inlining base constructors) with symbolic parameters; returns the interpreter"""
    it = interp or Interp(prog, cls.name, 'ctor')
    it.phase = 'ctor'
    init = prog.resolve_method(cls, '__init__')
    if init is None:
        return it
    env = {}
    defaults = init.defaults()
    for p in init.params()[1:]:
        env[p] = P('param', p)
    fr = Frame(init, env, SELF, cls, 0, (init.qualname,))
    fr.via_funcs = (init,)
    fr.ctor_defaults = defaults
    it.block(flatten(prog, init).node.body, fr)
    it.ctor_params = init.params()[1:]
    it.ctor_defaults = defaults
    return it


def run_method(prog, cls, method_name, interp=None, phase='gen', bind=None, self_role=None):
    it = interp or Interp(prog, cls.name, phase)
    it.phase = phase
    m = prog.resolve_method(cls, method_name)
    if m is None:
        raise AnalysisError('%s.%s not found' % (cls.name, method_name))
    # private helpers of the method are inlined at the syntax level first (exact rewritings, see inline.py), so that a
    # helper used as a branch condition or returning from several places is interpreted like the code it stands for
    m = flatten(prog, m)
    env = {}
    for p in m.params()[1:]:
        env[p] = (bind or {}).get(p, P('param', p))
    fr = Frame(m, env, self_role if self_role is not None else SELF, cls, 0, (m.qualname,))
    fr.via_funcs = (m,)
    it.block(m.node.body, fr)
    return it


def run_unit(prog, cls, method_name='_GenerateEquations'):
    """constructor chain (fields + ctor effects) followed by the generation method"""
    it = Interp(prog, cls.name, 'ctor')
    run_ctor_chain(prog, cls, it)
    n_ctor = len(it.effects)
    it.guards, it.loops = [], []
    run_method(prog, cls, method_name, it, 'gen')
    it.n_ctor = n_ctor
    return it
