"""E3 - abstract values of the effect interpreter: string templates with holes, roles, collections, conditions.

Every value has a structural `key()` (nested tuples of plain data) so that the same string built in different ways
(% / .format / f-string / concatenation / temporaries) is the same abstract value."""


class Val(object):
    def key(self):
        raise NotImplementedError

    def __eq__(self, other):
        return isinstance(other, Val) and self.key() == other.key()

    def __ne__(self, other):
        return not self.__eq__(other)

    def __hash__(self):
        return hash(self.key())

    def __repr__(self):
        return self.show()

    def show(self):
        return str(self.key())


# ---- roles (who an object is) -----------------------------------------------------------------------------
class Role(Val):
    """kind: self | loop | param | field | lookup | ext | model | extsector | parent | zone | new | opaque"""

    def __init__(self, kind, *args, **kw):
        self.kind = kind
        self.args = tuple(args)
        self.cls = kw.get('cls')         # class name when known

    def key(self):
        return ('role', self.kind) + tuple(a.key() if isinstance(a, Val) else a for a in self.args)

    def show(self):
        if self.kind == 'self':
            return 'Self'
        if self.kind == 'loop':
            return 'Elem(%s)' % (self.args[0].show() if isinstance(self.args[0], Val) else self.args[0],) + \
                (''.join('[%s]' % i for i in self.args[1:]))
        if self.kind == 'lookup':
            return 'Lookup(%s:%s,%s)' % (self.args[0], self.args[1].show(), self.args[2].show())
        if self.kind == 'ext':
            return 'EXT_' + self.args[0]
        return '%s(%s)' % (self.kind.capitalize(), ','.join(a.show() if isinstance(a, Val) else str(a) for a in self.args))


SELF = Role('self')
MODEL = Role('model')
EXTSECTOR = Role('extsector')


def ext(code):
    return Role('ext', code)


# ---- collections ----------------------------------------------------------------------------------------
class Coll(Val):
    """kind: zone_sectors(role) | country_sectors(role) | model_sectors | field(name) | concat(coll, elem) |
    registered_flows | exclusions | dict_items(param) | literal(n) | zones | opaque(text)"""

    def __init__(self, kind, *args):
        self.kind = kind
        self.args = tuple(args)

    def key(self):
        return ('coll', self.kind) + tuple(a.key() if isinstance(a, Val) else a for a in self.args)

    def show(self):
        return '%s(%s)' % (self.kind, ','.join(a.show() if isinstance(a, Val) else str(a) for a in self.args))


# ---- conditions -------------------------------------------------------------------------------------------
class Cond(Val):
    """atomic condition; kind: present(role,name) | samezone(a,b) | shareparent(a,b) | same(a,b) | isinstance(role,cls) |
    attr(role,name) | eq(a,b) | isnone(x) | contains(block,name) | numzero(expr) | opaque(text)"""

    def __init__(self, kind, *args):
        self.kind = kind
        self.args = tuple(args)

    def key(self):
        return ('cond', self.kind) + tuple(a.key() if isinstance(a, Val) else a for a in self.args)

    def show(self):
        return '%s(%s)' % (self.kind, ','.join(a.show() if isinstance(a, Val) else str(a) for a in self.args))


class Guard(object):
    """a condition with polarity"""

    def __init__(self, cond, pol=True):
        self.cond = cond
        self.pol = bool(pol)

    def key(self):
        return (self.cond.key(), self.pol)

    def neg(self):
        return Guard(self.cond, not self.pol)

    def __repr__(self):
        return ('' if self.pol else 'not ') + self.cond.show()


# ---- strings ----------------------------------------------------------------------------------------------
class Hole(Val):
    """kind: code(role) | fullcode(role) | attr(role,name) | param(name) | field(name) | fullname(role, Str) |
    num(text, conv, precision) | currency(role) | fold(loopkey, Str, guards) | elem(loopkey, index) | phi(cond, a, b) |
    opaque(text)"""

    def __init__(self, kind, *args):
        self.kind = kind
        self.args = tuple(args)

    def key(self):
        out = []
        for a in self.args:
            if isinstance(a, Val):
                out.append(a.key())
            elif isinstance(a, (list, tuple)):
                out.append(tuple(x.key() if hasattr(x, 'key') else x for x in a))
            else:
                out.append(a)
        return ('hole', self.kind) + tuple(out)

    def show(self):
        k = self.kind
        a = self.args
        if k == 'code':
            return '<%s.Code>' % a[0].show()
        if k == 'fullcode':
            return '<%s.FullCode>' % a[0].show()
        if k == 'fullname':
            return '<%s__%s>' % (a[0].show(), a[1].show())
        if k == 'param':
            return '<%s>' % a[0]
        if k == 'field':
            return '<self.%s>' % a[0]
        if k == 'num':
            return '<num %s %s%s>' % (a[0], a[1], '' if a[2] is None else '.%s' % a[2])
        if k == 'currency':
            return '<cur %s>' % a[0].show()
        if k == 'fold':
            return '<fold %s: %s>' % (a[0], a[1].show())
        if k == 'phi':
            return '<%s ? %s : %s>' % (a[0].show(), a[1].show(), a[2].show())
        if k == 'elem':
            return '<elem %s[%s]>' % (a[0], a[1])
        return '<%s %s>' % (k, ','.join(x.show() if isinstance(x, Val) else str(x) for x in a))


class Str(Val):
    def __init__(self, parts=()):
        out = []
        for p in parts:
            if isinstance(p, str):
                if p == '':
                    continue
                if out and isinstance(out[-1], str):
                    out[-1] += p
                else:
                    out.append(p)
            elif isinstance(p, Str):
                for q in p.parts:
                    if isinstance(q, str) and out and isinstance(out[-1], str):
                        out[-1] += q
                    else:
                        out.append(q)
            else:
                out.append(p)
        self.parts = tuple(out)

    def key(self):
        return ('str',) + tuple(p if isinstance(p, str) else p.key() for p in self.parts)

    def show(self):
        return "'" + ''.join(p if isinstance(p, str) else p.show() for p in self.parts) + "'"

    def is_literal(self):
        return all(isinstance(p, str) for p in self.parts)

    def literal(self):
        return ''.join(self.parts) if self.is_literal() else None

    def holes(self):
        return [p for p in self.parts if not isinstance(p, str)]

    def __add__(self, other):
        return Str(self.parts + (other.parts if isinstance(other, Str) else (other,)))

    def strip(self):
        parts = list(self.parts)
        if parts and isinstance(parts[0], str):
            parts[0] = parts[0].lstrip()
        if parts and isinstance(parts[-1], str):
            parts[-1] = parts[-1].rstrip()
        return Str(parts)

    def startswith_lit(self, s):
        return bool(self.parts) and isinstance(self.parts[0], str) and self.parts[0].startswith(s)

    def is_empty(self):
        return len(self.parts) == 0


def lit(s):
    return Str([s])


def hole(kind, *args):
    return Str([Hole(kind, *args)])


# ---- other values ---------------------------------------------------------------------------------------
class Num(Val):
    """symbolic number: text of the expression (parameters / fields), or a constant"""

    def __init__(self, text, const=None):
        self.text = text
        self.const = const

    def key(self):
        return ('num', self.text)

    def show(self):
        return self.text


class Tup(Val):
    def __init__(self, items):
        self.items = tuple(items)

    def key(self):
        return ('tup',) + tuple(i.key() for i in self.items)

    def show(self):
        return '(' + ', '.join(i.show() for i in self.items) + ')'


class ListVal(Val):
    """list value: fixed items plus folds ( (loopkey, guards, itemvalue) appended inside a loop )"""

    def __init__(self, items=(), base=None):
        self.items = list(items)      # entries: ('item', value) | ('fold', loopkey, guards, value)
        self.base = base              # a Coll the list extends (alias of a field list), or None

    def key(self):
        out = []
        for it in self.items:
            if it[0] == 'item':
                out.append(('item', it[1].key()))
            elif it[0] == 'taint':
                out.append(('taint', it[1]))
            else:
                out.append(('fold', it[1], tuple(g.key() for g in it[2]), it[3].key()))
        return ('list', self.base.key() if self.base else None) + tuple(out)

    def show(self):
        return '[' + ', '.join(('%s' % it[1].show()) if it[0] == 'item' else ('<%s>' % it[1] if it[0] == 'taint' else
                                                                                 'fold(%s: %s)' % (it[1], it[3].show()))
                               for it in self.items) + ']' + (('++' + self.base.show()) if self.base else '')


class EqObj(Val):
    """an Equation object under construction: lhs, leading expression, terms (Str or folds)"""

    def __init__(self, lhs, lead=None):
        self.lhs = lhs
        self.lead = lead            # Str or None
        self.terms = []             # ('item', Str) | ('fold', loopkey, guards, Str)

    def key(self):
        out = []
        for it in self.terms:
            if it[0] == 'item':
                out.append(('item', it[1].key()))
            else:
                out.append(('fold', it[1], tuple(g.key() for g in it[2]), it[3].key()))
        return ('eq', self.lhs.key(), self.lead.key() if self.lead else None) + tuple(out)

    def rhs(self):
        parts = []
        if self.lead is not None:
            parts.append(self.lead)
        for it in self.terms:
            if it[0] == 'item':
                parts.append(it[1])
            else:
                parts.append(Str([Hole('fold', it[1], it[3], tuple(it[2]))]))
        return Str(parts)

    def show(self):
        return 'Eq(%s = %s)' % (self.lhs.show(), self.rhs().show())


class Opaque(Val):
    def __init__(self, text, role=None, name=None):
        self.text = text
        self.role = role        # 'block:' / 'eq:' references carry the owning object ...
        self.name = name        # ... and the key of the equation, so that they survive being held in a local

    def key(self):
        return ('opaque', self.text)

    def show(self):
        return 'Opaque(%s)' % self.text


class Const(Val):
    """None / True / False / other python constants that are not strings or numbers"""

    def __init__(self, value):
        self.value = value

    def key(self):
        return ('const', repr(self.value))

    def show(self):
        return repr(self.value)


NONE = Const(None)
TRUE = Const(True)
FALSE = Const(False)


class Phi(Val):
    def __init__(self, guard, a, b):
        self.guard = guard
        self.a = a
        self.b = b

    def key(self):
        return ('phi', self.guard.key(), self.a.key(), self.b.key())

    def show(self):
        return '(%r ? %s : %s)' % (self.guard, self.a.show(), self.b.show())
