"""C13 - name substitution is hygienic and simultaneous (decided structural clauses).

R1 replacement predicate : in the token utilities a token is replaced only under  type is NAME  and
                           (value == target | value in lookup).
R2 single pass           : the replacement value is emitted, never re-examined (no fix-point, no recursion, the result
                           list is filled by one loop over the token stream and returned through untokenize).
R3 no substring renames  : every other `.replace(` call in the package is classified by shape; a replace with a
                           computed target, or with an identifier-shaped target on non-literal text, is name rewriting
                           by substring and must go through the utilities.
R4 list_tokens           : filters NAME tokens only, in order of appearance."""
import ast
import re

from .. import cfg as cfgmod
from ..loader import AnalysisError, unparse, call_name
from ..dataflow import target_names

TECHNIQUE = ('static analysis: shape of the replacement predicate (control dependence of the replacement emission), '
             'single-pass structure, classification of all str.replace call sites in the package')
EXPLANATION = (
    'The emission of a replacement token must be control-dependent on a NAME-type test conjoined with an exact match of the '
    'token text (== target / membership in the lookup dict); every other token is emitted unchanged; the result list is '
    'produced by a single pass. All str.replace sites of the package are enumerated and classified so that no variable '
    'renaming bypasses the token-level utilities. Value equality after untokenize is not decided.')


def token_loops(f):
    """for-loops over a tokenize generator: target is a 5-tuple / name and iter derives from tokenize.*"""
    out = []
    gens = set()
    for n in ast.walk(f.node):
        if isinstance(n, ast.Assign) and isinstance(n.value, ast.Call) and call_name(n.value) in ('tokenize', 'generate_tokens'):
            gens.update(target_names(n.targets[0]))
    for n in ast.walk(f.node):
        if isinstance(n, ast.For) and isinstance(n.iter, ast.Name) and n.iter.id in gens:
            out.append(n)
    return out


def is_name_test(e, typevar):
    return isinstance(e, ast.Compare) and len(e.ops) == 1 and isinstance(e.left, ast.Name) and e.left.id == typevar and (
        (isinstance(e.ops[0], (ast.Eq, ast.Is)) and unparse(e.comparators[0]).split('.')[-1] == 'NAME') or
        (isinstance(e.ops[0], ast.In) and isinstance(e.comparators[0], (ast.Tuple, ast.List, ast.Set)) and
         [unparse(x).split('.')[-1] for x in e.comparators[0].elts] == ['NAME']))


def run(prog, check):
    check.explanation = EXPLANATION
    check.not_decided = 'value equality of the renamed expression after untokenize (spacing / literal forms)'
    check.assumptions = ['tokenize yields every identifier occurrence as one NAME token']
    utils_fns = [f for f in prog.all_functions() if f.cls is None and token_loops(f)]
    replacers, listers = [], []
    for f in utils_fns:
        if any(isinstance(n, ast.Call) and call_name(n) == 'untokenize' for n in ast.walk(f.node)):
            replacers.append(f)
        else:
            listers.append(f)
    # a function that applies a token replacer once per entry of its mapping argument renames sequentially, not simultaneously
    rnames = {f.name for f in replacers}
    for f in [x for x in prog.all_functions() if x.cls is None]:
        if f in replacers:
            continue
        for loop in [n for n in ast.walk(f.node) if isinstance(n, ast.For)]:
            it = loop.iter
            src = it.func.value if (isinstance(it, ast.Call) and call_name(it) in ('items', 'keys') and isinstance(it.func, ast.Attribute)) else it
            if isinstance(src, ast.Name) and src.id in f.params() and any(
                    isinstance(c, ast.Call) and call_name(c) in rnames for c in ast.walk(loop)):
                check.saw(f)
                check.ob('C13.R2', '%s::single-pass' % f.key, False, '%s:%d' % (f.module.rel, loop.lineno),
                         'the renamings of `%s` are applied one after another, each on the output of the previous one: a replacement that is '
                         'itself a key is renamed again' % src.id, "swap map {'x': 'y', 'y': 'x'}: a swap must swap")
                replacers.append(f)
    if len(replacers) < 2 or len(listers) < 1:
        raise AnalysisError('token utilities not found: replacers=%s listers=%s' % (
            [f.name for f in replacers], [f.name for f in listers]))
    for f in replacers:
        check.saw(f)
        params = f.params()
        if not token_loops(f):
            continue
        for loop in token_loops(f):
            tv = target_names(loop.target)
            if len(tv) < 2:
                raise AnalysisError('token loop of %s does not unpack the token tuple' % f.name)
            typevar, valvar = tv[0], tv[1]
            g = cfgmod.build(f)
            # emissions
            for node in g.stmt_nodes():
                if node.kind != 'stmt' or loop not in node.loops:
                    continue
                for c in ast.walk(node.ast):
                    if isinstance(c, ast.Call) and call_name(c) == 'append' and c.args and isinstance(c.args[0], ast.Tuple) \
                            and len(c.args[0].elts) == 2:
                        tnum, tval = c.args[0].elts
                        original = isinstance(tval, ast.Name) and tval.id == valvar and isinstance(tnum, ast.Name) and tnum.id == typevar
                        if original:
                            check.ob('C13.R1', '%s::emit-original' % f.key, True, '%s:%d' % (f.module.rel, c.lineno),
                                     'token emitted unchanged', '')
                            continue
                        # replacement emission: find the dominating test in the loop
                        ok, why = False, 'replacement emitted without the NAME-and-exact-match guard'
                        for t in g.nodes:
                            if t.kind != 'test' or loop not in t.loops or not g.dominates(t, node):
                                continue
                            tgt_false = [b for b, l in g.succ[t.id] if l is False]
                            hdr = [h for h in g.nodes if h.kind == 'for' and h.stmt is loop][0]
                            if node.id in g.reach(tgt_false, avoid={hdr.id}, include_src=True):
                                continue
                            conj = t.ast.values if (isinstance(t.ast, ast.BoolOp) and isinstance(t.ast.op, ast.And)) else [t.ast]
                            has_name = any(is_name_test(x, typevar) for x in conj)
                            exact = None
                            for x in conj:
                                if isinstance(x, ast.Compare) and len(x.ops) == 1 and isinstance(x.left, ast.Name) and x.left.id == valvar:
                                    if isinstance(x.ops[0], ast.Eq) and isinstance(x.comparators[0], ast.Name) and x.comparators[0].id in params:
                                        exact = ('==', x.comparators[0].id)
                                    elif isinstance(x.ops[0], ast.In) and isinstance(x.comparators[0], ast.Name) and x.comparators[0].id in params:
                                        exact = ('in', x.comparators[0].id)
                                elif isinstance(x, ast.Compare) and len(x.ops) == 1 and isinstance(x.ops[0], ast.In) and \
                                        isinstance(x.comparators[0], ast.Name) and x.comparators[0].id == valvar:
                                    exact = None      # `target in tokval`: substring test
                            if has_name and exact:
                                # the emitted value is the replacement for exactly this token
                                if exact[0] == '==':
                                    good_val = isinstance(tval, ast.Name) and tval.id in params and tval.id != exact[1]
                                else:
                                    good_val = isinstance(tval, ast.Subscript) and isinstance(tval.value, ast.Name) and \
                                        tval.value.id == exact[1] and isinstance(tval.slice, ast.Name) and tval.slice.id == valvar
                                good_type = unparse(tnum).split('.')[-1] == 'NAME' or (isinstance(tnum, ast.Name) and tnum.id == typevar)
                                if good_val and good_type:
                                    ok, why = True, 'replacement guarded by `%s`' % unparse(t.ast)
                                else:
                                    why = 'guard found but the emitted token is `%s`' % unparse(c.args[0])
                            elif not has_name:
                                why = 'guard `%s` does not test the token type for NAME' % unparse(t.ast)
                            else:
                                why = 'guard `%s` does not require an exact match of the token text' % unparse(t.ast)
                        check.ob('C13.R1', '%s::emit-replacement(%s)' % (f.key, unparse(c.args[0])), ok,
                                 '%s:%d' % (f.module.rel, c.lineno), why,
                                 "renaming x in 'x_1 + 2.0e3*ax' (substring / number / string contents must stay)")
        # ---- R2 -------------------------------------------------------------------------------------
        loops = [n for n in ast.walk(f.node) if isinstance(n, (ast.While,))]
        rec = [n for n in ast.walk(f.node) if isinstance(n, ast.Call) and call_name(n) == f.name]
        nested = [l for l in token_loops(f) if any(isinstance(x, (ast.For, ast.While)) for st in l.body for x in ast.walk(st))]
        rets = [r for r in ast.walk(f.node) if isinstance(r, ast.Return) and r.value is not None]
        direct = bool(rets) and all(any(isinstance(x, ast.Call) and call_name(x) == 'untokenize' for x in ast.walk(r.value)) for r in rets)
        # the lookup is consulted with the *original* token only (no chained re-lookup)
        relook = False
        for n in ast.walk(f.node):
            if isinstance(n, ast.Subscript) and isinstance(n.value, ast.Name) and n.value.id in params and \
                    isinstance(n.slice, ast.Subscript):
                relook = True
        ok = not loops and not rec and not nested and direct and not relook
        check.ob('C13.R2', '%s::single-pass' % f.key, ok, f.where,
                 'one loop over the token stream, result returned through untokenize' if ok else
                 'replacement output is re-examined (while loop / recursion / nested pass / chained lookup)',
                 "swap map {'x': 'y', 'y': 'x'}: a swap must swap")
    # ---- R4 ----------------------------------------------------------------------------------------
    for f in listers:
        check.saw(f)
        for loop in token_loops(f):
            tv = target_names(loop.target)
            typevar, valvar = tv[0], tv[1]
            apps = [c for c in ast.walk(loop) if isinstance(c, ast.Call) and call_name(c) == 'append']
            ok = bool(apps)
            for c in apps:
                p = getattr(c, '_parent', None)
                guard = None
                while p is not None and p is not loop:
                    if isinstance(p, ast.If):
                        guard = p
                        break
                    p = getattr(p, '_parent', None)
                if guard is None or not is_name_test(guard.test, typevar) or not (
                        isinstance(c.args[0], ast.Name) and c.args[0].id == valvar):
                    ok = False
            check.ob('C13.R4', '%s::name-tokens-only' % f.key, ok, '%s:%d' % (f.module.rel, loop.lineno),
                     'appends the token text under the NAME test only' if ok else 'appends something else than NAME token texts',
                     "list_tokens('x + 2*y(k-1)') must be ['x', 'y', 'k']")
        rets = [r for r in ast.walk(f.node) if isinstance(r, ast.Return) and r.value is not None]
        post = any(isinstance(n, ast.Call) and call_name(n) in ('sort', 'sorted', 'set', 'reverse', 'reversed') for n in ast.walk(f.node))
        check.ob('C13.R4', '%s::order-preserved' % f.key, not post and all(isinstance(r.value, ast.Name) for r in rets), f.where,
                 'the list is returned as collected' if not post else 'the list is re-ordered / de-duplicated', 'x + y + x')
    # ---- R3 ----------------------------------------------------------------------------------------
    n3 = 0
    for f in prog.all_functions():
        for n in ast.walk(f.node):
            if isinstance(n, ast.Call) and call_name(n) == 'replace' and isinstance(n.func, ast.Attribute) and len(n.args) >= 2:
                a = n.args[0]
                recv = n.func.value
                cls_, ok = classify_replace(a, recv, n)
                n3 += 1
                check.ob('C13.R3', '%s::replace(%s)' % (f.key, unparse(a)), ok, '%s:%d' % (f.module.rel, n.lineno),
                         'classified as ' + cls_, 'a variable whose name is a substring of another variable')
    # ---- R5: the callers that rename variables go through the utilities for every kind of term --------------
    T = prog.classes.get('Term')
    rt = T.methods.get('ReplaceTokensFromLookup') if T else None
    if rt is None:
        raise AnalysisError('Term.ReplaceTokensFromLookup not found')
    check.saw(rt)
    g = cfgmod.build(rt)
    stores = [n for n in g.stmt_nodes() if n.kind == 'stmt' and isinstance(n.ast, ast.Assign) and
              isinstance(n.ast.targets[0], ast.Attribute) and n.ast.targets[0].attr == 'Term']
    for n in stores:
        v = n.ast.value
        ok = isinstance(v, ast.Call) and call_name(v) in ('replace_token_from_lookup', 'replace_token')
        branch = 'opaque terms' if any(isinstance(t.ast, ast.Attribute) and t.ast.attr == 'IsBlob' and g.dominates(t, n) and
                                       n.id in g.reach([b for b, l in g.succ[t.id] if l is True], include_src=True)
                                       for t in g.nodes if t.kind == 'test') else 'simple terms'
        check.ob('C13.R5', '%s::renames-through-utility(%s)' % (rt.key, branch), ok, '%s:%d' % (rt.module.rel, n.line),
                 'term text is renamed with the token-level utility' if ok else
                 'term text is renamed by `%s`: whole-text lookup misses names inside products / quotients' % unparse(v)[:70],
                 "a simple term 'r*B' whose factor r is to be renamed")
    check.ob('C13.R5', '%s::both-term-kinds-renamed' % rt.key, len(stores) >= 2, rt.where,
             'opaque and simple terms are both renamed' if len(stores) >= 2 else 'one kind of term is not renamed at all', '')
    check.floor('C13.R5', 3)
    check.floor('C13.R1', 6)
    check.floor('C13.R2', 2)
    check.floor('C13.R3', 25)
    check.floor('C13.R4', 2)


IDENT = re.compile(r'^[A-Za-z_][A-Za-z0-9_]*$')


def classify_replace(a, recv, call):
    if not isinstance(a, ast.Constant) or not isinstance(a.value, str):
        # computed target: acceptable only on a literal template (the pattern is then a fixed placeholder variable)
        if isinstance(recv, ast.Constant):
            return 'computed target on a literal template', True
        return 'computed target `%s`: renaming by substring' % unparse(a), False
    s = a.value
    parent = getattr(call, '_parent', None)
    if isinstance(parent, ast.Expr):
        return 'result discarded (no effect)', True
    if s.strip() == '':
        return 'whitespace', True
    if not IDENT.match(s):
        if any(ch in s for ch in '()') and any(ch in s for ch in 'kt') and '1' in s:
            return 'lag spelling', True
        if s in ('+', '-'):
            return 'sign character', True
        return 'non-identifier marker %r' % s, True
    if s.isupper():
        return 'upper-case marker / template placeholder %r' % s, True
    if isinstance(recv, ast.Constant):
        return 'placeholder %r in a literal template' % s, True
    return 'identifier-shaped target %r on computed text: renaming by substring' % s, False
