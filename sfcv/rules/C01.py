"""C01 - every generated model is stock-flow consistent in each currency (decided structural clauses).

W  who may write      : the only writers of F / INC are the Sector constructor and the cash-flow method; the only writers
                        of the FX intermediary's NET_* equations are the two FX primitives.
R1 balanced units     : every booking unit (a generation method or model phase that records cash flows or FX legs) is
                        balanced as a symbolic ledger: per currency, under every combination of branch conditions, the
                        entries (F terms of sectors + FX NET terms) sum to the zero polynomial modulo the unit's own
                        definitional identities.  Loops are symbolic sums over their collection, not unrolled.
R3 define-if-empty    : where a unit books a constant-named flow variable on *another* sector and relies on
                        AddCashFlow(..., eqn) to give it its amount, at most one booking instance may target the same
                        (sector, name): the name must contain the booking object's own code."""
import ast

from ..loader import AnalysisError, unparse, call_name
from .. import effects
from ..ledger import UnitLedger, show_scenario, strip_sign
from ..algebra import short
from ..strdom import SELF
from .C06 import find_cashflow_method, who_may_write

WANTS_EXAMPLES = True
TECHNIQUE = ('static analysis: abstract interpretation of the equation generators into effect traces (roles, string templates, '
             'guards, symbolic loops) and a ledger algebra (polynomials with symbolic sums, lags and exchange rates) that '
             'normalises the per-currency sum of all booked flows to zero; who-may-write scan')
EXPLANATION = (
    'The generator is analysed, not any one model: each place the framework books a flow is interpreted abstractly into ledger '
    'entries (sector F terms and FX NET terms, per currency, under their guards, with loops as symbolic sums over sector '
    'collections) and the entries are summed, substituting the definitions the same unit makes (SUP := DEM, residual supply, '
    'tax totals, lagged interest, cross rates). If every unit nets to the zero polynomial in every currency and branch, every '
    'model the generator can emit has balancing flows. The solved series themselves are not inspected.')


def unique_guard(g):
    """an element selected by `elem.Code == <issuer code>`: exactly one by the cardinality check (C11.R4)"""
    c, pol = g
    return pol and c[0] == 'cond' and c[1] == 'eq'


def booking_units(prog, core_only=True):
    units = []
    model = prog.classes.get('Model')
    if model is None or 'Model' not in prog.classes:
        raise AnalysisError('Model class not found')
    for ci in prog.subclasses('Sector', with_dups=not core_only):
        if core_only and not prog.is_core(ci.module.rel):
            continue
        if not core_only and prog.is_core(ci.module.rel):
            continue
        if prog.resolve_method(ci, '_GenerateEquations') is None:
            continue
        # only classes that define or inherit a non-trivial generation method; skip duplicates of an inherited unit
        units.append(ci)
    return units


def _only_called_from(prog, f, roots, seen):
    """a private helper of the class all of whose call sites are in the named primitives of that class (or in other such helpers)"""
    if not f.name.startswith('_') or f.name.startswith('__') or f.key in seen:
        return False
    seen = seen | {f.key}
    callers = [g for g in prog.all_functions() if g is not f and any(isinstance(c, ast.Call) and call_name(c) == f.name for c in ast.walk(g.node))]
    if not callers:
        return False
    return all(g.cls is f.cls and (g.name in roots or _only_called_from(prog, g, roots, seen)) for g in callers)


def run(prog, check):
    check.explanation = EXPLANATION
    check.not_decided = ('that solved series sum to zero; user-written sectors outside the repository; consistency of imposed '
                         'initial stocks; the numeraire position of gold purchases (valued in C07)')
    check.assumptions = ['market / tax-flow codes are unique within a currency zone',
                         'a supplier variable is empty before the first market adds a term to it',
                         'exactly one sector matches an issuer code (enforced by the cardinality check, C11.R4)']
    cash = find_cashflow_method(prog)
    check.saw(cash)
    # ---- W -----------------------------------------------------------------------------------------
    who_may_write(prog, check, 'C01.W', cash)
    fx_writers = 0
    from ..dataflow import single_assign_subst, resolve_expr
    for f in prog.all_functions():
        fsub = None
        for c in ast.walk(f.node):
            recv = c.func.value if (isinstance(c, ast.Call) and call_name(c) == 'AddTerm' and isinstance(c.func, ast.Attribute)) else None
            if isinstance(recv, ast.Name):
                # an equation object held in a local
                fsub = fsub if fsub is not None else single_assign_subst(f.node)
                recv = resolve_expr(recv, fsub)
            if recv is not None and isinstance(recv, ast.Subscript) and \
                    'EquationBlock' in unparse(recv.value) and 'NET_' in unparse(recv.slice):
                ok = f.cls is not None and f.cls.name == 'ForexTransations' and (
                    f.name in ('_SendMoney', '_ReceiveMoney') or _only_called_from(prog, f, ('_SendMoney', '_ReceiveMoney'), set()))
                fx_writers += 1
                check.ob('C01.W', '%s::writes-FX(%s)' % (f.key, unparse(recv.slice)), ok, '%s:%d' % (f.module.rel, c.lineno),
                         'FX primitive' if ok else 'the FX position is written outside the two FX primitives', 'any cross-currency flow')
            if isinstance(c, ast.Call) and call_name(c) in ('AddVariable', 'SetEquationRightHandSide', 'AddTermToEquation') and c.args and \
                    isinstance(c.args[0], (ast.BinOp, ast.Constant)) and 'NET_' in unparse(c.args[0]) and len(c.args) >= 2:
                rhs = c.args[-1]
                empty = isinstance(rhs, ast.Constant) and rhs.value == ''
                ok = empty and call_name(c) == 'AddVariable'
                fx_writers += 1
                check.ob('C01.W', '%s::declares-FX(%s)' % (f.key, unparse(c.args[0])), ok, '%s:%d' % (f.module.rel, c.lineno),
                         'NET_* declared empty' if ok else 'NET_* given content outside the FX primitives', 'any cross-currency flow')
    # the collections the traces range over are the current ones: no accessor hands back a remembered list
    from ._common import accessors_not_memoised
    for f_, attr_, ok_, why_ in accessors_not_memoised(prog):
        check.saw(f_)
        check.ob('C01.W', '%s::answers-for-current-objects%s' % (f_.key, '(%s)' % attr_ if attr_ else ''), ok_, f_.where, why_,
                 'a sector created after the zone was first queried')
    # the ledger reads every AddTerm as one independent entry: the equation must keep its own copy of the term
    from ._common import addterm_private_copy
    at_, ok_ = addterm_private_copy(prog)
    check.saw(at_)
    check.ob('C01.W', '%s::entry-is-private-to-its-equation' % at_.key, ok_, at_.where,
             'a booked term is copied into the equation: the entries of F and INC are independent' if ok_ else
             'the object passed in can become the entry itself: one booking shared by F and INC (or by two sectors) is rewritten when like terms merge in either',
             'the same flow name booked twice on one sector (F merges to 2*x, INC must stay as booked)')
    # ---- R1 ----------------------------------------------------------------------------------------
    n_units = 0
    core_units = booking_units(prog, True)
    model_cls = prog.cls('Model')
    runs = []
    for ci in core_units:
        it = effects.run_unit(prog, ci)
        runs.append((ci, '_GenerateEquations', it))
    itm = effects.run_method(prog, model_cls, '_GenerateRegisteredCashFlows')
    runs.append((model_cls, '_GenerateRegisteredCashFlows', itm))
    if check.tier == 'thorough':
        for ci in booking_units(prog, False):
            try:
                it = effects.run_unit(prog, ci)
                runs.append((ci, '_GenerateEquations', it))
            except Exception as e:      # user-level example code outside the modelled fragment
                check.note('example class %s not analysed: %s' % (ci.name, e))
    seen_sig = set()
    for ci, mname, it in runs:
        L = UnitLedger(it)
        regs = [e for e in it.effects if e.kind == 'register' and e.phase == 'gen']
        if not L.entries and not regs:
            continue
        # an inherited, identical unit is the same obligation
        sig = tuple(e.key() for e in it.effects if e.phase == 'gen' and e.kind in ('cashflow', 'blockterm', 'register'))
        m = prog.resolve_method(ci, mname)
        if (m.key, sig) in seen_sig:
            continue
        seen_sig.add((m.key, sig))
        n_units += 1
        check.saw(m)
        ukey = '%s::%s.%s' % (ci.module.rel, ci.name, 'G' if mname == '_GenerateEquations' else mname)
        if L.problems:
            check.note('%s: %s' % (ukey, L.problems[:3]))
        for e in regs:
            check.ob('C01.R1', '%s::registered-flow(%s)' % (ukey, e.args[2].show()), True, e.where,
                     'booked by the generic registered-flow unit (Model._GenerateRegisteredCashFlows), which is balanced below', '')
        if not L.entries:
            continue
        results = L.balance(unique_guard)
        for sc, cur, total, xs in results:
            if short(cur) == '(cur,NUMERAIRE)':
                continue
            ok = total.is_zero()
            nf = total.show()
            check.ob('C01.R1', '%s::ledger[%s | %s]%s' % (ukey, short(cur), show_scenario(sc), '' if ok else ' = ' + nf[:300]),
                     ok, xs[0].where,
                     '%d entries net to zero' % len(xs) if ok else
                     'entries do not net to zero: residual %s; entries: %s' % (nf[:300], '; '.join(x.desc for x in xs)[:400]),
                     'a model using this unit with the branch conditions %s' % show_scenario(sc),
                     detail={'entries': [x.desc for x in xs][:12], 'identities': [i.text for i in L.identities][:20],
                             'normal_form': nf[:300]})
        # ---- R3 ------------------------------------------------------------------------------------
        for idn in L.identities:
            if idn.strength != 'define-if-empty':
                continue
            role_key, name_key = idn.atom[1], idn.atom[2]
            if role_key == SELF.key():
                continue
            has_own_code = "('hole', 'param', 'code')" in repr(name_key) or "'fullcode'" in repr(name_key) and 'self' in repr(name_key)
            check.ob('C01.R3', '%s::define-if-empty(%s.%s)' % (ukey, short(role_key), short(name_key)), has_own_code, idn.where,
                     'the flow variable name contains the booking object\'s own code: instances cannot collide' if has_own_code else
                     'constant-named flow variable %s is defined on another sector by define-if-empty: a second %s targeting the same '
                     'sector books the flow again but the variable keeps the first definition' % (short(name_key), ci.name),
                     'two %s objects in one country / zone' % ci.name)
    # the position the foreign-exchange intermediary holds in a currency moves by exactly its net transactions in that currency:
    # F_<cur> := LAG_F_<cur> + NET_<cur>, LAG_F_<cur> := F_<cur>(k-1)   (the "position the intermediary takes" of the statement;
    # the unit ledgers above count NET_<cur> as that position's change)
    ext_cls = prog.classes.get('ExternalSector')
    rc = prog.resolve_method(ext_cls, 'RegisterCurrency') if ext_cls is not None else None
    if rc is not None:
        from ..strdom import Str as _Str
        from ..algebra import Reader as _Reader
        from fractions import Fraction as _Fr
        itr = effects.run_method(prog, ext_cls, 'RegisterCurrency', phase='prim', bind={'currency': _Str(['CUR'])})
        defs_ = {e.name.literal(): e for e in itr.effects if e.kind == 'def' and e.name.literal()}
        stock = defs_.get('F_CUR')
        if stock is not None and stock.rhs is not None:
            rd_ = _Reader(stock.role)
            pz = rd_.read(stock.rhs)
            coef = {}
            for mono, c_ in pz.terms.items():
                if len(mono) == 1 and mono[0][1] == 1 and mono[0][0][0] == 'var':
                    nm_ = mono[0][0][2]
                    coef[str(nm_)] = c_
            flat = {k_: v_ for k_, v_ in coef.items()}
            ok_net = len(pz.terms) == 2 and not rd_.problems and any('NET_CUR' in k_ and v_ == _Fr(1) for k_, v_ in flat.items()) and \
                any('LAG_F_CUR' in k_ and v_ == _Fr(1) for k_, v_ in flat.items())
            lag = defs_.get('LAG_F_CUR')
            ok_lag = lag is not None and lag.rhs is not None and (lag.rhs.literal() or '').replace(' ', '') == 'F_CUR(k-1)'
            check.saw(rc)
            check.ob('C01.R1', '%s::intermediary-position-moves-by-its-net-transactions' % rc.key, ok_net and ok_lag, stock.where,
                     'F_<cur> = LAG_F_<cur> + NET_<cur>, LAG_F_<cur> = F_<cur>(k-1)' if (ok_net and ok_lag) else
                     'the intermediary\'s position is defined as %s (lag: %s): it does not move by the net transactions in the currency, so the '
                     'assets of the zone and the intermediary\'s position no longer sum to zero' % (stock.rhs.show(), lag.rhs.show() if lag is not None and lag.rhs is not None else '?'),
                     'any cross-currency flow: sum of dF over the zone plus dF_<cur> of the intermediary')
    check.floor('C01.W', 3)
    check.floor('C01.R1', 12)
    check.floor('C01.R3', 3)
    if n_units < 7:
        raise AnalysisError('expected at least 7 booking units in the core, found %d' % n_units)
