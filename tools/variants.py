"""Development helper: apply stored variants (seeded breaking changes or behaviour-preserving refactorings) to scratch
copies of /repo/sfc_models and run checks with --root, 16 at a time.
usage: variants.py <seeded|refactors> <name|all|prefix*> [own|all|pid,pid,...] [-v]
For seeds the expectation is rc=1 from the own property's check (and never rc=2); for refactorings rc=0 everywhere."""
import glob, json, os, shutil, subprocess, sys, tempfile
from concurrent.futures import ThreadPoolExecutor

kind, which = sys.argv[1], sys.argv[2]
pids = sys.argv[3] if len(sys.argv) > 3 and not sys.argv[3].startswith('-') else ('own' if kind == 'seeded' else 'all')
verbose = '-v' in sys.argv
base = '/verif/' + kind
dirs = sorted(glob.glob(base + '/' + ('*' if which == 'all' else which)))
ALL = ['C%02d' % i for i in range(1, 21)]


def one(sd):
    meta = json.load(open(sd + '/meta.json'))
    d = tempfile.mkdtemp(prefix='sfcv_v_')
    env = dict(os.environ, SFCV_OUT_DIR=d + '/_out')
    out = []
    res = {}
    try:
        shutil.copytree('/repo/sfc_models', d + '/sfc_models', ignore=shutil.ignore_patterns('__pycache__'))
        subprocess.run(['git', 'init', '-q'], cwd=d)
        r = subprocess.run(['git', 'apply', sd + '/patch.diff'], cwd=d, capture_output=True, text=True)
        if r.returncode:
            return os.path.basename(sd), meta, {'PATCH': 9}, ['PATCH FAILED ' + r.stderr[:200]]
        if pids == 'own':
            plist = [meta.get('property')] if meta.get('property') else sorted(meta.get('non_silent_checks', {})) or ALL
        elif pids == 'all':
            plist = ALL
        else:
            plist = pids.split(',')
        for pid in plist:
            r = subprocess.run(['/venv/bin/python', '-m', 'sfcv', 'check', pid, '--root', d], cwd='/verif',
                               capture_output=True, text=True, env=env)
            res[pid] = r.returncode
            if r.returncode and (verbose or r.returncode == 2 or kind == 'refactors'):
                lines = [l for l in (r.stdout + r.stderr).splitlines()
                         if not l.startswith('analysed:') and 'KNOWN-FINDING' not in l]
                out.append('[%s %s rc=%d] %s' % (os.path.basename(sd), pid, r.returncode,
                                                 '\n     '.join(x[:330] for x in lines[:6])))
    finally:
        shutil.rmtree(d, ignore_errors=True)
    return os.path.basename(sd), meta, res, out


with ThreadPoolExecutor(12) as ex:
    results = list(ex.map(one, dirs))
for name, meta, res, out in results:
    for l in out:
        print(l)
print('---- summary (%s, %d variants)' % (kind, len(results)))
bad = 0
for name, meta, res, out in results:
    nz = {k: v for k, v in res.items() if v}
    if kind == 'seeded':
        own = meta.get('property')
        ok = res.get(own) == 1 and 2 not in res.values()
        flag = 'ok  ' if ok else ('MISS' if res.get(own) != 1 else 'ERR2')
    else:
        ok = not nz
        flag = 'ok  ' if ok else 'LOUD'
    bad += 0 if ok else 1
    if not ok or verbose:
        print('  %s %-16s %s' % (flag, name, nz))
print('not as expected: %d of %d' % (bad, len(results)))
