import warnings; warnings.simplefilter('ignore')
from sfc_models.equation_solver import EquationSolver
s = EquationSolver("""
x = 3 - t
y = x + 1
ratio = 1/(x-1)
exogenous
MaxTime=4""")
try:
    s.SolveEquation(); print('ok')
except Exception as e:
    print('ERR', type(e).__name__, e)
print({k: len(v) for k,v in s.TimeSeries.items()}, s.Parser.Decoration)
