import warnings; warnings.simplefilter('ignore')
from sfc_models.equation_solver import EquationSolver
s = EquationSolver("""
x = LAG_x - 1
LAG_x = x(k-1)
x(0) = -100.
exogenous
MaxTime=3""", run_equation_reduction=False)
s.ExtractVariableList(); s.SetInitialConditions(); s.ParameterInitialSteadyStateMaxTime=5
try:
    n = s.CalculateInitialSteadyState(); print('accepted', {k:v[0] for k,v in s.TimeSeries.items()}, n.TimeSeries['x'])
except Exception as e: print('ERR', type(e), e)
# C20
from sfc_models.deprecated.iterative_machine_generator import IterativeMachineGenerator
import os, tempfile, runpy
g = IterativeMachineGenerator("x = y + 1\ny = 0.5*x\nMaxTime = 3")
d = tempfile.mkdtemp(); f = os.path.join(d,'gen.py'); g.main(f)
try:
    runpy.run_path(f, run_name='__main__'); print('gen ok')
except Exception as e: print('GEN ERR', type(e), e)
# CentralBank without MoneyMarket
from sfc_models.objects import *
mod = Model(); c = Country(mod,'CA'); tre = Treasury(c,'TRE'); cb = CentralBank(c,'CB',treasury=tre); hh = Household(c,'HH')
bus = FixedMarginBusiness(c,'BUS'); tf = TaxFlow(c,'TF',taxrate=.2, taxes_paid_to='TRE'); Market(c,'LAB'); Market(c,'GOOD')
dep = DepositMarket(c, issuer_short_code='TRE')
hh.AddVariable('DEM_DEP','d','0.5*F')
tre.SetExogenous('DEM_GOOD','[20.,]*20'); mod.EquationSolver.MaxTime=2
try: mod.main(); print('ok')
except Exception as e: print('CB ERR', type(e), str(e)[:300])
