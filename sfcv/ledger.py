"""Ledger extraction from an effect trace (E4) and the balance check in the ledger algebra (E5).

Ledger convention: one ledger per real currency; entries are the F terms of sectors plus the FX intermediary's NET_<cur>
terms (positive = FX receives).  'NUMERAIRE' is the numeraire ledger (C07)."""
import itertools

from .algebra import Poly, Reader, make_sum, normalize, substitute, mentions_elem, short
from .strdom import Str, Hole, Role, Coll, Guard, Cond, SELF, lit


def strip_sign(s):
    """'-X' / '+X' / 'X' -> Str of the bare name (only a leading literal sign is removed)"""
    if s.parts and isinstance(s.parts[0], str):
        first = s.parts[0].lstrip()
        if first[:1] in '+-':
            first = first[1:].lstrip()
        return Str((first,) + s.parts[1:])
    return s


class Entry(object):
    def __init__(self, cur, poly, loops, elem_guards, outer_guards, where, desc, role):
        self.cur = cur
        self.poly = poly
        self.loops = loops
        self.elem_guards = elem_guards
        self.outer = outer_guards
        self.where = where
        self.desc = desc
        self.role = role

    def wrapped(self):
        p = self.poly
        for lk in reversed(self.loops):
            gs = tuple(g.key() for g in self.elem_guards if mentions_elem(g.key(), lk))
            p = make_sum(lk, gs, p)
        return p


class Identity(object):
    def __init__(self, atom, poly, strength, loops, elem_guards, outer, where, text, empty=False):
        self.atom = atom
        self.poly = poly
        self.strength = strength      # overwrite | accumulate | define-if-empty
        self.loops = loops
        self.elem_guards = elem_guards
        self.outer = outer
        self.where = where
        self.text = text
        self.empty = empty


class UnitLedger(object):
    def __init__(self, interp, phases=('gen', 'prim')):
        self.it = interp
        self.colls = {}
        for e in interp.effects:
            for ck, coll in e.loops:
                self.colls[ck] = coll
        self.entries = []
        self.identities = []
        self.side_conditions = []
        self.aborts = []          # raise effects: (loops, elem_guards, outer_guards)
        self.problems = []
        effects = interp.effects
        for e in effects:
            if e.phase not in phases and not (e.phase == 'ctor' and e.kind == 'def'):
                continue
            loops = tuple(l[0] for l in e.loops)
            eg = tuple(g for g in e.guards if any(mentions_elem(g.key(), lk) for lk in loops))
            og = tuple(g for g in e.guards if g not in eg)
            if e.phase == 'ctor':
                if e.kind == 'def':
                    self.add_def(e, loops, eg, og, ctor=True)
                continue
            if e.kind == 'cashflow':
                for extra, term in expand_phi(e.term):
                    guards = tuple(e.guards) + extra
                    eg2 = tuple(g for g in guards if any(mentions_elem(g.key(), lk) for lk in loops))
                    og2 = tuple(g for g in guards if g not in eg2)
                    rd = Reader(e.role)
                    poly = rd.read(term)
                    self.problems += ['%s: %s' % (e.where, p) for p in rd.problems]
                    cur = self.cur_rep(e.role, guards)
                    self.entries.append(Entry(cur, poly, loops, eg2, og2, e.where, 'F(%s) += %s' % (e.role.show(), term.show()), e.role))
                if e.rhs is not None:
                    name = strip_sign(e.term)
                    atom = ('var', e.role.key(), name.key())
                    if e.rhs.is_empty():
                        pass          # define-if-empty with an empty definition: no-op
                    else:
                        rd2 = Reader(e.role)
                        self.identities.append(Identity(atom, rd2.read(e.rhs), 'define-if-empty', loops, eg, og, e.where,
                                                        '%s.%s :=? %s' % (e.role.show(), name.show(), e.rhs.show())))
            elif e.kind == 'blockterm' and e.role.kind == 'ext' and e.role.args[0] == 'FX':
                rd = Reader(e.role)
                poly = rd.read(e.term)
                cur = self.fx_currency(e.name, e.guards)
                ent = Entry(cur, poly, loops, eg, og, e.where, 'FX %s += %s' % (e.name.show(), e.term.show()), e.role)
                ent.fx_name = e.name
                ent.via = e.via
                self.entries.append(ent)
            elif e.kind == 'def':
                # create-if-absent of the variable itself (`if name not in block: AddVariable(name, ...)`) is idempotent:
                # whoever created it earlier used the same template, so the definition holds either way
                own = [g for g in e.guards if (not g.pol) and g.cond.kind == 'present' and g.cond.args[0] == e.role
                       and g.cond.args[1] == e.name]
                if own and e.mode == 'create' and not e.rhs.is_empty():
                    eg2 = tuple(g for g in eg if g not in own)
                    og2 = tuple(g for g in og if g not in own)
                    self.add_def(e, loops, eg2, og2)
                else:
                    self.add_def(e, loops, eg, og)
            elif e.kind == 'raise':
                self.aborts.append((loops, eg, og, e.where))

    # ---- identities -------------------------------------------------------------------------------------
    def add_def(self, e, loops, eg, og, ctor=False):
        atom = ('var', e.role.key(), e.name.key())
        rd = Reader(e.role)
        if ctor and not e.rhs.is_empty():
            # constructor declarations are defaults that other code (exogenous settings, other units) may replace:
            # only structural lag definitions  X := Y(k-1)  are used as identities; emptiness is used as a fact
            pl = rd.read(e.rhs)
            atoms = pl.atoms()
            if not (len(pl.terms) == 1 and len(atoms) == 1 and list(atoms)[0][0] == 'lag' and list(pl.terms.values())[0] == 1):
                return
        if e.mode in ('create', 'set'):
            if e.rhs.is_empty():
                self.identities.append(Identity(atom, Poly(), 'overwrite', loops, eg, og, e.where,
                                                '%s.%s := (empty)' % (e.role.show(), e.name.show()), empty=True))
            else:
                self.identities.append(Identity(atom, rd.read(e.rhs), 'overwrite', loops, eg, og, e.where,
                                                '%s.%s := %s' % (e.role.show(), e.name.show(), e.rhs.show())))
        elif e.mode == 'addterm':
            self.identities.append(Identity(atom, rd.read(e.rhs), 'accumulate', loops, eg, og, e.where,
                                            '%s.%s += %s' % (e.role.show(), e.name.show(), e.rhs.show())))
        self.problems += ['%s: %s' % (e.where, p) for p in rd.problems]

    # ---- currencies -------------------------------------------------------------------------------------
    def cur_sym(self, role):
        if role.kind == 'loop':
            coll = self.colls.get(role.args[0])
            if coll is not None and coll.kind in ('zone_sectors', 'country_sectors') and coll.args:
                return self.cur_sym(coll.args[0])
            return ('cur', role.key())
        if role.kind == 'lookup' and role.args[0] in ('zone', 'country'):
            return self.cur_sym(role.args[1])
        if role.kind in ('zone', 'parent') and role.args:
            return self.cur_sym(role.args[0])
        return ('cur', role.key())

    def cur_rep(self, role, guards):
        sym = self.cur_sym(role)
        cls = {sym}
        changed = True
        while changed:
            changed = False
            for g in guards:
                if g.pol and g.cond.kind == 'samezone':
                    a, b = self.cur_sym(g.cond.args[0]), self.cur_sym(g.cond.args[1])
                    if (a in cls) != (b in cls):
                        cls |= {a, b}
                        changed = True
        selfsym = ('cur', SELF.key())
        if selfsym in cls:
            return selfsym
        return sorted(cls, key=repr)[0]

    def fx_currency(self, name, guards):
        if name.is_literal():
            return ('cur', name.literal().replace('NET_', ''))
        for h in name.holes():
            if h.kind == 'currency':
                return self.cur_rep(h.args[0], guards)
        return ('cur', name.show())

    # ---- scenarios ---------------------------------------------------------------------------------------
    def outer_conds(self):
        conds = {}
        for x in self.entries:
            for g in x.outer:
                conds[g.cond.key()] = g.cond
        for i in self.identities:
            for g in i.outer:
                conds[g.cond.key()] = g.cond
        for loops, eg, og, where in self.aborts:
            for g in og:
                conds[g.cond.key()] = g.cond
        return conds

    def scenarios(self, cap=7):
        conds = self.outer_conds()
        keys = sorted(conds, key=repr)
        if len(keys) > cap:
            self.problems.append('too many outer conditions (%d); only the first %d are enumerated' % (len(keys), cap))
            keys = keys[:cap]
        for bits in itertools.product((True, False), repeat=len(keys)):
            sc = dict(zip(keys, bits))
            # a scenario in which an unconditional raise fires produces no model
            aborted = False
            for loops, eg, og, where in self.aborts:
                if not loops and not eg and all(sc.get(g.cond.key(), None) == g.pol for g in og) and og:
                    aborted = True
            if not aborted:
                yield sc

    def holds(self, guards, sc):
        return all(sc.get(g.cond.key(), g.pol) == g.pol for g in guards)

    def forbidden_literals(self, sc):
        """elem-level guard literals that make the unit raise in this scenario: in surviving runs they are false"""
        out = set()
        for loops, eg, og, where in self.aborts:
            if loops and len(eg) == 1 and self.holds(og, sc):
                out.add(eg[0].key())
        return out

    # ---- lookup of identities ----------------------------------------------------------------------------
    def make_lookup(self, sc, use_define_if_empty=True, forb=frozenset()):
        table = {}
        notes = []
        always = frozenset((c, not pol) for c, pol in forb)
        for idn in self.identities:
            if not self.holds(idn.outer, sc):
                continue
            if atom_in_poly(idn.atom, idn.poly):
                continue      # self-referential definition (x = x - ...): an equation, not a substitution rule
            lst = table.setdefault(idn.atom, [])
            gk = frozenset(g.key() for g in idn.elem_guards) - always
            if idn.strength == 'overwrite':
                # replaces earlier definitions made under the same (or weaker) elem guards
                lst[:] = [x for x in lst if not (x[0] >= gk or x[0] == gk)]
                lst.append((gk, idn.poly, idn))
            elif idn.strength == 'accumulate':
                prev = [x for x in lst if x[0] <= gk]
                base = prev[-1][1] if prev else Poly()
                if not prev:
                    notes.append('assumes %s is empty before the first AddTermToEquation (%s)' % (idn.text.split(' +=')[0], idn.where))
                lst[:] = [x for x in lst if not (x[0] == gk)]
                lst.append((gk, base + idn.poly, idn))
            elif idn.strength == 'define-if-empty' and use_define_if_empty:
                prev = [x for x in lst if x[0] <= gk and not x[2].empty]
                if prev:
                    continue          # already defined in this unit: the define-if-empty does nothing
                lst.append((gk, idn.poly, idn))
                notes.append('relies on define-if-empty: %s (%s)' % (idn.text, idn.where))
        self.lookup_notes = notes

        def lookup(atom, ctx_guards):
            lst = table.get(atom)
            if not lst:
                return None
            for gk, poly, idn in reversed(lst):
                if gk <= ctx_guards or not gk:
                    return poly
            return None
        return lookup, table

    def reduce(self, poly, sc, unique_guard=None):
        """substitute the unit's identities (under scenario sc) and normalise"""
        forb = self.forbidden_literals(sc)
        lookup, table = self.make_lookup(sc, forb=forb)
        p = drop_forbidden(poly, forb)
        p = substitute(p, lookup)
        p = drop_forbidden(p, forb)
        return normalize(p, unique_guard)

    def fx_valuation(self, unique_guard=None):
        """per scenario: sum over the FX entries of  entry * XR(currency)  (numeraire entries at 1)"""
        from .strdom import ext
        out = []
        for sc in self.scenarios():
            total = Poly()
            used = []
            for x in self.entries:
                if not hasattr(x, 'fx_name') or not self.holds(x.outer, sc):
                    continue
                used.append(x)
                w = x.wrapped()
                if x.fx_name.is_literal():
                    total = total + w
                    continue
                cur_holes = [h for h in x.fx_name.holes() if h.kind == 'currency']
                if not cur_holes:
                    self.problems.append('FX key without currency: ' + x.fx_name.show())
                    continue
                xr = Poly.atom(('var', ext('XR').key(), Str([cur_holes[0]]).key()))
                # multiply inside the sums (the rate may depend on the loop element)
                p = x.poly * xr
                for lk in reversed(x.loops):
                    gs = tuple(g.key() for g in x.elem_guards if mentions_elem(g.key(), lk))
                    p = make_sum(lk, gs, p)
                total = total + p
            if used:
                out.append((sc, self.reduce(total, sc, unique_guard), used))
        seen, res = set(), []
        for sc, total, used in out:
            rel = tuple(sorted(((k, v) for k, v in sc.items() if any(k == g.cond.key() for x in used for g in x.outer)), key=repr))
            if (rel, total.freeze()) in seen:
                continue
            seen.add((rel, total.freeze()))
            res.append((dict(rel), total, used))
        return res

    # ---- the balance check -------------------------------------------------------------------------------
    def balance(self, unique_guard=None):
        """yields (scenario, currency, total poly after normalisation, contributing entries)"""
        results = []
        for sc in self.scenarios():
            forb = self.forbidden_literals(sc)
            lookup, table = self.make_lookup(sc, forb=forb)
            per_cur = {}
            for x in self.entries:
                if not self.holds(x.outer, sc):
                    continue
                per_cur.setdefault(x.cur, []).append(x)
            for cur, xs in sorted(per_cur.items(), key=repr):
                total = Poly()
                for x in xs:
                    total = total + x.wrapped()
                total = drop_forbidden(total, forb)
                total = substitute(total, lookup)
                total = drop_forbidden(total, forb)
                total = normalize(total, unique_guard)
                results.append((sc, cur, total, xs))
        # identical verdicts under scenarios that differ only in irrelevant conditions are reported once
        seen, out = set(), []
        for sc, cur, total, xs in results:
            rel = tuple(sorted(((k, v) for k, v in sc.items() if any(k == g.cond.key() for x in xs for g in x.outer)), key=repr))
            key = (rel, cur, total.freeze())
            if key in seen:
                continue
            seen.add(key)
            out.append((dict(rel), cur, total, xs))
        return out


def expand_phi(term):
    """a term that is exactly one phi hole on a condition -> [(extra guards, alternative)]"""
    if len(term.parts) == 1 and isinstance(term.parts[0], Hole) and term.parts[0].kind == 'phi':
        c, a, b = term.parts[0].args[:3]
        pol = True
        if isinstance(c, Cond) and c.kind == 'not':
            c, pol = c.args[0], False
        if isinstance(c, Cond) and isinstance(a, Str) and isinstance(b, Str):
            out = []
            for extra, alt in expand_phi(a):
                out.append(((Guard(c, pol),) + extra, alt))
            for extra, alt in expand_phi(b):
                out.append(((Guard(c, not pol),) + extra, alt))
            return out
    return [((), term)]


def drop_forbidden(p, forb):
    """Sum(L, G + {lit}) == Sum(L, G) when the negation of lit aborts the unit"""
    if not forb:
        return p
    neg = {(c, not pol) for c, pol in forb}
    out = Poly()
    for m, c in p.terms.items():
        nm = []
        for a, e in m:
            if a[0] == 'sum':
                if any(g in forb for g in a[2]):
                    nm = None          # the sum ranges over elements that abort the unit: empty in surviving runs
                    break
                gs = tuple(g for g in a[2] if g not in neg)
                body = drop_forbidden(Poly.thaw(a[3]), forb)
                a = ('sum', a[1], tuple(sorted(gs, key=repr)), body.freeze())
            nm.append((a, e))
        if nm is None:
            continue
        out = out + Poly({tuple(sorted(nm, key=repr)): c})
    return out


def atom_in_poly(atom, poly):
    for a in poly.atoms():
        if a == atom:
            return True
        if a[0] == 'lag' and a[1] == atom:
            return True
        if a[0] == 'sum' and atom_in_poly(atom, Poly.thaw(a[3])):
            return True
    return False


def show_scenario(sc):
    return ', '.join('%s=%s' % (short(k), v) for k, v in sorted(sc.items(), key=repr)) or '(no conditions)'
