"""Metamorphic audit of the analyser: meaning-preserving rewrites of the analysed tree must leave every verdict
unchanged.  The rewritten tree is written to a temporary directory outside /repo and /verif and removed at once.

T1 reformat : ast.unparse round trip of every module (comments, layout, quoting and all line numbers change)
T2 rename   : every function-local variable (not a parameter, not global) gets a new name
T3 reorder  : T1 + T2 + blank padding at the top of every module (line numbers shift by a different amount per file)"""
import ast
import os
import shutil
import tempfile


class LocalRenamer(ast.NodeTransformer):
    """rename function-local names  x -> x_rn  (only plain local variables of the innermost function)"""

    def __init__(self):
        self.stack = []

    def visit_FunctionDef(self, node):
        params = {a.arg for a in node.args.posonlyargs + node.args.args + node.args.kwonlyargs}
        if node.args.vararg:
            params.add(node.args.vararg.arg)
        if node.args.kwarg:
            params.add(node.args.kwarg.arg)
        assigned, banned = set(), set(params)
        for n in ast.walk(node):
            if n is node:
                continue
            if isinstance(n, (ast.Global, ast.Nonlocal)):
                banned.update(n.names)
            if isinstance(n, (ast.FunctionDef, ast.Lambda, ast.ClassDef)):
                # names used inside nested scopes are left alone (closure capture)
                for m in ast.walk(n):
                    if isinstance(m, ast.Name):
                        banned.add(m.id)
            if isinstance(n, (ast.ListComp, ast.SetComp, ast.DictComp, ast.GeneratorExp)):
                for m in ast.walk(n):
                    if isinstance(m, ast.Name):
                        banned.add(m.id)
            if isinstance(n, ast.Name) and isinstance(n.ctx, ast.Store):
                assigned.add(n.id)
            if isinstance(n, ast.ExceptHandler) and n.name:
                banned.add(n.name)
            if isinstance(n, (ast.Import, ast.ImportFrom)):
                for al in n.names:
                    banned.add((al.asname or al.name).split('.')[0])
        # eval()/exec() with implicit locals would see renamed names: leave such functions alone
        for n in ast.walk(node):
            if isinstance(n, ast.Call) and isinstance(n.func, ast.Name) and n.func.id in ('eval', 'exec', 'locals', 'vars') and len(n.args) < 3:
                return node
        ren = {x: x + '_rn' for x in assigned - banned if not x.startswith('__')}
        self.stack.append(ren)
        node.body = [self.visit(s) for s in node.body]
        self.stack.pop()
        return node

    def visit_Name(self, node):
        if self.stack and node.id in self.stack[-1]:
            return ast.copy_location(ast.Name(id=self.stack[-1][node.id], ctx=node.ctx), node)
        return node

    def visit_Lambda(self, node):
        return node

    def visit_ClassDef(self, node):
        self.stack.append({})
        node.body = [self.visit(s) for s in node.body]
        self.stack.pop()
        return node


def transform_tree(root, kind):
    """copy root/sfc_models to a temp dir applying the transformation; returns the temp root"""
    tmp = tempfile.mkdtemp(prefix='sfcv_audit_')
    src = os.path.join(root, 'sfc_models')
    dst = os.path.join(tmp, 'sfc_models')
    n = 0
    for dirpath, dirnames, filenames in os.walk(src):
        dirnames[:] = [d for d in dirnames if d != '__pycache__']
        rel = os.path.relpath(dirpath, src)
        os.makedirs(os.path.join(dst, rel), exist_ok=True)
        for fn in filenames:
            if not fn.endswith('.py'):
                continue
            sp = os.path.join(dirpath, fn)
            dp = os.path.join(dst, rel, fn)
            try:
                with open(sp, 'rb') as f:
                    text = f.read().decode('utf-8', 'replace')
                import warnings
                with warnings.catch_warnings():
                    warnings.simplefilter('ignore')
                    tree = ast.parse(text)
                if kind in ('rename', 'all'):
                    tree = LocalRenamer().visit(tree)
                    ast.fix_missing_locations(tree)
                out = ast.unparse(tree)
                if kind == 'all':
                    n += 1
                    out = '\n' * (3 + (n * 7) % 11) + out
                with open(dp, 'w') as f:
                    f.write(out + '\n')
            except SyntaxError:
                shutil.copy(sp, dp)
    return tmp


def verdict_signature(check):
    """what must be invariant: per rule, how many obligations hold / fail"""
    sig = {}
    for o in check.obligations:
        r = sig.setdefault(o.rule, [0, 0])
        r[0 if o.ok else 1] += 1
    return {k: tuple(v) for k, v in sig.items()}
