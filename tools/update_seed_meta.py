"""Re-run every check on every stored seed / refactoring and record the current matrix in each meta.json
(development helper; 12 variants at a time, evidence redirected to the scratch copy)."""
import glob, json, os, shutil, subprocess, sys, tempfile
from concurrent.futures import ThreadPoolExecutor


def one(sd):
    meta = json.load(open(sd + '/meta.json'))
    d = tempfile.mkdtemp(prefix='sfcv_us_')
    env = dict(os.environ, SFCV_OUT_DIR=d + '/_out')
    try:
        shutil.copytree('/repo/sfc_models', d + '/sfc_models', ignore=shutil.ignore_patterns('__pycache__'))
        subprocess.run(['git', 'init', '-q'], cwd=d)
        subprocess.run(['git', 'apply', sd + '/patch.diff'], cwd=d, check=True)
        now = {}
        for i in range(1, 21):
            pid = 'C%02d' % i
            r = subprocess.run(['/venv/bin/python', '-m', 'sfcv', 'check', pid, '--root', d], cwd='/verif', capture_output=True, text=True, env=env)
            if r.returncode != 0:
                rules = sorted({l.split()[1] for l in r.stdout.splitlines() if l.startswith('  ') and len(l.split()) > 1 and l.split()[1].startswith(pid + '.')})
                now[pid] = {'rc': r.returncode, 'rules': rules}
        if 'property' in meta:
            if 'caught_by_at_intake' not in meta:
                meta['caught_by_at_intake'] = meta.get('caught_by', [])
            meta['caught_by'] = sorted(k for k, v in now.items() if v['rc'] == 1)
            meta['caught_by_rules'] = {k: v['rules'] for k, v in now.items() if v['rc'] == 1}
            meta['analysis_errors'] = sorted(k for k, v in now.items() if v['rc'] == 2)
            meta['caught_by_own_property_check'] = meta['property'] in meta['caught_by']
            meta.pop('checks', None)
        else:
            if 'non_silent_checks_at_intake' not in meta:
                meta['non_silent_checks_at_intake'] = meta.get('non_silent_checks', {})
            meta['non_silent_checks'] = now
        json.dump(meta, open(sd + '/meta.json', 'w'), indent=1)
        return os.path.basename(sd), now
    finally:
        shutil.rmtree(d, ignore_errors=True)


kinds = [a for a in sys.argv[1:] if a in ('seeded', 'refactors')] or ['seeded', 'refactors']
pats = [a for a in sys.argv[1:] if a not in ('seeded', 'refactors')] or ['*']      # optional name globs, e.g. 'B6*'
dirs = sorted({sd for k in kinds for pt in pats for sd in glob.glob('/verif/%s/%s' % (k, pt))})
with ThreadPoolExecutor(12) as ex:
    for name, now in ex.map(one, dirs):
        print(name, {k: (v['rc'], v['rules']) for k, v in now.items()})
