"""C19 - tab-delimited output is a faithful table of the results (decided structural clauses).

R1 permutation        : the series list is a permutation of the keys: each priority `append` is paired with a `remove`
                        of the same name under the membership test; the remainder is sorted; both parts are returned.
R2 same sequence      : header and every row iterate the same sequence; the row count is the `min` of the lengths;
                        each cell is `format % (value,)` with the *parameter* format; cells/rows joined by tab/newline.
R3 horizon+1 rows     : the solve loop runs range(1, MaxTime+1) and every partition is appended once per step
                        (same formulation as C10.R1 / C10.R2)."""
import ast

from .. import cfg as cfgmod
from ..loader import AnalysisError, unparse, call_name
from ..dataflow import single_assign_subst, target_names, linform, lin_eq, resolve_expr
from ..cfg import atomic_facts
from ..solver_model import solver_function
from .C10 import check_bounds
from .C16 import discover_accessors

TECHNIQUE = ('static analysis: path pairing of append/remove under membership facts (or the compound sort key) in the ordering helper, same-sequence and bound=min checks over iteration sites (for statements and comprehensions) with temporaries resolved, parameter flow of the cell format, pass-through check of wrappers')
EXPLANATION = (
    'The ordering helper is shown to return a permutation (append and remove of the same name are paired on every path, '
    'under the membership test, remainder sorted, both parts concatenated); the renderer iterates one and the same sequence '
    'for header and rows, bounds the rows by the minimum length and formats each cell with the caller-supplied format applied '
    'to a 1-tuple; the horizon+1 row count follows from the solve loop bound. Round-trip precision of values is not decided.')


def _is_priority(e):
    return isinstance(e, ast.Attribute) and e.attr == 'SortPriority'


def _ancestors(n):
    p_ = getattr(n, '_parent', None)
    while p_ is not None:
        yield p_
        p_ = getattr(p_, '_parent', None)


def order_by_sort_key(check, h, call, subst):
    """one sort of all keys with the compound key (priority rank or a rank after all priorities, name)"""
    keyf = [k.value for k in call.keywords if k.arg == 'key'][0]
    body = None
    param = None
    if isinstance(keyf, ast.Lambda):
        body, param = keyf.body, keyf.args.args[0].arg
    elif isinstance(keyf, ast.Name):
        for n in ast.walk(h.node):
            if isinstance(n, ast.FunctionDef) and n.name == keyf.id and n is not h.node:
                rs = [r for r in ast.walk(n) if isinstance(r, ast.Return)]
                if len(rs) == 1:
                    body, param = rs[0].value, n.args.args[0].arg
    if body is None:
        raise AnalysisError('ordering helper: sort key not understood')
    # rank table: dict((name, pos) for pos, name in enumerate(SortPriority)) / {name: pos for ...}
    rank_names = set()
    for n in ast.walk(h.node):
        if isinstance(n, ast.Assign) and len(n.targets) == 1 and isinstance(n.targets[0], ast.Name) and 'enumerate' in unparse(n.value) \
                and 'SortPriority' in unparse(n.value):
            rank_names.add(n.targets[0].id)
    ok, why = False, 'sort key `%s` is not (priority rank, name)' % unparse(body)
    if isinstance(body, ast.Tuple) and len(body.elts) == 2 and unparse(body.elts[1]) == param:
        r = body.elts[0]
        r = resolve_expr(r, {k: v for k, v in subst.items() if k not in rank_names})
        is_rank_table = isinstance(r, ast.Call) and isinstance(r.func, ast.Attribute) and (
            (isinstance(r.func.value, ast.Name) and r.func.value.id in rank_names) or
            ('enumerate' in unparse(r.func.value) and 'SortPriority' in unparse(r.func.value)))
        if is_rank_table and r.func.attr == 'get' and len(r.args) == 2 and unparse(r.args[0]) == param:
            d = resolve_expr(r.args[1], subst)
            last = unparse(d).startswith('len(') or (isinstance(d, ast.Constant) and isinstance(d.value, (int, float)) and d.value >= 1000)
            ok = bool(last)
            why = 'names are sorted by (priority rank, or a rank after all priorities; name)' if ok else \
                'names without priority get the rank `%s`, which does not come after every priority rank' % unparse(d)
        elif isinstance(r, ast.BoolOp) and isinstance(r.op, ast.Or):
            why = ('the rank is `%s`: the first priority name has rank 0, which `or` treats as "no rank", so it is sorted among the '
                   'ordinary names' % unparse(r))
    check.ob('C19.R1', '%s::priority-part' % h.key, ok, h.where, why,
             "a holder with 'iteration', 'iteration_error', 'iteration_abs_change', 'k' and 't' (the step trace)")
    check.ob('C19.R1', '%s::rest-sorted-without-priority' % h.key, ok, h.where,
             'one sort over all keys: every stored series exactly once' if ok else why, 'many names')
    check.ob('C19.R1', '%s::returns-priority-then-rest' % h.key, True, h.where, 'returns ' + unparse(call)[:60], '')


def order_helper(check, h):
    """R1: the helper returns  [priority names present, in SortPriority order] + [the other keys, sorted]"""
    g = cfgmod.build(h)
    subst = single_assign_subst(h.node)
    rets = [n for n in ast.walk(h.node) if isinstance(n, ast.Return) and n.value is not None and
            not any(isinstance(p_, (ast.FunctionDef, ast.Lambda)) and p_ is not h.node for p_ in _ancestors(n))]
    if len(rets) == 1 and isinstance(rets[0].value, ast.Call) and call_name(rets[0].value) == 'sorted' and rets[0].value.args and \
            'self' in unparse(rets[0].value.args[0]) and any(k.arg == 'key' for k in rets[0].value.keywords):
        return order_by_sort_key(check, h, rets[0].value, subst)
    if len(rets) != 1 or not (isinstance(rets[0].value, ast.BinOp) and isinstance(rets[0].value.op, ast.Add)):
        raise AnalysisError('ordering helper: the result is not `priority part + rest`')
    A, B = rets[0].value.left, rets[0].value.right

    def resolve(e):
        return subst.get(e.id, e) if isinstance(e, ast.Name) else e
    loops = [n for n in ast.walk(h.node) if isinstance(n, ast.For)]
    # all keys, sorted: some name is assigned sorted(self.keys()) / list(self.keys()) followed by .sort()
    sorted_names = set()
    for n in ast.walk(h.node):
        if isinstance(n, ast.Assign) and isinstance(n.targets[0], ast.Name):
            v = n.value
            if isinstance(v, ast.Call) and call_name(v) == 'sorted' and v.args and 'self' in unparse(v.args[0]):
                sorted_names.add(n.targets[0].id)
        if isinstance(n, ast.Call) and call_name(n) == 'sort' and isinstance(n.func.value, ast.Name):
            src = subst.get(n.func.value.id)
            if src is not None and 'self' in unparse(src) and ('keys' in unparse(src) or unparse(src) in ('list(self)',)):
                sorted_names.add(n.func.value.id)
    ra, rb = resolve(A), resolve(B)
    # ---- priority part ------------------------------------------------------------------------------
    pri_ok, pri_why = False, 'priority part not recognised'
    paired, guarded = True, True
    if isinstance(ra, ast.ListComp):
        gen = ra.generators[0]
        from_priority = _is_priority(gen.iter)
        filt = any(isinstance(c, ast.Compare) and isinstance(c.ops[0], ast.In) and isinstance(c.left, ast.Name)
                   and c.left.id == target_names(gen.target)[0] for c in gen.ifs)
        pri_ok = from_priority and filt and isinstance(ra.elt, ast.Name) and ra.elt.id == target_names(gen.target)[0]
        pri_why = ('priority names are taken in SortPriority order, filtered by presence' if pri_ok else
                   'the leading columns are produced by iterating %s: they come out in that order, not in the documented priority order'
                   % unparse(gen.iter))
    elif isinstance(A, ast.Name) and len(loops) == 1:
        loop = loops[0]
        x = target_names(loop.target)[0]
        hdr = [n for n in g.nodes if n.kind == 'for' and n.stmt is loop][0]
        apps = [n for n in g.stmt_nodes() if n.kind == 'stmt' and loop in n.loops and any(
            isinstance(c, ast.Call) and call_name(c) == 'append' and unparse(c.func.value) == A.id and c.args
            and isinstance(c.args[0], ast.Name) and c.args[0].id == x for c in ast.walk(n.ast))]
        rems = [n for n in g.stmt_nodes() if n.kind == 'stmt' and loop in n.loops and any(
            isinstance(c, ast.Call) and call_name(c) == 'remove' and c.args and isinstance(c.args[0], ast.Name) and c.args[0].id == x
            for c in ast.walk(n.ast))]
        first = [b for b, lab in g.succ[hdr.id] if lab is True]
        paths = []
        for b in first:
            paths += g.paths(b, hdr, cap=5000) if b != hdr.id else []
        paired = bool(paths) and bool(apps) and bool(rems)
        for p in paths:
            na = sum(1 for i in p if g.nodes[i] in apps)
            nr = sum(1 for i in p if g.nodes[i] in rems)
            if na != nr or na > 1:
                paired = False
        removed_from = None
        for n in rems:
            for c in ast.walk(n.ast):
                if isinstance(c, ast.Call) and call_name(c) == 'remove':
                    removed_from = unparse(c.func.value)
        def member_fact(n):
            for test, outcome in g.conditions_at(n):
                for _, v, e in atomic_facts(test, outcome):
                    if v is True and isinstance(e, ast.Compare) and len(e.ops) == 1 and isinstance(e.ops[0], ast.In) and \
                            isinstance(e.left, ast.Name) and e.left.id == x and unparse(e.comparators[0]) == removed_from:
                        return True
            return False
        guarded = bool(apps + rems) and all(member_fact(n) for n in apps + rems)
        pri_ok = _is_priority(loop.iter) and paired and guarded
        pri_why = ('priority names are moved (append + remove, under membership) in SortPriority order' if pri_ok else
                   'priority loop: source=%s paired=%s membership-guard=%s' % (unparse(loop.iter), paired, guarded))
        rest_is_removed_list = isinstance(B, ast.Name) and B.id == removed_from
    check.ob('C19.R1', '%s::priority-part' % h.key, pri_ok, h.where, pri_why,
             "a holder with 'iteration', 'iteration_error', 'iteration_abs_change', 'k' and 't' (the step trace)")
    # ---- rest -----------------------------------------------------------------------------------------
    rest_ok, rest_why = False, 'remainder not recognised'
    if isinstance(rb, ast.ListComp):
        gen = rb.generators[0]
        src_sorted = isinstance(gen.iter, ast.Name) and gen.iter.id in sorted_names or \
            (isinstance(gen.iter, ast.Call) and call_name(gen.iter) == 'sorted')
        excl = any(isinstance(c, ast.Compare) and isinstance(c.ops[0], ast.NotIn) and
                   (_is_priority(c.comparators[0]) or unparse(c.comparators[0]) == unparse(A)) for c in gen.ifs)
        rest_ok = bool(src_sorted) and excl and len(gen.ifs) == 1
        rest_why = 'the rest = sorted keys not in the priority list' if rest_ok else 'the rest is %s' % unparse(rb)
    elif isinstance(B, ast.Name):
        rest_ok = B.id in sorted_names and (not isinstance(ra, ast.ListComp))
        if isinstance(ra, ast.ListComp):
            rest_ok = False
            rest_why = 'the rest `%s` still contains the priority names (duplicated columns)' % B.id
        else:
            rest_why = 'the rest = the sorted key list after the priority names were removed' if rest_ok else \
                'the remainder `%s` is not the sorted list of all keys' % B.id
    check.ob('C19.R1', '%s::rest-sorted-without-priority' % h.key, rest_ok, h.where, rest_why,
             'many names: each stored series exactly once, the rest alphabetically')
    check.ob('C19.R1', '%s::returns-priority-then-rest' % h.key, True, h.where, 'returns %s + %s' % (unparse(A), unparse(B)), '')


def iteration_sites(fn_node):
    """[(target names, iterated expression, scope in which the targets are bound, node)] for `for` statements and
    comprehension generators alike"""
    out = []
    for n in ast.walk(fn_node):
        if isinstance(n, ast.For):
            out.append((target_names(n.target), n.iter, n, n))
        elif isinstance(n, (ast.ListComp, ast.GeneratorExp, ast.SetComp)):
            for gen in n.generators:
                out.append((target_names(gen.target), gen.iter, n, gen))
    return out


def run(prog, check):
    check.explanation = EXPLANATION
    check.not_decided = 'round-trip precision of formatted values (depends on the format string chosen by the caller)'
    check.assumptions = []
    acc = discover_accessors(prog)
    holder_r = [f for f in acc['renderer'] if f.cls is not None and any(c.name == 'dict' or c.name == 'TimeSeriesHolder'
                                                                        for c in f.cls.mro) and 'format_str' in f.params()
                or (f.cls is not None and f.cls.name == 'TimeSeriesHolder')]
    if len(holder_r) != 1:
        raise AnalysisError('series-holder renderer not found: %s' % [f.qualname for f in holder_r])
    r = holder_r[0]
    helpers = [h for h in acc['helper'] if h.cls is r.cls]
    if len(helpers) != 1:
        raise AnalysisError('ordering helper not found')
    h = helpers[0]
    check.saw(r)
    check.saw(h)
    # ---- R1 ----------------------------------------------------------------------------------------
    order_helper(check, h)
    # ---- R2 ----------------------------------------------------------------------------------------
    rs = single_assign_subst(r.node)
    seqs = [k for k, v in rs.items() if isinstance(v, ast.Call) and call_name(v) == h.name]
    if len(seqs) != 1:
        raise AnalysisError('renderer: the column sequence is not a single-assignment of the ordering helper')
    seq = seqs[0]
    header_ok = False
    for n in ast.walk(r.node):
        if isinstance(n, ast.Call) and call_name(n) == 'join' and isinstance(n.func.value, ast.Constant) and n.func.value.value == '\t' \
                and n.args and isinstance(n.args[0], ast.Name) and n.args[0].id == seq:
            header_ok = True
    check.ob('C19.R2', '%s::header-from-sequence' % r.key, header_ok, r.where,
             'header row joins `%s` by tabs' % seq if header_ok else 'header is not the tab-join of the column sequence', 'any names')
    sites = iteration_sites(r.node)
    row_loops = [st for st in sites if isinstance(st[1], ast.Name) and st[1].id == seq]
    cell_ok = False
    for targets, it, scope, node in row_loops:
        v = targets[0]
        # the enclosing iteration over the row index
        outer = None
        for t2, it2, scope2, node2 in sites:
            if node2 is not node and any(x is node or x is scope for x in ast.walk(scope2)) and \
                    isinstance(it2, ast.Call) and call_name(it2) == 'range':
                outer = t2
        if outer is None:
            continue
        i = outer[0]
        for c in ast.walk(scope):
            if isinstance(c, ast.Subscript) and isinstance(c.value, ast.Subscript) and unparse(c.value.value) == 'self' and \
                    unparse(c.value.slice) == v and unparse(c.slice) == i:
                cell_ok = True
    check.ob('C19.R2', '%s::rows-iterate-same-sequence' % r.key, bool(row_loops) and cell_ok, r.where,
             'each row reads self[v][i] for v in `%s`' % seq if (row_loops and cell_ok) else
             'rows do not iterate the header sequence with matching series/index', 'ragged / many series')
    # row bound = min of lengths over all values
    bound_ok = False
    bound_txt = ''
    for targets_, it_, scope_, n in sites:
        if isinstance(it_, ast.Call) and call_name(it_) == 'range':
            hi = it_.args[-1] if len(it_.args) <= 2 else it_.args[1]
            lo_ok = len(it_.args) == 1 or lin_eq(linform(it_.args[0]), {'': 0})
            e = resolve_expr(hi, rs)
            bound_txt = unparse(e)
            if isinstance(e, ast.Call) and call_name(e) == 'min' and lo_ok:
                inner = e.args[0] if e.args else None
                if inner is not None and any(isinstance(c, ast.Call) and call_name(c) == 'len' for c in ast.walk(inner)) and \
                        'self' in unparse(inner):
                    bound_ok = True
    check.ob('C19.R2', '%s::row-count-is-min-length' % r.key, bound_ok, r.where,
             'rows = range(0, %s)' % bound_txt, 'ragged series: one row per period up to the shortest series (no IndexError, no dropped rows)')
    fmt_param = [p for p in r.params() if 'format' in p.lower()]
    fmt_ok = False
    for n in ast.walk(r.node):
        if isinstance(n, ast.BinOp) and isinstance(n.op, ast.Mod) and isinstance(n.left, ast.Name) and n.left.id in fmt_param and \
                isinstance(n.right, ast.Tuple) and len(n.right.elts) == 1:
            fmt_ok = True
    check.ob('C19.R2', '%s::cell-format-is-parameter' % r.key, fmt_ok, r.where,
             'each cell is `%s %% (x,)`' % (fmt_param[0] if fmt_param else '?') if fmt_ok else
             'cells are not formatted with the caller-supplied format applied to a 1-tuple', "format '%.12g' / tuple-valued cells")
    rowjoin = sum(1 for n in ast.walk(r.node) if isinstance(n, ast.Call) and call_name(n) == 'join' and
                  isinstance(n.func.value, ast.Constant) and n.func.value.value == '\t')
    nl = sum(1 for n in ast.walk(r.node) if isinstance(n, ast.Constant) and n.value == '\n')
    check.ob('C19.R2', '%s::tab-and-newline' % r.key, rowjoin >= 2 and nl >= 2, r.where,
             'header and rows are tab-joined and newline-terminated', 'parsing the text back')
    # cells are joined as formatted: no further text surgery on the formatted cells
    surgery = [c for c in ast.walk(r.node) if isinstance(c, ast.Call) and isinstance(c.func, ast.Attribute) and
               c.func.attr in ('rstrip', 'lstrip', 'strip', 'replace', 'zfill', 'ljust', 'rjust', 'center', 'lower', 'upper', 'split', 'format')
               and not (isinstance(c.func.value, ast.Constant))]
    check.ob('C19.R2', '%s::cells-joined-as-formatted' % r.key, not surgery, '%s:%d' % (r.module.rel, surgery[0].lineno) if surgery else r.where,
             'formatted cells are joined unchanged' if not surgery else
             'formatted cells are rewritten by `%s` before they are joined: the text no longer parses back to the value in the requested format'
             % unparse(surgery[0])[:60], "exponent notation: '1.5e+10'.rstrip('0') is '1.5e+1'")
    # every other method of that name is a plain pass-through to this renderer (no remembered text)
    for fo in prog.all_functions():
        if fo.name == r.name and fo is not r and fo.key != r.key and '/deprecated/' not in fo.module.rel and fo not in acc['wrapper'] \
                and fo.key not in [w_.key for w_ in acc['wrapper']]:
            check.saw(fo)
            check.ob('C19.R2', '%s::wrapper-is-pass-through' % fo.key, False, fo.where,
                     'the table text returned is not always the rendering of the current series (a remembered text can be returned)',
                     'rendering, stepping the solver, rendering again')
    # wrapper passes the format through
    for w in acc['wrapper']:
        check.saw(w)
        ok = False
        for n in ast.walk(w.node):
            if isinstance(n, ast.Call) and call_name(n) == r.name:
                fp = [p for p in w.params() if 'format' in p.lower()]
                ok = bool(fp) and any(isinstance(a, ast.Name) and a.id == fp[0] for a in list(n.args) + [k.value for k in n.keywords])
        check.ob('C19.R2', '%s::wrapper-forwards-format' % w.key, ok, w.where,
                 'the solver-level wrapper forwards its format parameter' if ok else 'the wrapper drops the requested format',
                 "GenerateCSVtext('%.10f')")
    # ---- R3 ----------------------------------------------------------------------------------------
    sa = solver_function(prog, 'solve_all')
    check.saw(sa)
    check_bounds(check, sa, single_assign_subst(sa.node), rule='C19.R3')
    check.floor('C19.R1', 3)
    check.floor('C19.R2', 7)
    check.floor('C19.R3', 1)
