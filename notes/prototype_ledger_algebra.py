# Throwaway feasibility prototype of the E5 ledger algebra written during the design round.
# NOT framework code and not used by any check: it only shows that polynomial normalisation with
# Sum/Lag atoms closes the four hardest balance obligations (market, deposit interest, asset
# weights, FX numeraire valuation) — each prints {} (the zero polynomial).
from fractions import Fraction
from collections import defaultdict
# atom = hashable tuple; monomial = frozenset of (atom, exp) ; poly = dict monomial -> Fraction
def P(c=0): return {frozenset(): Fraction(c)} if c else {}
def V(*a): return {frozenset([(tuple(a),1)]): Fraction(1)}
def add(p,q,s=1):
    r=defaultdict(Fraction); 
    for m,c in p.items(): r[m]+=c
    for m,c in q.items(): r[m]+=s*c
    return {m:c for m,c in r.items() if c!=0}
def mulm(m1,m2):
    d=defaultdict(int)
    for a,e in m1: d[a]+=e
    for a,e in m2: d[a]+=e
    return frozenset((a,e) for a,e in d.items() if e!=0)
def mul(p,q):
    r=defaultdict(Fraction)
    for m1,c1 in p.items():
        for m2,c2 in q.items(): r[mulm(m1,m2)]+=c1*c2
    return {m:c for m,c in r.items() if c!=0}
def inv(atom): return {frozenset([(atom,-1)]): Fraction(1)}
def key(p): return tuple(sorted((tuple(sorted(m)),c) for m,c in p.items()))
def Sum(coll, guard, body, binder='$e'):
    """Sum over collection of polynomial body(binder). Factor loop-invariant monomial parts out; linear in body."""
    out={}
    for m,c in body.items():
        dep=frozenset((a,e) for a,e in m if binder in repr(a)); indep=frozenset((a,e) for a,e in m if binder not in repr(a))
        atom=('Sum',coll,guard,tuple(sorted(dep)))
        out=add(out,{mulm(indep,frozenset([(atom,1)])):c})
    return out
def subst(p, defs, depth=0):
    """substitute Var atoms by definitions (polys), incl. inside Sum bodies and Lag (linear)"""
    changed=True
    while changed:
        changed=False; r={}
        for m,c in p.items():
            term={frozenset():c}
            for a,e in m:
                rep=None
                if a in defs and e==1: rep=defs[a]; changed=True
                elif a[0]=='Lag' and a[1] in defs and e==1:
                    rep=lag(defs[a[1]]); changed=True
                elif a[0]=='Sum' and e==1:
                    body={frozenset(a[3]):Fraction(1)}
                    nb=subst_once(body,defs)
                    if key(nb)!=key(body): rep=Sum(a[1],a[2],nb); changed=True
                term=mul(term, rep if rep is not None else {frozenset([(a,e)]):Fraction(1)})
            r=add(r,term)
        p=r
    return p
def subst_once(p,defs):
    r={}
    for m,c in p.items():
        term={frozenset():c}
        for a,e in m:
            rep=None
            if e==1 and a in defs: rep=defs[a]
            elif e==1 and a[0]=='Lag' and a[1] in defs: rep=lag(defs[a[1]])
            term=mul(term, rep if rep is not None else {frozenset([(a,e)]):Fraction(1)})
        r=add(r,term)
    return r
def lag(p):
    """Lag is linear: lag(sum c*atom) ; lag of Sum = Sum of lag"""
    r={}
    for m,c in p.items():
        assert len(m)==1, m
        (a,e),=m; assert e==1
        if a[0]=='Sum':
            (ba,be),=a[3]
            r=add(r,{frozenset([(('Sum',a[1],a[2],((('Lag',ba),1),)),1)]):c})
        else: r=add(r,{frozenset([(('Lag',a),1)]):c})
    return r
# ---- Market
sDEM=V('var','$e','DEM')            # V(s, var_name) for loop elem e
DEMsum=Sum('zone','hasDEM',sDEM)
SUPo=V('var','Self','SUP_','$e.FullCode')
others=Sum('Others','all',SUPo)
SUPres=('var','Self','SUP_','res.FullCode')
defs={('var','Self','DEM'):DEMsum, ('var','Self','SUP'):V('var','Self','DEM'), SUPres: add(V('var','Self','SUP'),others,-1)}
ledger=add(add(P(), DEMsum,-1), add(others, {frozenset([(SUPres,1)]):Fraction(1)}))
print('market', subst(ledger,defs))
# ---- Deposit market
hold=V('var','$e','DEM_DEP')
defs={('var','iss','SUP_DEP'):V('var','Self','DEM_DEP'), ('var','Self','DEM_DEP'):Sum('zone','holder',hold)}
LAGr=V('var','Self','LAG_r')
iss_int=mul(LAGr, lag(V('var','iss','SUP_DEP')))
hold_int=Sum('zone','holder', mul(LAGr, lag(hold)))
print('deposit', subst(add(hold_int,iss_int,-1),defs))
# ---- Asset weighting
F=V('var','Self','F'); W=V('var','Self','WGT_','$e')
defs={('var','Self','WGT_res'): add(P(1), Sum('assets','all',W),-1)}
tot=add(Sum('assets','all',mul(F,W)), mul(F,V('var','Self','WGT_res')))
print('weights', subst(add(tot,F,-1),defs))
# ---- FX numeraire valuation for receive: -v*X(s,t)*XR_t + v*XR_s with X := XR_s/XR_t
v=V('v'); XRs=V('XR','s'); XRt=V('XR','t')
X=mul(XRs, inv(('XR','t')))
print('fx', add(mul(mul(mul(P(-1),v),X),XRt), mul(v,XRs)))
