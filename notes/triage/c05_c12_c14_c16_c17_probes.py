import warnings; warnings.simplefilter('ignore')
from sfc_models.objects import *
from sfc_models.equation import Equation, Term
from sfc_models.utils import create_equation_from_terms
from sfc_models.equation_solver import EquationSolver
from sfc_models.base_solver import BaseSolver
print('--- C05 global placeholder')
mod = Model(); c = Country(mod,'CA'); gov = ConsolidatedGovernment(c,'GOV'); hh = Household(c,'HH')
bus = FixedMarginBusiness(c,'BUS'); tf = TaxFlow(c,'TF',taxrate=.2); Market(c,'LAB'); Market(c,'GOOD')
gov.SetExogenous('DEM_GOOD','[20.,]*20')
mod.AddGlobalEquation('WEALTH2','twice wealth', '2*'+hh.GetVariableName('F'))
mod.EquationSolver.MaxTime=2
try:
    eq = mod.main(); print([l for l in eq.split('\n') if 'WEALTH2' in l])
except Exception as e:
    print('ERR', type(e), str(e)[:100]); print([l for l in mod.FinalEquations.split('\n') if 'WEALTH2' in l])
print('--- C12 blob merge')
e = Equation('y','d',[Term('x', is_blob=True)]); e.AddTerm('x'); print(e.RHS())
l = ['x+y','-z']; print(create_equation_from_terms(l), l)
print('--- C14 exogenous in description')
mod = Model(); c = Country(mod,'CA'); gov = ConsolidatedGovernment(c,'GOV'); hh = Household(c,'HH')
bus = FixedMarginBusiness(c,'BUS'); tf = TaxFlow(c,'TF',taxrate=.2); Market(c,'LAB'); Market(c,'GOOD')
gov.AddVariable('DEM_GOOD','Exogenous government demand','20.')
mod.EquationSolver.MaxTime=2
try:
    mod.main(); print(mod.GetTimeSeries('GOOD__SUP_GOOD'))
except Exception as e: print('ERR', type(e), str(e)[:200])
print('--- C15 negative steady state')
s = EquationSolver("""
x = 0.5*LAG_x - 10
LAG_x = x(k-1)
d = -1.0*t
exogenous
MaxTime=3""", run_equation_reduction=False)
s.ExtractVariableList(); s.SetInitialConditions(); s.ParameterInitialSteadyStateMaxTime=5
s.ParameterInitialSteadyStateExcludedVariables=['t','LAG_x','x']
try:
    s.CalculateInitialSteadyState(); print('accepted', {k:v[0] for k,v in s.TimeSeries.items()})
except Exception as e: print('ERR', type(e), e)
print('--- C16')
mod = Model(); mod.EquationSolver.TimeSeries={'t':[0,1,2]}; mod.TimeSeriesSupressTimeZero=True
print(mod.GetTimeSeries('t'), mod.GetTimeSeries('t'))
class S(BaseSolver):
    def __init__(s): BaseSolver.__init__(s,['x','t']); s.x=[1,2]; s.t=[0,1]
o=S(); print(repr(o.CreateCsvString()), repr(o.CreateCsvString()))
print('--- C17 reuse')
s = EquationSolver('x = 1.\nMaxTime=1'); s.SolveEquation(); print(sorted(s.TimeSeries))
s.ParseString('y = 2.\nMaxTime=1')
try: s.SolveEquation(); print(sorted(s.TimeSeries))
except Exception as e: print('ERR', type(e), e)
