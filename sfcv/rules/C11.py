"""C11 - unsolvable or invalid input fails loudly and in bounded work (decided structural clauses).

R1 iteration bound      : the sweep loop has a counter from a constant, incremented by a positive constant on every
                          path through the body, followed on every path by `counter > cap -> raise`; sweeps <= cap+1.
R2 compute, then commit : no path from a TimeSeries mutation to a raise / assert / eval of model text; the handler
                          table of the decoration eval converts what the sweep eval tolerates.
R3 validate first       : a freshly parsed EquationParser (or its lists) is stored into object state only after
                          ValidateInputs() was called on it; the reserved-name set is the union of four sources.
R4 guards dominate      : duplicate country/sector tests raise before the append; the '__' test before AddEquation;
                          cross-currency bookings are dominated by `ExternalSector is None -> raise`; every
                          market-like supplier/issuer search raises on 0 and on >1 matches."""
import ast

from ..inline import flatten

from .. import cfg as cfgmod
from ..loader import AnalysisError, unparse, call_name, attr_chain, const_str
from ..dataflow import linform, lin_eq, target_names
from ..solver_model import Sweep, eval_calls, series_mutation
from ..cfg import handler_types, raised_name, exc_is_a

TECHNIQUE = ('static analysis: loop-bound derivation from counter/guard shape, dominance and must-pass-through on a hand-built CFG, reachability from mutation sites to raising sites, product searches (match count per iteration of a counterparty search; stepped-over error to commit; FX site with no external sector) with constants, sentinels and counters; handler discipline around generation and solving; NaN walk shared with C02.R1')
EXPLANATION = (
    'Derives the sweep bound from the counter initialisation, increment and cap test (must be on every path, bound <= cap+1); '
    'shows that nothing that can raise is reachable after the first TimeSeries append of a period (periods already solved '
    'stay intact and equal length); that validation dominates the store of a parsed block; that duplicate / "__" / '
    'external-sector guards dominate their effects; and that each market-like counterparty search enforces exactly one match.')


def _mentions(e, name):
    return any(isinstance(x, ast.Name) and x.id == name for x in ast.walk(e))


def site_conditions(func, stmt):
    """(name, polarity) of enclosing `if <name>:` / `if not <name>:` tests whose name is assigned exactly once"""
    from ..dataflow import single_assign_subst
    single = single_assign_subst(func)
    out = []
    child, p = stmt, getattr(stmt, '_parent', None)
    while p is not None and p is not func:
        if isinstance(p, ast.If):
            t, pol = p.test, True
            if isinstance(t, ast.UnaryOp) and isinstance(t.op, ast.Not):
                t, pol = t.operand, False
            if isinstance(t, ast.Name) and t.id in single:
                in_body = any(child is x for x in p.body)
                out.append((t.id, pol if in_body else not pol))
        child, p = p, getattr(p, '_parent', None)
    return out


def guard_dominates(g, effect, pred, func=None):
    """a test node satisfying pred lies on every path to `effect`, its raising branch cannot reach the effect, and that
    branch raises.  Correlated branches: when the effect sits under `if c:` for a once-assigned flag c, only paths on
    which every test of c takes the same outcome are considered (from the assignment of c onwards)."""
    conds = site_conditions(func, effect.stmt) if func is not None else []
    cmap = dict(conds)

    def edge_ok(a, b, lab):
        na = g.nodes[a]
        if na.kind == 'test' and cmap:
            t, pol = na.ast, True
            if isinstance(t, ast.UnaryOp) and isinstance(t.op, ast.Not):
                t, pol = t.operand, False
            if isinstance(t, ast.Name) and t.id in cmap:
                want = cmap[t.id] if pol else not cmap[t.id]
                return lab is want
        return True
    starts = [g.entry]
    if conds:
        asg = [n for n in g.stmt_nodes() if n.kind == 'stmt' and isinstance(n.ast, ast.Assign)
               and isinstance(n.ast.targets[0], ast.Name) and n.ast.targets[0].id == conds[0][0]]
        if asg:
            starts = asg
    for t in g.nodes:
        if t.kind != 'test' or not pred(t.ast):
            continue
        if effect.id in g.reach(starts, avoid={t.id}, edge_ok=edge_ok):
            continue
        for lab in (True, False):
            tgt = [b for b, l in g.succ[t.id] if l is lab]
            if not tgt:
                continue
            r = g.reach(tgt, include_src=True)
            if effect.id not in r and g.raise_exit.id in r and g.exit.id not in r:
                return t, lab
    return None, None


def run(prog, check):
    check.explanation = EXPLANATION
    check.not_decided = ('"a 0.8-contraction always converges within the default cap" (numerical); the classification '
                         'of every possible arithmetic exception type')
    check.assumptions = ['exceptional control flow only along named handlers; a statement without a call to eval, an '
                         'explicit raise or an assert is taken not to raise after the commit started']
    sw = Sweep(prog)
    f, g = sw.f, sw.cfg
    check.saw(f)
    # ---- R1 ----------------------------------------------------------------------------------------
    # cap test: a test node inside the loop comparing a local counter with an attribute named *MaxIter*
    cap_tests = []
    conjoined = []
    for n in sw.loop_nodes:
        if n.kind != 'test':
            continue
        for cmp_ in [x for x in ast.walk(n.ast) if isinstance(x, ast.Compare) and len(x.ops) == 1]:
            l, r = cmp_.left, cmp_.comparators[0]
            hit = None
            if isinstance(l, ast.Name) and isinstance(r, ast.Attribute) and 'MaxIter' in r.attr:
                hit = (n, l.id, type(cmp_.ops[0]))
            elif isinstance(r, ast.Name) and isinstance(l, ast.Attribute) and 'MaxIter' in l.attr:
                flip = {ast.Lt: ast.Gt, ast.LtE: ast.GtE, ast.Gt: ast.Lt, ast.GtE: ast.LtE}
                hit = (n, r.id, flip.get(type(cmp_.ops[0]), type(cmp_.ops[0])))
            if hit:
                if cmp_ is n.ast or (isinstance(n.ast, ast.BoolOp) and isinstance(n.ast.op, ast.Or) and cmp_ in n.ast.values):
                    cap_tests.append(hit)
                else:
                    conjoined.append(n)
    for n in conjoined:
        check.ob('C11.R1', '%s::cap-test-unconditional' % f.key, False, sw.where(n),
                 'the cap comparison is only part of `%s`: when the other condition is false the sweep loop is unbounded'
                 % unparse(n.ast), 'a system that oscillates without evaluation errors never stops')
    ok_present = len(cap_tests) == 1
    check.ob('C11.R1', '%s::cap-test-present' % f.key, ok_present, sw.where(sw.loop_test),
             'one iteration-cap test in the sweep loop' if ok_present else
             '%d iteration-cap tests found in the sweep loop' % len(cap_tests),
             'a system that never converges: solving must stop after cap+1 sweeps')
    if ok_present:
        tnode, counter, op = cap_tests[0]
        # initialisation
        inits = [n for n in g.stmt_nodes() if n.kind == 'stmt' and isinstance(n.ast, ast.Assign)
                 and counter in target_names(n.ast.targets[0])]
        init_ok = len(inits) == 1 and inits[0] not in sw.loop_nodes and g.dominates(inits[0], sw.loop_test) and \
            linform(inits[0].ast.value) is not None and set(linform(inits[0].ast.value)) == {''}
        i0 = linform(inits[0].ast.value)[''] if init_ok else None
        check.ob('C11.R1', '%s::counter-init' % f.key, init_ok, sw.where(inits[0]) if inits else f.where,
                 ('counter `%s` starts at the constant %s before the loop' % (counter, i0)) if init_ok else
                 'counter `%s` is not initialised exactly once to a constant before the loop' % counter,
                 'non-converging system')
        incs = [n for n in sw.loop_nodes if n.kind == 'stmt' and (
            (isinstance(n.ast, ast.AugAssign) and counter in target_names(n.ast.target)) or
            (isinstance(n.ast, ast.Assign) and counter in target_names(n.ast.targets[0])))]
        d = None
        inc_ok = len(incs) == 1
        if inc_ok:
            a = incs[0].ast
            if isinstance(a, ast.AugAssign) and isinstance(a.op, ast.Add):
                lf = linform(a.value)
                d = lf[''] if lf is not None and set(lf) == {''} else None
            elif isinstance(a, ast.Assign):
                lf = linform(a.value)
                if lf is not None and lf.get(counter) == 1 and set(lf) <= {counter, ''}:
                    d = lf['']
            inc_ok = d is not None and d >= 1
        check.ob('C11.R1', '%s::counter-increment' % f.key, inc_ok, sw.where(incs[0]) if incs else f.where,
                 ('`%s` incremented by %s' % (counter, d)) if inc_ok else 'counter is not incremented by a positive constant exactly once per sweep',
                 'non-converging system')
        # every header->header path passes the increment and the cap test
        first = [b for b, lab in g.succ[sw.loop_test.id] if lab is True]
        on_every = bool(incs) and all(g.must_pass(b, sw.loop_test, incs) or g.nodes[b] in incs for b in first)
        test_every = all(g.must_pass(b, sw.loop_test, [tnode]) or g.nodes[b] is tnode for b in first)
        check.ob('C11.R1', '%s::increment-on-every-path' % f.key, on_every, sw.where(sw.loop_test),
                 'every path through the sweep body increments the counter' if on_every else
                 'a path through the sweep body (e.g. via continue) skips the increment', 'persistent evaluation error')
        check.ob('C11.R1', '%s::cap-test-on-every-path' % f.key, test_every, sw.where(tnode),
                 'every path through the sweep body evaluates the cap test' if test_every else
                 'a path through the sweep body skips the cap test (it is nested under another condition)',
                 'a system that oscillates without evaluation errors')
        # the exceeding branch always raises
        lab = True
        tgt = [b for b, l in g.succ[tnode.id] if l is lab]
        r = g.reach(tgt, include_src=True)
        raises = g.raise_exit.id in r and sw.loop_test.id not in r and g.exit.id not in r and \
            not any(c.id in r for c in sw.commit_nodes)
        check.ob('C11.R1', '%s::cap-exceeded-raises' % f.key, raises, sw.where(tnode),
                 'exceeding the cap raises on every path' if raises else
                 'after exceeding the cap a path continues without raising', 'non-converging system without evaluation errors')
        # derived bound
        bound_ok = False
        bound_txt = 'n/a'
        if init_ok and inc_ok and d == 1:
            inc_first = g.dominates(incs[0], tnode)
            if op in (ast.Gt, ast.GtE):
                extra = (1 if op is ast.Gt else 0) + (0 if inc_first else 1)
                # sweeps = cap - i0 + extra
                bound_txt = 'cap %+d' % (int(extra - i0))
                bound_ok = (extra - i0) <= 1
            else:
                bound_txt = 'unbounded (test `%s`)' % unparse(tnode.ast)
        check.ob('C11.R1', '%s::derived-sweep-bound' % f.key, bound_ok, sw.where(tnode),
                 'derived bound on sweeps per period: %s (required <= cap+1)' % bound_txt,
                 'non-converging system with iteration cap N: at most N+1 sweeps')
        # classification: a persistent evaluation error is a ValueError, otherwise ConvergenceError (both ValueError family)
        rnodes = [g.nodes[i] for i in r if g.nodes[i].kind == 'stmt' and isinstance(g.nodes[i].ast, ast.Raise)]
        fam = all(raised_name(x.ast) and exc_is_a(raised_name(x.ast), 'ValueError') for x in rnodes) and bool(rnodes)
        check.ob('C11.R1', '%s::cap-error-family' % f.key, fam, sw.where(tnode),
                 'cap errors raised: %s' % sorted({raised_name(x.ast) for x in rnodes}),
                 'caller catching ValueError / ConvergenceError')
    # ---- R2 ----------------------------------------------------------------------------------------
    muts = sw.commit_nodes
    risky = []
    for n in g.stmt_nodes():
        if n.kind == 'stmt' and isinstance(n.ast, (ast.Raise, ast.Assert)):
            risky.append((n, 'raise' if isinstance(n.ast, ast.Raise) else 'assert'))
        elif n.kind in ('stmt', 'test') and eval_calls(n.ast) and not isinstance(n.ast, (ast.For, ast.While, ast.If, ast.Try)):
            risky.append((n, 'eval'))
    for m in muts:
        after = g.reach([m])
        bad = [(n, k) for n, k in risky if n.id in after]
        check.ob('C11.R2', '%s::nothing-raises-after(%s)' % (f.key, unparse(m.ast)[:60]), not bad, sw.where(m),
                 'no raise / assert / eval of model text is reachable after this append' if not bad else
                 'after this append the step can still fail: %s' % ', '.join('%s at line %d' % (k, n.line) for n, k in bad[:4]),
                 'a decorative equation that raises (e.g. 1/(x-1) with x reaching 1): earlier series end up longer')
    # handler table of the decoration eval vs the sweep eval
    def handled_types(evcall):
        tr = evcall
        while tr is not None and not (isinstance(tr, ast.Try) and any(evcall in ast.walk(b) for b in tr.body)):
            tr = getattr(tr, '_parent', None)
        return tr
    str_try = handled_types(sw.sweep_eval)
    tolerated = []
    if str_try is not None:
        for h in str_try.handlers:
            tolerated += handler_types(h)
    from ..dataflow import truth_search as _ts

    def handler_outcome(h, ty):
        """('raises', [names]) when every feasible path from the handler ends in a raise inside its body (constants such
        as an inlined `is_strict=True` are honoured), ('continues', []) when normal flow can resume"""
        hn = [x for x in g.nodes if x.kind == 'except' and x.ast is h]
        if not hn:
            return 'continues', []
        body_ids = set(id(x) for st in h.body for x in ast.walk(st))
        hits, seen_ = _ts(g, hn, [])
        names, cont = [], False
        for k in seen_:
            nd = g.nodes[k[0]]
            if nd is hn[0]:
                continue
            inside = nd.stmt is not None and id(nd.stmt) in body_ids or (nd.ast is not None and id(nd.ast) in body_ids)
            if not inside:
                if nd.kind not in ('raise_exit',):
                    # left the handler body
                    pred = seen_[k]
                    pn = g.nodes[pred[0]] if pred else None
                    if pn is not None and pn.kind == 'stmt' and isinstance(pn.ast, ast.Raise):
                        continue
                    cont = True
                continue
            if nd.kind == 'stmt' and isinstance(nd.ast, ast.Raise):
                names.append(raised_name(nd.ast) or ty)
        return ('continues' if cont or not names else 'raises'), names
    for n in sw.post_nodes:
        if n.kind != 'stmt':
            continue
        for ev in eval_calls(n.ast):
            tr = handled_types(ev)
            for ty in tolerated:
                if exc_is_a(ty, 'ValueError'):
                    ok, why = True, '%s is itself a ValueError' % ty
                    # unless a handler swallows it
                    if tr is not None:
                        for h in tr.handlers:
                            if any(t == '*' or exc_is_a(ty, t) for t in handler_types(h)):
                                kind_, names_ = handler_outcome(h, ty)
                                if kind_ == 'continues':
                                    ok, why = False, '%s is swallowed by `except %s`' % (ty, '/'.join(handler_types(h)))
                                break
                else:
                    ok, why = False, '%s from a decorative equation escapes unconverted' % ty
                    if tr is not None:
                        for h in tr.handlers:
                            if any(t == '*' or exc_is_a(ty, t) for t in handler_types(h)):
                                kind_, names_ = handler_outcome(h, ty)
                                if kind_ == 'raises' and all(exc_is_a(nm_, 'ValueError') for nm_ in names_):
                                    ok, why = True, '%s converted to %s' % (ty, sorted(set(names_)))
                                else:
                                    ok, why = False, '%s handled without raising a ValueError' % ty
                                break
                check.ob('C11.R2', '%s::decoration-eval-handles(%s)' % (f.key, ty), ok, '%s:%d' % (f.module.rel, ev.lineno),
                         why, 'arithmetic error in a decorative equation must surface as a value error')
    # ---- R3 ----------------------------------------------------------------------------------------
    n3 = 0
    for fn in prog.all_functions():
        parsers = {}
        for n in ast.walk(fn.node):
            if isinstance(n, ast.Assign) and isinstance(n.value, ast.Call) and call_name(n.value) == 'EquationParser' \
                    and isinstance(n.targets[0], ast.Name):
                parsers[n.targets[0].id] = n
        if not parsers:
            continue
        gg = cfgmod.build(fn)
        for pname in parsers:
            stores = []
            for node in gg.stmt_nodes():
                if node.kind == 'stmt' and isinstance(node.ast, ast.Assign):
                    tgt = node.ast.targets[0]
                    if isinstance(tgt, ast.Attribute) and isinstance(tgt.value, ast.Name) and tgt.value.id == 'self' \
                            and _mentions(node.ast.value, pname):
                        stores.append(node)
            if not stores:
                continue     # a local parser only used for dumping text (e.g. logging)
            check.saw(fn)
            vcalls = [node for node in gg.stmt_nodes() if node.kind == 'stmt' and any(
                isinstance(c, ast.Call) and call_name(c) == 'ValidateInputs' and isinstance(c.func, ast.Attribute)
                and isinstance(c.func.value, ast.Name) and c.func.value.id == pname for c in ast.walk(node.ast))]
            for s in stores:
                ok = any(gg.dominates(v, s) for v in vcalls)
                n3 += 1
                check.ob('C11.R3', '%s::validated-before-store(%s)' % (fn.key, unparse(s.ast.targets[0])), ok,
                         '%s:%d' % (fn.module.rel, s.line),
                         'ValidateInputs() dominates the store of the parsed block' if ok else
                         'the parsed block is stored into the object without ValidateInputs() on every path',
                         'an equation block using a reserved name (keyword, builtin, math name, k)')
    check_reserved_names(prog, check)
    # ---- R4 ----------------------------------------------------------------------------------------
    check_guards(prog, check)
    check.floor('C11.R1', 8)
    # a persisting arithmetic error stops the solve: no commit is reachable from a handler that stepped over an evaluation
    # error in the same sweep (same search as C02.R5)
    from ..solver_model import stepped_over_errors
    for h_, ok_, wit_ in stepped_over_errors(sw):
        ty_ = unparse(h_.ast.type) if h_.ast.type is not None else 'bare'
        check.ob('C11.R2', '%s::persisting-error-stops-the-solve(%s)' % (f.key, ty_), ok_, sw.where(h_),
                 'after an evaluation error in the last sweep the period is not committed (a value error is raised)' if ok_ else
                 'a period is committed although an evaluation error was stepped over in its last sweep' + wit_,
                 'a persistent division by zero in an equation that is not the last one of the block')
    from .C02 import nan_stops_the_period
    nan_stops_the_period(check, sw, 'C11.R2', 'x = x*x + 2: the iterates overflow, the error becomes NaN; a convergence error is due, not a solution')
    check.floor('C11.R2', 3)
    check.floor('C11.R3', 8)
    check.floor('C11.R4', 10)


def check_reserved_names(prog, check):
    gens = prog.definitions_of('get_invalid_variable_names')
    if len(gens) != 1:
        raise AnalysisError('get_invalid_variable_names: %d definitions' % len(gens))
    check.saw(gens[0])
    from ..inline import flatten as _fl
    fn = _fl(prog, gens[0])
    rets = [n for n in ast.walk(fn.node) if isinstance(n, ast.Return) and n.value is not None]
    from ..dataflow import single_assign_subst
    subst = single_assign_subst(fn.node)
    # names assigned in both branches of the py2/py3 switch are not single-assign: collect all their values
    multi = {}
    for n in ast.walk(fn.node):
        if isinstance(n, ast.Assign) and isinstance(n.targets[0], ast.Name):
            multi.setdefault(n.targets[0].id, []).append(n.value)

    def expand(e, depth=0):
        out = [e]
        if depth > 4:
            return out
        for x in ast.walk(e):
            if isinstance(x, ast.Name) and x.id in multi:
                for v in multi[x.id]:
                    out += expand(v, depth + 1)
        return out
    srcs = set()
    filtered = False
    for r in rets:
        for e in expand(r.value):
            for x in ast.walk(e):
                if isinstance(x, ast.Constant) and x.value == 'k':
                    srcs.add('k')
                if isinstance(x, ast.Attribute) and x.attr == 'kwlist':
                    srcs.add('keywords')
                if isinstance(x, ast.Call) and call_name(x) == 'dir' and x.args:
                    a = unparse(x.args[0])
                    if 'builtin' in a:
                        srcs.add('builtins')
                    if a == 'math':
                        srcs.add('math')
                if isinstance(x, (ast.GeneratorExp, ast.ListComp)) and x.generators[0].ifs:
                    filtered = True
    for want in ('k', 'keywords', 'builtins', 'math'):
        check.ob('C11.R3', '%s::reserved-source(%s)' % (fn.key, want), want in srcs and not filtered, fn.where,
                 'reserved variable names include %s' % want if want in srcs else 'reserved variable names no longer include ' + want,
                 'a variable named like a %s' % {'k': 'time index k', 'keywords': 'Python keyword',
                                                 'builtins': 'builtin', 'math': 'math function'}[want])
    # the providers return re-usable containers: a one-shot iterator is exhausted by the first membership test
    for pname in ('get_invalid_variable_names', 'get_invalid_tokens'):
        ds = prog.definitions_of(pname)
        if len(ds) != 1:
            raise AnalysisError('%s: %d definitions' % (pname, len(ds)))
        check.saw(ds[0])
        pf = _fl(prog, ds[0])
        for r in [x for x in ast.walk(pf.node) if isinstance(x, ast.Return) and x.value is not None]:
            v = r.value
            ok = False
            if isinstance(v, ast.Call) and call_name(v) in ('list', 'set', 'tuple', 'frozenset', 'sorted'):
                ok = True
            elif isinstance(v, (ast.List, ast.Tuple, ast.Set, ast.ListComp, ast.SetComp)):
                ok = True
            elif isinstance(v, ast.BinOp) and isinstance(v.op, ast.Add):
                ok = True
            elif isinstance(v, ast.Name):
                srcs = [a.value for a in ast.walk(pf.node) if isinstance(a, ast.Assign) and any(isinstance(t, ast.Name) and t.id == v.id for t in a.targets)]
                ok = bool(srcs) and all(isinstance(x, (ast.List, ast.ListComp, ast.Tuple, ast.Set, ast.BinOp)) or
                                        (isinstance(x, ast.Call) and call_name(x) in ('list', 'set', 'tuple', 'sorted', 'frozenset')) for x in srcs)
            check.ob('C11.R3', '%s::returns-container' % pf.key, ok, '%s:%d' % (pf.module.rel, r.lineno),
                     'returns a list/set: membership can be tested repeatedly' if ok else
                     'returns `%s`: a lazy iterator is exhausted by the first `in` test, every later reserved name passes' % unparse(v)[:80],
                     'a reserved token that is not the first token checked (second equation, or after an ordinary variable)')
    # ValidateInputs: raise NameError on a reserved LHS for every equation and on a reserved token
    vs = prog.definitions_of('ValidateInputs')
    if len(vs) != 1:
        raise AnalysisError('ValidateInputs: %d definitions' % len(vs))
    v = vs[0]
    check.saw(v)
    v = flatten(prog, v)
    var_sets, tok_sets = set(), set()
    for n in ast.walk(v.node):
        if isinstance(n, ast.Assign) and isinstance(n.value, ast.Call) and isinstance(n.targets[0], ast.Name):
            if call_name(n.value) == 'get_invalid_variable_names':
                var_sets.add(n.targets[0].id)
            if call_name(n.value) == 'get_invalid_tokens':
                tok_sets.add(n.targets[0].id)
    gv = cfgmod.build(v)

    def raising_membership(setnames):
        for t in gv.nodes:
            if t.kind == 'test' and isinstance(t.ast, ast.Compare) and isinstance(t.ast.ops[0], ast.In) and \
                    isinstance(t.ast.comparators[0], ast.Name) and t.ast.comparators[0].id in setnames:
                tgt = [b for b, l in gv.succ[t.id] if l is True]
                # feasible paths from the positive outcome (names, tokens are strings: an element drawn from a collection is
                # never None) must all end in a raise
                from ..dataflow import truth_search as _ts2
                def took(extra, node, lab, env, nxt, _t=t):
                    return 1 if (extra or (node is _t and lab is True)) else 0
                hits_, seen_ = _ts2(gv, [gv.entry], [gv.exit], obj_iter=lambda it: True, extra0=0, step=took)
                r = {k[0] for k in seen_ if k[2] == 1}
                rn = [gv.nodes[i] for i in r if gv.nodes[i].kind == 'stmt' and isinstance(gv.nodes[i].ast, ast.Raise)]
                if gv.raise_exit.id in r and gv.exit.id not in r and rn:
                    loops = [l for l in t.loops if isinstance(l, ast.For)]
                    return t, loops
        return None, []
    t1, loops1 = raising_membership(var_sets)
    ok1 = t1 is not None and loops1 and 'AllEquations' in unparse(loops1[0].iter)
    check.ob('C11.R3', '%s::reserved-lhs-rejected' % v.key, bool(ok1), v.where,
             'every left-hand side of AllEquations is tested against the reserved names and raises' if ok1 else
             'reserved left-hand sides are not rejected for every equation', 'an equation defining `sqrt`, `k`, `list`, `yield`')
    t2, loops2 = raising_membership(tok_sets)
    ok2 = t2 is not None and len(loops2) >= 2 and 'AllEquations' in unparse(loops2[0].iter)
    check.ob('C11.R3', '%s::reserved-token-rejected' % v.key, bool(ok2), v.where,
             'every token of every equation is tested against the invalid tokens and raises' if ok2 else
             'reserved tokens on right-hand sides are not rejected for every equation', 'an equation using `import` or `eval`')
    # the token lists are generated inside ValidateInputs before use
    gen = [n for n in gv.stmt_nodes() if n.kind == 'stmt' and any(
        isinstance(c, ast.Call) and call_name(c) == 'GenerateTokenList' for c in ast.walk(n.ast))]
    ok3 = bool(gen) and t2 is not None and gv.dominates(gen[0], t2)
    check.ob('C11.R3', '%s::tokens-fresh' % v.key, ok3, v.where,
             'token lists are regenerated before they are validated' if ok3 else 'validation may read stale token lists',
             're-parsing a block on the same parser')


def _is_none_test(e, attr):
    """`<x>.attr is None` (or == None)"""
    return isinstance(e, ast.Compare) and len(e.ops) == 1 and isinstance(e.ops[0], (ast.Is, ast.Eq)) and \
        isinstance(e.comparators[0], ast.Constant) and e.comparators[0].value is None and \
        ((isinstance(e.left, ast.Attribute) and e.left.attr == attr) or isinstance(e.left, ast.Name))


FX_SITES = ('_SendMoney', '_ReceiveMoney', 'SetGoldPurchases')


def external_sector_guards(prog, check, rule):
    """no cross-currency booking site is reachable on a feasible path when the model has no external sector.
    Decided on every function with its private helpers inlined, by a path search that starts with
    `<anything>.ExternalSector` bound to None and honours truthiness constants and correlated flags; a private helper
    that is inlined at all of its call sites is judged there, not on its own."""
    from ..inline import flatten
    from ..dataflow import truth_search, trace
    n_sites = 0
    funcs = [fn for fn in prog.all_functions() if not fn.module.rel.endswith('external.py')]
    sites = set(FX_SITES)
    promoted = {}           # private helper name -> key: an unguarded booking inside it is judged at its call sites

    def site_calls(node):
        return [n for n in ast.walk(node) if isinstance(n, ast.Call) and call_name(n) in sites]

    def judge():
        flats = {}
        for fn in funcs:
            fl = flatten(prog, fn)
            if site_calls(fl.node):
                flats[fn.key] = (fn, fl)
        # private helpers judged at their callers
        inlined_somewhere = set()
        for fn, fl in flats.values():
            inlined_somewhere.update(getattr(fl, 'inlined', ()))
        skip = set()
        for key, (fn, fl) in flats.items():
            if key in inlined_somewhere and fn.name.startswith('_'):
                textual = 0
                covered = 0
                for other in funcs:
                    k = sum(1 for c in ast.walk(other.node) if isinstance(c, ast.Call) and call_name(c) == fn.name)
                    if k:
                        textual += k
                        ofl = flatten(prog, other)
                        if fn.key in getattr(ofl, 'inlined', ()) and not any(
                                isinstance(c, ast.Call) and call_name(c) == fn.name for c in ast.walk(ofl.node)):
                            covered += k
                if textual and textual == covered:
                    skip.add(key)
        results = []
        for key, (fn, fl) in sorted(flats.items()):
            if key in skip:
                continue
            g = cfgmod.build(fl)
            site_nodes = {}
            for nd in g.stmt_nodes():
                cs = [c for c in site_calls(nd.ast)] if nd.kind in ('stmt', 'test', 'for', 'with') and nd.ast is not None else []
                if nd.kind == 'for':
                    cs = site_calls(nd.ast.iter)
                if cs:
                    site_nodes[nd.id] = cs
            hits, seen = truth_search(g, [g.entry], list(site_nodes), env0={'*.ExternalSector': (False, 'NONE')})
            for nid, cs in sorted(site_nodes.items()):
                for c in cs:
                    results.append((fn, c, nid not in hits, (','.join(str(x) for x in trace(seen, hits[nid], g))) if nid in hits else ''))
        return results

    for _round in range(4):
        results = judge()
        new = False
        for fn, c, ok, tr in results:
            if ok or fn.name in sites or not (fn.name.startswith('_') and not fn.name.startswith('__')):
                continue
            # a private helper that books without testing: every call of it elsewhere in the package becomes a booking site
            callers = [o for o in funcs if o.key != fn.key and any(isinstance(x, ast.Call) and call_name(x) == fn.name for x in ast.walk(o.node))]
            same_name = [o for o in prog.all_functions() if o.name == fn.name and o.key != fn.key]
            if callers and not same_name:
                sites.add(fn.name)
                promoted[fn.name] = fn.key
                new = True
        if not new:
            break
    for fn, c, ok, tr in results:
        if fn.name in promoted and promoted[fn.name] == fn.key and call_name(c) in sites and not ok:
            continue
        check.saw(fn)
        n_sites += 1
        check.ob(rule, '%s::external-guard(%s)' % (fn.key, call_name(c)), ok, '%s:%d' % (fn.module.rel, c.lineno),
                 'not reachable when the model has no external sector (an error is raised first)' if ok else
                 'cross-currency booking reachable when the model has no external sector (lines %s)' % tr,
                 'a cross-currency flow / supplier in a model without ExternalSector')
    return n_sites


def _always_raises(stmts):
    """control cannot leave this statement list normally: it ends in a raise (or in branches that all do)"""
    if not stmts:
        return False
    last = stmts[-1]
    if isinstance(last, ast.Raise):
        return True
    if isinstance(last, ast.If):
        return _always_raises(last.body) and _always_raises(last.orelse)
    if isinstance(last, ast.With):
        return _always_raises(last.body)
    if isinstance(last, ast.Try):
        return bool(last.finalbody) and _always_raises(last.finalbody) or \
            ((_always_raises(last.body) or _always_raises(last.orelse)) and all(_always_raises(h.body) for h in last.handlers))
    return False


def errors_reach_the_caller(prog, check, rule):
    """'rejected with an error': the entry points that run generation and the solve let every error class of the package out.
    A handler around those calls that can catch one of the error classes (bare, Exception, ValueError and its subclasses, NameError,
    KeyError, SyntaxError) must leave by raising on every path; a handler for Warning (the documented soft stop) is not such a handler."""
    from ..cfg import handler_types, exc_is_a
    ERRS = ('LogicError', 'ConvergenceError', 'NoEquilibriumError', 'ValueError', 'NameError', 'KeyError', 'SyntaxError')
    PIPE = ('SolveEquation', '_GenerateEquations', 'ParseString', '_CreateFinalEquations', 'SolveStep', '_SolveStep')
    n = 0
    for f in prog.all_functions():
        if '/deprecated/' in f.module.rel or '/gl_book/' in f.module.rel:
            continue
        for t in [x for x in ast.walk(f.node) if isinstance(x, ast.Try)]:
            if not any(isinstance(c, ast.Call) and call_name(c) in PIPE for b in t.body for c in ast.walk(b)):
                continue
            for h in t.handlers:
                tys = handler_types(h)
                catches = [e for e in ERRS if any(ty == '*' or exc_is_a(e, ty) for ty in tys)]
                if not catches:
                    continue
                ok = _always_raises(h.body)
                n += 1
                check.saw(f)
                check.ob(rule, '%s::handler-lets-errors-out(%s)' % (f.key, ','.join(tys)), ok, '%s:%d' % (f.module.rel, h.lineno),
                         'the handler ends by raising' if ok else
                         'a handler around generation / solving catches %s and can end without raising: the call returns normally although the '
                         'model was rejected or did not converge' % ', '.join(catches[:3]),
                         'a model whose period does not converge, built and run through this entry point')
    return n


def check_guards(prog, check):
    rule = 'C11.R4'
    errors_reach_the_caller(prog, check, 'C11.R2')
    # duplicates: an append to CountryList / SectorList in a method with a Code parameter object
    for attr in ('CountryList', 'SectorList'):
        found = 0
        for fn in prog.all_functions():
            if fn.cls is None or fn.cls.name == 'CurrencyZone':
                continue
            apps = [n for n in ast.walk(fn.node) if isinstance(n, ast.Call) and call_name(n) == 'append' and
                    isinstance(n.func.value, ast.Attribute) and n.func.value.attr == attr and
                    isinstance(n.func.value.value, ast.Name) and n.func.value.value.id == 'self']
            if not apps or fn.name == '__init__':
                continue
            g = cfgmod.build(fn)
            check.saw(fn)
            for a in apps:
                node = [nd for nd in g.stmt_nodes() if nd.kind == 'stmt' and any(x is a for x in ast.walk(nd.ast))][0]
                obj = a.args[0]

                def pred(e, obj=obj):
                    return isinstance(e, ast.Compare) and isinstance(e.ops[0], ast.In) and \
                        isinstance(e.comparators[0], ast.Name) and e.comparators[0].id == 'self' and \
                        isinstance(e.left, ast.Attribute) and e.left.attr == 'Code' and unparse(e.left.value) == unparse(obj)
                t, lab = guard_dominates(g, node, pred)
                found += 1
                check.ob(rule, '%s::duplicate-code-guard(%s)' % (fn.key, attr), t is not None and lab is True,
                         '%s:%d' % (fn.module.rel, a.lineno),
                         'append dominated by `%s` -> raise' % unparse(t.ast) if t is not None else
                         'an object with a duplicate code can be appended', 'two countries / sectors with the same code')
        if not found:
            raise AnalysisError('no guarded append to %s found' % attr)
    # '__' guard before AddEquation in the variable-creating method
    n_us = 0
    from ..inline import flatten as _flat_us
    for fn_raw_us in prog.all_functions():
        fn = _flat_us(prog, fn_raw_us)       # a shared guard helper (`_reject_double_underscore(name, what)`) is read in place
        adds = [n for n in ast.walk(fn.node) if isinstance(n, ast.Call) and call_name(n) == 'AddEquation' and
                isinstance(n.func.value, ast.Attribute) and n.func.value.attr == 'EquationBlock']
        if not adds or fn.cls is None or not any(c.name == 'Sector' for c in fn.cls.mro):
            continue
        g = cfgmod.build(fn)
        check.saw(fn)
        pname = fn.params()[1] if len(fn.params()) > 1 else None
        for a in adds:
            node = [nd for nd in g.stmt_nodes() if nd.kind == 'stmt' and any(x is a for x in ast.walk(nd.ast))][0]

            def pred(e):
                return isinstance(e, ast.Compare) and isinstance(e.ops[0], ast.In) and \
                    isinstance(e.left, ast.Constant) and e.left.value == '__' and isinstance(e.comparators[0], ast.Name) \
                    and e.comparators[0].id == pname
            t, lab = guard_dominates(g, node, pred)
            n_us += 1
            check.ob(rule, '%s::double-underscore-guard' % fn.key, t is not None and lab is True,
                     '%s:%d' % (fn.module.rel, a.lineno),
                     "AddEquation dominated by `'__' in %s` -> raise" % pname if t is not None else
                     "a local name containing '__' can be stored", "AddVariable('A__B', ...)")
    if not n_us:
        raise AnalysisError("no Sector method storing into EquationBlock via AddEquation found")
    n_ext = external_sector_guards(prog, check, rule)
    if n_ext < 4:
        raise AnalysisError('expected at least 4 cross-currency booking sites, found %d' % n_ext)
    check_searches(prog, check, rule)


def check_searches(prog, check, rule):
    """market-like counterparty searches enforce exactly one match.
    A search is a loop over model objects in which a match criterion (code equality with an attribute of self, or
    presence of a variable in the candidate's equation block) guards `sentinel = candidate` or `counter += 1`.
    Decided by a state search over the flattened method: M = number of iterations in which the criterion held
    (0, 1, 2 = several); no normal exit may be reached after the loop was entered with M != 1."""
    from ..inline import flatten
    from ..cfg import atomic_facts
    from ..dataflow import truth_search, trace, OBJECT_ITER
    n = 0
    # markets (goods, labour, financial assets) look for their counterparty; other sectors' optional look-ups are not searches
    for ci in prog.subclasses('Market'):
        for fn_raw in ci.methods.values():
            fn = flatten(prog, fn_raw)
            from ..dataflow import single_assign_subst as _sas, resolve_expr as _rx
            sub_ = _sas(fn.node)
            loops = [x for x in ast.walk(fn.node) if isinstance(x, ast.For) and isinstance(x.target, ast.Name) and
                     (OBJECT_ITER(x.iter) or OBJECT_ITER(_rx(x.iter, sub_)))]
            if not loops:
                continue
            g = None
            for loop in loops:
                s_ = loop.target.id
                inside = set(id(x) for x in ast.walk(loop))

                def match_kind(e, val):
                    if val is not True or not isinstance(e, ast.Compare) or len(e.ops) != 1:
                        return None
                    l_, r_, op = e.left, e.comparators[0], e.ops[0]
                    if isinstance(op, ast.Eq):
                        for x, y in ((l_, r_), (r_, l_)):
                            if isinstance(x, ast.Attribute) and x.attr == 'Code' and isinstance(x.value, ast.Name) and x.value.id == s_ \
                                    and isinstance(y, ast.Attribute) and isinstance(y.value, ast.Name) and y.value.id == 'self':
                                return 'code'
                    if isinstance(op, ast.In) and any(isinstance(y, ast.Attribute) and y.attr == 'EquationBlock' and
                                                      isinstance(y.value, ast.Name) and y.value.id == s_ for y in ast.walk(r_)):
                        return 'presence'
                    return None
                # selecting statements
                sel = [x for x in ast.walk(loop) if (isinstance(x, ast.Assign) and len(x.targets) == 1 and isinstance(x.targets[0], ast.Name)
                                                      and isinstance(x.value, ast.Name) and x.value.id == s_) or
                       (isinstance(x, ast.AugAssign) and isinstance(x.target, ast.Name) and isinstance(x.op, ast.Add) and
                        isinstance(x.value, ast.Constant) and x.value.value == 1) or
                       # a counter *set* (not incremented) under the criterion still marks a match - what the later test then reads
                       # is the search's business
                       (isinstance(x, ast.Assign) and len(x.targets) == 1 and isinstance(x.targets[0], ast.Name) and
                        isinstance(x.value, ast.Constant) and isinstance(x.value.value, int) and not isinstance(x.value.value, bool)
                        and x.value.value >= 1) or
                       (isinstance(x, ast.Expr) and isinstance(x.value, ast.Call) and call_name(x.value) == 'append' and
                        isinstance(x.value.func, ast.Attribute) and isinstance(x.value.func.value, ast.Name) and len(x.value.args) == 1 and
                        isinstance(x.value.args[0], ast.Name) and x.value.args[0].id == s_)]
                if not sel:
                    continue
                if g is None:
                    g = cfgmod.build(fn)
                kinds = set()
                for x in sel:
                    for test, outcome in g.conditions_at(g.node_of(x)):
                        if id(test) in inside:
                            for _, v, e in atomic_facts(test, outcome):
                                k = match_kind(e, v)
                                if k:
                                    kinds.add(k)
                if not kinds:
                    continue
                check.saw(fn_raw)
                hdr = [h for h in g.nodes if h.kind == 'for' and h.stmt is loop][0]

                # the selecting statements that sit under a match criterion
                sel_ids = set()
                for x in sel:
                    nd_ = g.node_of(x)
                    if any(match_kind(e, v) for test, outcome in g.conditions_at(nd_) if id(test) in inside
                           for _, v, e in atomic_facts(test, outcome)):
                        sel_ids.add(nd_.id)

                def step(extra, node, lab, env, nxt, _loop=loop, _hdr=hdr, _sel=sel_ids):
                    # M = number of candidates selected so far (a second match that raises before selecting never counts)
                    M, seen_iter, entered = extra
                    if node is _hdr:
                        entered = 1
                        if lab is True:
                            seen_iter = 0
                    if node.id in _sel and lab not in ('exc', 'raise') and not seen_iter:
                        M = min(2, M + 1)
                        seen_iter = 1
                    return (M, seen_iter, entered)
                hits, seen = truth_search(g, [g.entry], [g.exit], extra0=(0, 0, 0), step=step)
                finals = [k for k in seen if k[0] == g.exit.id and k[2][2] == 1]
                zero = [k for k in finals if k[2][0] == 0]
                many = [k for k in finals if k[2][0] == 2]
                for kind in sorted(kinds):
                    n += 1
                    check.ob(rule, '%s::search(%s)::raises-on-zero' % (fn.key, kind), not zero, '%s:%d' % (fn.module.rel, loop.lineno),
                             'no normal exit is reachable when no candidate matched' if not zero else
                             'no match is accepted silently (lines %s)' % ','.join(str(x) for x in trace(seen, zero[0], g)),
                             'a market whose supplier / issuer code matches no sector')
                    check.ob(rule, '%s::search(%s)::raises-on-many' % (fn.key, kind), not many, '%s:%d' % (fn.module.rel, loop.lineno),
                             'no normal exit is reachable when several candidates matched' if not many else
                             'several matches are accepted silently (lines %s)' % ','.join(str(x) for x in trace(seen, many[0], g)),
                             'two sectors with the issuer code in one currency zone (federated regions)')
    if n < 3:
        raise AnalysisError('expected at least 3 market-like counterparty searches, found %d' % n)
