"""C03 - equation reduction never changes any solution value (decided structural clauses).

R1 partition conservation : in the decorative pass every path through the loop body executes both
                            Decoration.append(x) and Endogenous.remove(x) on the same tuple, or neither; no other site
                            removes from a partition list; the rebuild maps names 1-1.
R2 hygienic substitution  : rewrites of equation text go through the token-level replacer only; its target is the
                            eliminated variable, its replacement the cleaned right-hand side; it is applied to all
                            equations; after each store the derived token list is refreshed; loops raise.
R3 exhaustive consumers   : every list-valued partition of the parser is consumed by the solver's variable list and by
                            the step function.
R4 reference scan         : a variable is moved to the decorative class only if absent from the token lists of every
                            equation of the system (the scan ranges over all token lists)."""
import ast

from .. import cfg as cfgmod
from ..loader import AnalysisError, unparse, call_name, attr_chain
from ..dataflow import target_names, single_assign_subst, resolve_expr
from ..cfg import atomic_facts
from ..inline import flatten
from ..loader import stmt_of
from ..solver_model import Sweep, PARTITIONS, iter_partition

TECHNIQUE = ('static analysis on the flattened reduction passes: append/remove pairing on all paths of the decorative pass, branch-outcome facts (CFG) for the alias guard and the reference scan, argument roles of the token replacer with temporaries resolved, must-pass-through of the token refresh, exhaustiveness of partition consumers; the token-exact renamer clause of C13.R1 recorded as R2; no k=0 pass left by break')
EXPLANATION = (
    'Reduction may only move an equation between partitions (never drop or duplicate one) and may only substitute an alias by '
    'its definition through the token-level replacer, in the right direction, in every equation, keeping the derived token '
    'lists fresh; a variable is set aside only if no equation mentions it; every partition is consumed by the solver. These '
    'are necessary conditions of "reduction never changes a value"; equality of the two solutions is not decided.')


def run(prog, check):
    check.explanation = EXPLANATION
    check.not_decided = ('equality of the reduced and unreduced solutions at any period, including the observed k=0 difference '
                         'for an aliased variable carrying an initial condition (no structural rule states it without presupposing a repair)')
    check.assumptions = ['token lists contain every identifier of an equation (C13.R4)']
    P = prog.classes.get('EquationParser')
    if P is None:
        raise AnalysisError('EquationParser not found')
    deco_pass = alias_pass = rebuild = None
    from ..inline import judged_at_callers
    at_callers = judged_at_callers(prog, list(P.methods.values()))
    for f in P.methods.values():
        if f.key in at_callers:
            continue            # a private helper of one of the passes: judged as part of it
        src = flatten(prog, f).node
        app_deco = any(isinstance(c, ast.Call) and call_name(c) == 'append' and isinstance(c.func.value, ast.Attribute)
                       and c.func.value.attr == 'Decoration' for c in ast.walk(src))
        rem_endo = any(isinstance(c, ast.Call) and call_name(c) == 'remove' and isinstance(c.func.value, ast.Attribute)
                       and c.func.value.attr == 'Endogenous' for c in ast.walk(src))
        if (app_deco or rem_endo) and f.name != 'ParseString':
            deco_pass = f
        if any(isinstance(c, ast.Call) and call_name(c) in ('replace_token', 'replace_token_from_lookup') for c in ast.walk(src)):
            alias_pass = f
        if any(isinstance(n, ast.Assign) and isinstance(n.targets[0], ast.Attribute) and n.targets[0].attr == 'Endogenous'
               and isinstance(n.value, (ast.ListComp, ast.Name)) for n in ast.walk(src)) and f.name not in ('__init__', 'ParseString'):
            rebuild = f
    if not (deco_pass and alias_pass and rebuild):
        raise AnalysisError('reduction passes not found: deco=%s alias=%s rebuild=%s' % (deco_pass, alias_pass, rebuild))
    for f in (deco_pass, alias_pass, rebuild):
        check.saw(f)
    deco_pass, rebuild = flatten(prog, deco_pass), flatten(prog, rebuild)
    # ---- R1 ----------------------------------------------------------------------------------------
    g = cfgmod.build(deco_pass)
    loops = [n for n in deco_pass.node.body if isinstance(n, ast.For) and any(
        isinstance(c, ast.Call) and isinstance(c.func, ast.Attribute) and isinstance(c.func.value, ast.Attribute) and (
            (call_name(c) == 'append' and c.func.value.attr == 'Decoration') or
            (call_name(c) == 'remove' and c.func.value.attr == 'Endogenous')) for c in ast.walk(n))]
    if len(loops) != 1:
        raise AnalysisError('decorative pass: expected one moving loop')
    loop = loops[0]
    hdr = [n for n in g.nodes if n.kind == 'for' and n.stmt is loop][0]

    def arg_of(nodeast, meth, attr):
        for c in ast.walk(nodeast):
            if isinstance(c, ast.Call) and call_name(c) == meth and isinstance(c.func.value, ast.Attribute) and c.func.value.attr == attr:
                return unparse(c.args[0]) if c.args else ''
        return None
    apps = [n for n in g.stmt_nodes() if n.kind == 'stmt' and loop in n.loops and arg_of(n.ast, 'append', 'Decoration') is not None]
    rems = [n for n in g.stmt_nodes() if n.kind == 'stmt' and loop in n.loops and arg_of(n.ast, 'remove', 'Endogenous') is not None]
    first = [b for b, lab in g.succ[hdr.id] if lab is True]
    paths = []
    for b in first:
        paths += g.paths(b, hdr, cap=5000)
    ok = bool(apps) and bool(rems)
    for p in paths:
        a = [arg_of(g.nodes[i].ast, 'append', 'Decoration') for i in p if g.nodes[i] in apps]
        r = [arg_of(g.nodes[i].ast, 'remove', 'Endogenous') for i in p if g.nodes[i] in rems]
        if len(a) != len(r) or len(a) > 1 or a != r:
            ok = False
    check.ob('C03.R1', '%s::move-is-append-plus-remove' % deco_pass.key, ok, '%s:%d' % (deco_pass.module.rel, loop.lineno),
             'on each of %d paths the same tuple is appended to Decoration and removed from Endogenous, or neither' % len(paths)
             if ok else 'a path loses (remove without append), duplicates (append without remove) or swaps the moved equation',
             'a system with a variable nothing depends on')
    # two-phase form: the moving loop ranges over a local list that an earlier loop over the endogenous block filled; the
    # decision (and the item) is then that of the filling loop
    decide_nodes, decide_loop = apps + rems, loop
    fill_item_ok = True
    if isinstance(loop.iter, ast.Name):
        fills = []
        for n_ in g.stmt_nodes():
            if n_.kind == 'stmt':
                for c_ in ast.walk(n_.ast):
                    if isinstance(c_, ast.Call) and call_name(c_) == 'append' and isinstance(c_.func, ast.Attribute) and \
                            isinstance(c_.func.value, ast.Name) and c_.func.value.id == loop.iter.id and c_.args:
                        fors = [l for l in n_.loops if isinstance(l, ast.For)]
                        if fors and 'Endogenous' in unparse(fors[0].iter):
                            fills.append((n_, c_, fors[0]))
        if fills:
            decide_nodes = [f_[0] for f_ in fills]
            decide_loop = fills[0][2]
            ftv = target_names(decide_loop.target)
            fill_item_ok = all(unparse(f_[1].args[0]).replace(' ', '') in ('(%s)' % ','.join(ftv), ','.join(ftv)) and f_[2] is decide_loop
                               for f_ in fills)
    # the moved tuple is the loop item (name and its current equation)
    tv = target_names(loop.target)
    moved = arg_of(apps[0].ast, 'append', 'Decoration') if apps else ''
    if moved and moved.isidentifier():
        # a temporary bound once to the item (`entry = (var, eqn)`) is the item
        d_ = single_assign_subst(deco_pass.node).get(moved)
        if d_ is not None:
            moved = unparse(d_)
    okt = (moved.replace(' ', '') == '(%s)' % ','.join(tv).replace(' ', '') or
           (isinstance(loop.target, ast.Name) and moved == loop.target.id)) and fill_item_ok
    if decide_loop is not loop:
        tv = target_names(decide_loop.target)
    check.ob('C03.R1', '%s::moved-item-is-loop-item' % deco_pass.key, okt, '%s:%d' % (deco_pass.module.rel, loop.lineno),
             'moved item %s is the loop item' % moved if okt else 'moved item %s is not the loop item (%s)' % (moved, tv),
             'a decorative variable must keep its own equation')
    # the loop iterates a copy of Endogenous (removal during iteration would skip items)
    subst = single_assign_subst(deco_pass.node)
    it = loop.iter
    if isinstance(it, ast.Name) and it.id in subst:
        it = subst[it.id]
    copy_ok = (isinstance(it, ast.Subscript) and isinstance(it.slice, ast.Slice) and 'Endogenous' in unparse(it.value)) or \
        (isinstance(it, ast.Call) and call_name(it) in ('list', 'tuple', 'copy') and 'Endogenous' in unparse(it)) or \
        (decide_loop is not loop)        # a separate list filled beforehand
    check.ob('C03.R1', '%s::iterates-a-copy' % deco_pass.key, copy_ok, '%s:%d' % (deco_pass.module.rel, loop.lineno),
             'the pass iterates a copy of Endogenous while removing from it' if copy_ok else
             'the pass removes from the list it is iterating: every second candidate is skipped (not a value change, but a lost reduction)'
             if 'Endogenous' in unparse(it) else 'the pass does not iterate the endogenous block', 'two adjacent decorative variables')
    # no other site removes from / reassigns a partition list (outside __init__/ParseString resets and the rebuild)
    n_other = 0
    for f in P.methods.values():
        for c in ast.walk(f.node):
            if isinstance(c, ast.Call) and call_name(c) in ('remove', 'pop', 'clear') and isinstance(c.func.value, ast.Attribute) \
                    and c.func.value.attr in PARTITIONS:
                if f.key == deco_pass.key and c.func.value.attr == 'Endogenous' and call_name(c) == 'remove':
                    continue
                n_other += 1
                check.ob('C03.R1', '%s::foreign-removal(%s)' % (f.key, unparse(c)), False, '%s:%d' % (f.module.rel, c.lineno),
                         'an equation is removed from a partition outside the decorative move', 'any reducible system')
            if isinstance(c, ast.Delete) and any(isinstance(t, ast.Subscript) and isinstance(t.value, ast.Attribute)
                                                 and t.value.attr in PARTITIONS for t in c.targets):
                n_other += 1
                check.ob('C03.R1', '%s::foreign-removal(%s)' % (f.key, unparse(c)), False, '%s:%d' % (f.module.rel, c.lineno),
                         'an equation is deleted from a partition', 'any reducible system')
    check.ob('C03.R1', '%s::no-foreign-removal' % P.key, n_other == 0, '%s:%d' % (P.module.rel, P.node.lineno),
             'only the decorative move removes from a partition', '')
    # rebuild: 1-1 on names
    okr = False
    for n in ast.walk(rebuild.node):
        if isinstance(n, ast.ListComp) and not n.generators[0].ifs and 'Endogenous' in unparse(n.generators[0].iter) and \
                isinstance(n.elt, ast.Tuple) and len(n.elt.elts) == 2:
            x = target_names(n.generators[0].target)
            e0, e1 = n.elt.elts
            name_kept = unparse(e0) in ('%s[0]' % x[0], x[0])
            eq_from_table = isinstance(e1, ast.Subscript) and 'AllEquations' in unparse(e1.value) and unparse(e1.slice) == unparse(e0)
            okr = name_kept and eq_from_table
    check.ob('C03.R1', '%s::rebuild-is-one-to-one' % rebuild.key, okr, rebuild.where,
             'the rebuild keeps every name and takes its equation from AllEquations[name]' if okr else
             'the rebuild filters, renames or mispairs equations', 'alias substitution in a three-equation system')
    # ---- R2 ----------------------------------------------------------------------------------------
    # decided on the alias pass with its private helpers inlined; local temporaries are resolved to their definitions
    alias_flat = flatten(prog, alias_pass)
    ga = cfgmod.build(alias_flat)
    asub = single_assign_subst(alias_flat.node)
    calls = [c for c in ast.walk(alias_flat.node) if isinstance(c, ast.Call) and call_name(c) == 'replace_token']

    def enclosing_fors(node):
        out = []
        p_ = getattr(node, '_parent', None)
        while p_ is not None and p_ is not alias_flat.node:
            if isinstance(p_, ast.For):
                out.append(p_)
            p_ = getattr(p_, '_parent', None)
        return out
    outer = [n for n in ast.walk(alias_flat.node) if isinstance(n, ast.For) and iter_partition(n) == 'Endogenous'
             and any(c in list(ast.walk(n)) for c in calls)]
    if not outer:
        cand = [n for n in alias_flat.node.body if isinstance(n, ast.For)]
        if not cand:
            raise AnalysisError('alias pass has no outer loop')
        outer = cand[:1]
    ol = outer[0]
    otv = target_names(ol.target)
    ok_iter = iter_partition(ol) == 'Endogenous'
    check.ob('C03.R2', '%s::candidates-are-endogenous' % alias_pass.key, ok_iter, '%s:%d' % (alias_pass.module.rel, ol.lineno),
             'alias candidates range over the endogenous block', 'x = y with y exogenous / lagged')

    def is_cleaned_def(e):
        e = resolve_expr(e, asub) if e is not None else None
        return isinstance(e, ast.Call) and call_name(e) == 'CleanupRightHandSide' and e.args and \
            isinstance(e.args[0], ast.Name) and len(otv) > 1 and e.args[0].id == otv[1]

    def despace_chain(value, call_txt):
        """value (resolved) is the replacer call wrapped only in str() / .strip() / .replace(<blank>, '')"""
        e = value
        while True:
            if isinstance(e, ast.Call) and unparse(e) == call_txt:
                return True
            if isinstance(e, ast.Call) and isinstance(e.func, ast.Name) and e.func.id == 'str' and len(e.args) == 1:
                e = e.args[0]
                continue
            if isinstance(e, ast.Call) and isinstance(e.func, ast.Attribute) and e.func.attr == 'strip' and not e.args:
                e = e.func.value
                continue
            if isinstance(e, ast.Call) and isinstance(e.func, ast.Attribute) and e.func.attr == 'replace' and len(e.args) == 2 \
                    and isinstance(e.args[0], ast.Constant) and isinstance(e.args[0].value, str) and e.args[0].value.strip() == '' \
                    and e.args[0].value != '' and isinstance(e.args[1], ast.Constant) and e.args[1].value == '':
                e = e.func.value
                continue
            return False
    for c in calls:
        tgt, rep = (c.args + [None, None, None])[1:3]
        # keyword spelling of the same call: replace_token(s, target=..., replacement=...)
        for kw_ in c.keywords:
            if kw_.arg == 'target' and tgt is None:
                tgt = kw_.value
            if kw_.arg == 'replacement' and rep is None:
                rep = kw_.value
        tgt_r = resolve_expr(tgt, asub) if tgt is not None else None
        tgt_ok = isinstance(tgt_r, ast.Name) and tgt_r.id == otv[0]
        rep_ok = is_cleaned_def(rep)
        check.ob('C03.R2', '%s::substitution-direction' % alias_pass.key, tgt_ok and rep_ok, '%s:%d' % (alias_pass.module.rel, c.lineno),
                 'occurrences of the alias `%s` are replaced by its cleaned definition' % otv[0] if (tgt_ok and rep_ok) else
                 'replace_token(%s, %s): target must be the eliminated variable, replacement its cleaned right-hand side'
                 % (unparse(tgt), unparse(rep)), 'x = y; z = x + 1 must become z = y + 1, not the reverse')
        # applied over all equations, stored back under the same key, tokens refreshed
        fors = [x for x in enclosing_fors(c) if x is not ol]
        inner = fors[0] if fors else None
        all_eq = inner is not None and 'AllEquations' in unparse(inner.iter)
        check.ob('C03.R2', '%s::applied-to-all-equations' % alias_pass.key, all_eq, '%s:%d' % (alias_pass.module.rel, c.lineno),
                 'the substitution ranges over AllEquations' if all_eq else 'the substitution skips some equations', 'decorative / lagged users of the alias')
        call_txt = unparse(resolve_expr(c, asub))
        chain_ok = False
        if all_eq:
            k = target_names(inner.target)[0]
            src = resolve_expr(c.args[0], asub) if c.args else None
            itv = target_names(inner.target)
            items_val = itv[1] if (len(itv) == 2 and isinstance(inner.iter, ast.Call) and call_name(inner.iter) == 'items') else None
            src_ok = (isinstance(src, ast.Subscript) and 'AllEquations' in unparse(src.value) and unparse(src.slice) == k) or \
                (items_val is not None and isinstance(src, ast.Name) and src.id == items_val)
            stores = [s_ for s_ in ast.walk(inner) if isinstance(s_, ast.Assign) and isinstance(s_.targets[0], ast.Subscript)
                      and 'AllEquations' in unparse(s_.targets[0].value) and unparse(s_.targets[0].slice) == k]
            refresh = [s_ for s_ in ast.walk(inner) if isinstance(s_, ast.Assign) and isinstance(s_.targets[0], ast.Subscript)
                       and 'Tokens' in unparse(s_.targets[0].value) and unparse(s_.targets[0].slice) == k
                       and isinstance(resolve_expr(s_.value, asub), ast.Call) and call_name(resolve_expr(s_.value, asub)) == 'list_tokens']
            okf = src_ok and len(stores) == 1
            if okf:
                st = stores[0]
                chain_ok = despace_chain(resolve_expr(st.value, asub), call_txt)
                sn = ga.node_of(st)
                hn = [n for n in ga.nodes if n.kind == 'for' and n.stmt is inner][0]
                good = []
                for r_ in refresh:
                    arg = resolve_expr(r_.value, asub).args[0]
                    same_key = isinstance(arg, ast.Subscript) and 'AllEquations' in unparse(arg.value) and unparse(arg.slice) == k
                    same_val = unparse(resolve_expr(arg, asub)) == unparse(resolve_expr(st.value, asub))
                    if same_key or same_val:
                        good.append(ga.node_of(r_))
                # every way from the store back to the loop header (or out of the loop) refreshes the token list
                nxt = [b_ for b_, lab in ga.succ[sn.id] if lab not in ('exc', 'raise')]
                okf = bool(good) and all(ga.must_pass(b_, hn, good) or ga.nodes[b_] in good for b_ in nxt)
            check.ob('C03.R2', '%s::store-then-refresh-tokens' % alias_pass.key, okf, '%s:%d' % (alias_pass.module.rel, inner.lineno),
                     'each rewritten equation is stored under its own key and its token list is refreshed' if okf else
                     'the derived token list can be stale after a substitution (or the equation is stored under another key)',
                     'alias chains: x = y, y = z')
        # only text post-processing allowed on the result: whitespace removal / str()
        check.ob('C03.R2', '%s::result-only-despaced' % alias_pass.key, chain_ok, '%s:%d' % (alias_pass.module.rel, c.lineno),
                 'the rewritten text is only stripped of spaces' if chain_ok else 'the rewritten text is further rewritten (or not stored)', 'any alias')
        # guard: only when the RHS is a variable of the system
        gk = False
        for test, outcome in ga.conditions_at(ga.node_of(stmt_of(c))):
            for txt, val, e in atomic_facts(test, outcome):
                e = resolve_expr(e, asub)
                if val and isinstance(e, ast.Compare) and len(e.ops) == 1 and isinstance(e.ops[0], ast.In) and \
                        'AllEquations' in unparse(e.comparators[0]) and is_cleaned_def(e.left):
                    gk = True
        check.ob('C03.R2', '%s::alias-of-a-system-variable-only' % alias_pass.key, gk, '%s:%d' % (alias_pass.module.rel, c.lineno),
                 'substitution only when the whole right-hand side is a variable of the system' if gk else
                 'substitution is not restricted to right-hand sides that are a variable of the system', 'x = sqrt  /  x = 2')
    check.ob('C03.R2', '%s::token-level-only' % alias_pass.key, len(calls) >= 1, alias_pass.where,
             '%d token-level substitution site(s)' % len(calls), '')
    raises = [n for n in ast.walk(ol) if isinstance(n, ast.Raise)]
    check.ob('C03.R2', '%s::equality-loop-raises' % alias_pass.key, bool(raises), '%s:%d' % (alias_pass.module.rel, ol.lineno),
             'a two-variable equality loop raises' if raises else 'equality loops are not detected', 'x = y; y = x')
    # the pass ends by rebuilding the endogenous block from the rewritten table
    reb = any(isinstance(c, ast.Call) and call_name(c) == rebuild.name for c in ast.walk(alias_pass.node))
    check.ob('C03.R2', '%s::rebuilds-block' % alias_pass.key, reb, alias_pass.where,
             'the endogenous block is rebuilt from the rewritten equations' if reb else
             'the rewritten equations never reach the endogenous block', 'any alias')
    # ---- R3 ----------------------------------------------------------------------------------------
    init = flatten(prog, P.methods.get('__init__'))
    lists = [n.targets[0].attr for n in ast.walk(init.node) if isinstance(n, ast.Assign) and isinstance(n.targets[0], ast.Attribute)
             and isinstance(n.value, ast.List)]
    sw = Sweep(prog)
    check.saw(sw.f)
    from ..solver_model import variable_list_builder
    b_raw, b, _D, _parts = variable_list_builder(prog, sw.f.cls)
    check.saw(b_raw)
    for L in lists:
        in_b = any(isinstance(x, ast.Attribute) and x.attr == L for x in ast.walk(b.node))
        in_s = any(isinstance(x, ast.Attribute) and x.attr == L for x in ast.walk(sw.f.node))
        check.ob('C03.R3', '%s::partition-consumed(%s)' % (P.key, L), in_b and in_s, '%s:%d' % (P.module.rel, init.node.lineno),
                 'partition %s is consumed by %s and by the step function' % (L, b.qualname) if (in_b and in_s) else
                 'partition %s is not consumed by %s' % (L, 'the variable list' if not in_b else 'the step function'),
                 'a variable set aside by reduction must still get a series')
    # ---- R4 ----------------------------------------------------------------------------------------
    # the move is executed only under the outcome "no token list of the system mentions the variable"
    dsub = single_assign_subst(deco_pass.node)

    def membership(t, key_names, val_names):
        """t is `<moved var> in self.Tokens[<k>]` / `<moved var> in <toks>`"""
        if not (isinstance(t, ast.Compare) and len(t.ops) == 1 and isinstance(t.ops[0], ast.In) and
                isinstance(t.left, ast.Name) and t.left.id == tv[0]):
            return False
        c_ = t.comparators[0]
        if isinstance(c_, ast.Subscript) and 'Tokens' in unparse(c_.value) and unparse(c_.slice) in key_names:
            return True
        return isinstance(c_, ast.Name) and c_.id in val_names

    def scan_source(it, target):
        """(source text, key names, value names) when the iteration ranges over the token table"""
        names = target_names(target)
        if isinstance(it, ast.Call) and isinstance(it.func, ast.Attribute) and it.func.attr in ('keys', 'values', 'items') and not it.args:
            base = unparse(it.func.value)
            if it.func.attr == 'keys':
                return base, names[:1], []
            if it.func.attr == 'values':
                return base, [], names[:1]
            return base, names[:1], names[1:2]
        return unparse(it), names[:1], []

    def referenced_predicate(e):
        """source text of the scan when `e` means "some token list mentions the moved variable", else None"""
        e = resolve_expr(e, dsub)
        if isinstance(e, ast.Call) and isinstance(e.func, ast.Name) and e.func.id == 'any' and len(e.args) == 1 and \
                isinstance(e.args[0], (ast.GeneratorExp, ast.ListComp)) and len(e.args[0].generators) == 1 and \
                not e.args[0].generators[0].ifs:
            gen = e.args[0].generators[0]
            src, keys, vals = scan_source(gen.iter, gen.target)
            if membership(e.args[0].elt, keys, vals):
                return src
        if isinstance(e, ast.Name):
            fl = e.id
            sets = [n for n in ast.walk(decide_loop) if isinstance(n, ast.Assign) and fl in target_names(n.targets[0])]
            init_false = any(isinstance(n.value, ast.Constant) and n.value.value is False for n in sets)
            trues = [n for n in sets if isinstance(n.value, ast.Constant) and n.value.value is True]
            others = [n for n in sets if not (isinstance(n.value, ast.Constant) and n.value.value in (True, False))]
            if not init_false or not trues or others:
                return None
            src = None
            for n in trues:
                # the enclosing scan loop and the membership test that guards the assignment
                p_ = getattr(n, '_parent', None)
                guard, scan = None, None
                while p_ is not None and p_ is not decide_loop:
                    if isinstance(p_, ast.If) and guard is None:
                        guard = p_
                    if isinstance(p_, ast.For) and scan is None:
                        scan = p_
                    p_ = getattr(p_, '_parent', None)
                if guard is None or scan is None:
                    return None
                s_, keys, vals = scan_source(scan.iter, scan.target)
                if not membership(guard.test, keys, vals) or n not in list(ast.walk(ast.Module(body=guard.body, type_ignores=[]))):
                    return None
                src = s_
            return src
        return None
    srcs = []
    flag_ok = bool(decide_nodes)
    for mv in decide_nodes:
        found_src = None
        for test, outcome in g.conditions_at(mv):
            for txt, val, e in atomic_facts(test, outcome):
                src = referenced_predicate(e)
                if src is not None and val is False:
                    found_src = src
        if found_src is None:
            flag_ok = False
        else:
            srcs.append(found_src)
    ok4 = bool(srcs) and all(x == 'self.Tokens' or 'AllEquations' in x for x in srcs)
    why = ('a variable is kept when any token list (over %s) mentions it' % srcs[0]) if ok4 else \
        ('reference scan ranges over %s only' % sorted(set(srcs)) if srcs else 'no reference scan found')
    check.ob('C03.R4', '%s::reference-scan-covers-all' % deco_pass.key, ok4, '%s:%d' % (deco_pass.module.rel, loop.lineno), why,
             'a variable referenced only by a lagged or decorative equation')
    check.ob('C03.R4', '%s::referenced-variable-stays' % deco_pass.key, flag_ok, '%s:%d' % (deco_pass.module.rel, loop.lineno),
             'the move happens only when no token list mentions the variable (decided per variable)' if flag_ok else
             'a referenced variable can be moved (test missing, not decided per variable, or polarity inverted)',
             'x referenced by y: x must stay in the simultaneous block')
    # ---- R1b: reduction never rewrites the lagged / exogenous partitions ----------------------------------
    for f in P.methods.values():
        if f.name in ('__init__',):
            continue
        for n in ast.walk(f.node):
            tg = None
            if isinstance(n, ast.Assign):
                tg = n.targets[0]
            elif isinstance(n, ast.AugAssign):
                tg = n.target
            if isinstance(tg, ast.Attribute) and isinstance(tg.value, ast.Name) and tg.value.id == 'self' and tg.attr in ('Lagged', 'Exogenous', 'Decoration'):
                reset = isinstance(n, ast.Assign) and isinstance(n.value, (ast.List, ast.Dict)) and not getattr(n.value, 'elts', getattr(n.value, 'keys', []))
                if reset and f.name != deco_pass.name and f.name != alias_pass.name and f.name != rebuild.name:
                    continue
                check.ob('C03.R1', '%s::rewrites-partition(%s)' % (f.key, tg.attr), False, '%s:%d' % (f.module.rel, n.lineno),
                         'the %s partition is re-assigned outside the parse-time reset: reduction may only move equations from '
                         'Endogenous to Decoration and substitute text in endogenous equations' % tg.attr,
                         'a lag of an aliased variable that carries its own initial condition')
    # ---- R5: decorative variables enter the evaluation environment only with their freshly evaluated value ----
    from ..solver_model import decoration_env_stores
    stores = decoration_env_stores(sw)
    for a, ok, why in stores:
        check.ob('C03.R5', '%s::decoration-env-store(%s)' % (sw.f.key, unparse(a.value)[:60]), ok, '%s:%d' % (sw.f.module.rel, a.lineno),
                 'a decorative variable becomes visible to other decorative equations only once it has been evaluated this period' if ok else
                 why + ': a decorative equation referring to another decorative variable silently uses its value of the previous period '
                 '(the NameError that orders the evaluation never fires)', 'a chain of decorative variables w = y, y = z listed in dependency-reversed order')
    check.ob('C03.R5', '%s::decoration-env-stores-present' % sw.f.key, bool(stores), sw.f.where,
             '%d store(s) of decorative values into the evaluation environment examined' % len(stores), '')
    # a variable set aside by reduction keeps its initial condition: the k=0 constant passes of the solver do not
    # overwrite variables that carry one (same rule as C10.R4, which is where the solver honours initial conditions)
    from .C10 import k0_protection
    from ..solver_model import solver_function
    from ..inline import flatten as _flatten
    icf = _flatten(prog, solver_function(prog, 'initial_conditions'))
    check.saw(icf)
    k0_protection(check, icf, cfgmod.build(icf), rule='C03.R5')
    # every variable of a partition gets its turn in the k=0 passes: the loops over the parser's partitions in the initial-conditions
    # function are never left by `break` (a variable set aside by the reduction sits in the Decoration partition: cutting that
    # pass short leaves the ones listed later at 0.0 at k=0, while the unreduced system computes them)
    for lp_ in [x_ for x_ in ast.walk(icf.node) if isinstance(x_, ast.For) and isinstance(x_.iter, ast.Attribute) and
                x_.iter.attr in ('Decoration', 'Endogenous', 'Exogenous', 'Lagged')]:
        def own_breaks(stmts):
            out = []
            for s_ in stmts:
                if isinstance(s_, ast.Break):
                    out.append(s_)
                elif isinstance(s_, (ast.For, ast.While, ast.FunctionDef, ast.ClassDef)):
                    continue
                else:
                    for fld in ('body', 'orelse', 'finalbody'):
                        out += own_breaks(getattr(s_, fld, None) or [])
                    for h_ in getattr(s_, 'handlers', []) or []:
                        out += own_breaks(h_.body)
            return out
        brk = own_breaks(lp_.body)
        # a loop that only searches (sets a flag and leaves) may stop early; one that evaluates / stores per entry may not
        works = any((isinstance(x_, ast.Assign) and any(isinstance(t_, ast.Subscript) for t_ in x_.targets)) or
                    (isinstance(x_, ast.Call) and call_name(x_) in ('eval', 'append', 'AppendValue')) for x_ in ast.walk(lp_))
        if not works:
            brk = []
        check.ob('C03.R5', '%s::k0-pass-visits-all(%s)' % (icf.key, lp_.iter.attr), not brk, '%s:%d' % (icf.module.rel, (brk[0] if brk else lp_).lineno),
                 'the pass over %s visits every entry' % lp_.iter.attr if not brk else
                 'the k=0 pass over %s is left by `break`: the entries listed after that point keep 0.0 at k=0' % lp_.iter.attr,
                 'a decorative alias listed after a decorative variable that has an initial condition, reduction on vs off')
    # what the alias detector compares is the right-hand side without blanks and without ONE leading '+': the helper that prepares it
    # may slice the text only as [1:] (any other slice turns `+YD` into `D` and makes INC = +YD an alias of D)
    P_ = prog.classes.get('EquationParser')
    cl_ = P_.methods.get('CleanupRightHandSide') if P_ else None
    if cl_ is not None:
        check.saw(cl_)
        for x_ in ast.walk(cl_.node):
            if isinstance(x_, ast.Subscript) and isinstance(x_.slice, ast.Slice) and isinstance(x_.ctx, ast.Load):
                par_ = getattr(x_, '_parent', None)
                if isinstance(par_, ast.Compare) or (isinstance(par_, ast.Call) and x_ in par_.args):
                    continue        # a slice that is only looked at (`s[:1] == '+'`) cuts nothing
                sl_ = x_.slice
                ok_sl = sl_.upper is None and sl_.step is None and isinstance(sl_.lower, ast.Constant) and sl_.lower.value == 1
                check.ob('C03.R2', '%s::cleanup-cuts-one-leading-character(%s)' % (cl_.key, unparse(x_)), ok_sl, '%s:%d' % (cl_.module.rel, x_.lineno),
                         'the clean-up removes the first character only' if ok_sl else
                         'the clean-up keeps `%s` of the right-hand side: a different text is compared with the variable names, so an equation '
                         'that is no alias is substituted away' % unparse(x_), 'INC = +YD next to a variable D')
    # the k=0 constant passes (endogenous and set-aside variables) step over the same evaluation failures: a value the unreduced
    # system cannot compute at k=0 and leaves at 0.0 must not raise in the reduced system (sibling cross-check of the handlers)
    from ..cfg import handler_types as _ht3
    sib = []
    for lp_ in [x_ for x_ in ast.walk(icf.node) if isinstance(x_, ast.For) and isinstance(x_.iter, ast.Attribute) and
                x_.iter.attr in ('Decoration', 'Endogenous')]:
        for t_ in [x_ for x_ in ast.walk(lp_) if isinstance(x_, ast.Try)]:
            if any(isinstance(c_, ast.Call) and call_name(c_) == 'eval' for b_ in t_.body for c_ in ast.walk(b_)):
                sib.append((lp_.iter.attr, t_, tuple(sorted(ty_ for h_ in t_.handlers for ty_ in _ht3(h_)))))
    if len({a_ for a_, _t, _h in sib}) >= 2:
        kinds_ = {h_ for _a, _t, h_ in sib}
        for a_, t_, h_ in sib:
            okh = len(kinds_) == 1
            check.ob('C03.R5', '%s::k0-passes-step-over-the-same-errors(%s)' % (icf.key, a_), okh, '%s:%d' % (icf.module.rel, t_.lineno),
                     'the k=0 passes over Endogenous and Decoration catch the same exceptions (%s)' % ', '.join(h_) if okh else
                     'the k=0 pass over %s catches %s, the other pass %s: an equation that cannot be evaluated at k=0 is stepped over in one '
                     'form of the system and raises in the other' % (a_, ', '.join(h_), ' / '.join(', '.join(k_) for k_ in sorted(kinds_ - {h_}))),
                     'a set-aside variable y = 1/t with t(0) = 0, reduction on and off')
    # the optional steady-state start treats the variables set aside like the solved ones
    from ._common import steady_state_covers_all_series, steady_state_loop
    ssf_, loop_, subst_ = steady_state_loop(prog)
    check.saw(ssf_)
    ok_c, why_c = steady_state_covers_all_series(loop_, subst_)
    check.ob('C03.R5', '%s::steady-start-covers-set-aside-variables' % ssf_.key, ok_c, '%s:%d' % (ssf_.module.rel, loop_.lineno), why_c,
             'ParameterSolveInitialSteadyState with reduction on and off: a decorative variable must start from the same k=0 value')
    # the substitution step renames whole name tokens only: the clause of C13 for the token-level renamer the reduction calls
    from ..report import Borrowed
    from . import C13 as _c13
    renamers_ = {call_name(c) for c in ast.walk(flatten(prog, alias_pass).node) if isinstance(c, ast.Call) and (call_name(c) or '').startswith('replace_token')}
    b13 = Borrowed(check, lambda rule, key: rule == 'C13.R1' and any(('::%s::' % r_) in key for r_ in renamers_), 'C03.R2',
                   'alias x = y while another variable is called x_1 / xx: only x may be renamed')
    b13.run_lender(_c13, prog)
    if not b13.n:
        check.note('the token-level renamer used by the reduction was not among the renamers C13 could judge (%s)' % sorted(renamers_))
    check.floor('C03.R5', 2)
    check.floor('C03.R1', 5)
    check.floor('C03.R2', 8)
    check.floor('C03.R3', 4)
    check.floor('C03.R4', 2)
