"""Development helper: verify a seeded change produced by a sub-agent and store it under /verif/seeded/.

usage: intake_seed.py <Cxx> <change-dir> [--name <seed-id>] [--needs "<text>"]

Steps (all in a fresh scratch worktree of /repo that is removed afterwards):
  1. patch applies to clean HEAD (git apply --check), touches only sfc_models/ non-test files
  2. the pinned test suite gives the baseline result with the patch (221 passed, 1 failed)
  3. the demonstration fails with the patch and passes without it
  4. every registered check is run with --root on the patched tree; which ones report a VIOLATION is recorded
Writes /verif/seeded/<seed-id>/{patch.diff, demo.py, notes.md, meta.json}."""
import json
import os
import shutil
import subprocess
import sys
import tempfile

PY = '/venv/bin/python'


def sh(cmd, cwd=None, env=None, timeout=1200):
    r = subprocess.run(cmd, cwd=cwd, env=env, capture_output=True, text=True, timeout=timeout)
    return r.returncode, r.stdout + r.stderr


def main():
    pid, src = sys.argv[1], sys.argv[2].rstrip('/')
    name = None
    needs = ''
    if '--name' in sys.argv:
        name = sys.argv[sys.argv.index('--name') + 1]
    if '--needs' in sys.argv:
        needs = sys.argv[sys.argv.index('--needs') + 1]
    name = name or '%s-%s' % (pid, os.path.basename(src))
    patch = os.path.join(src, 'patch.diff')
    demo = os.path.join(src, 'demo.py')
    for f in (patch, demo):
        if not os.path.exists(f):
            print('missing', f)
            return 2
    wt = tempfile.mkdtemp(prefix='sfcv_seed_')
    os.rmdir(wt)
    meta = {'seed': name, 'property': pid, 'needs_to_manifest': needs, 'ran': []}
    try:
        rc, out = sh(['git', '-C', '/repo', 'worktree', 'add', '-q', '--detach', wt, 'HEAD'])
        if rc:
            print(out)
            return 2
        env = dict(os.environ, PYTHONPATH=wt)
        rc, out = sh(['git', 'apply', '--check', patch], cwd=wt)
        meta['ran'].append('git apply --check patch.diff -> rc %d' % rc)
        if rc:
            print('PATCH DOES NOT APPLY\n' + out)
            return 1
        files = [l.split('\t')[-1] for l in sh(['git', 'apply', '--numstat', patch], cwd=wt)[1].splitlines() if l.strip()]
        meta['files'] = files
        bad = [f for f in files if not f.startswith('sfc_models/') or '/test_' in f or f.startswith('test/')]
        if bad:
            print('patch touches files outside the package / tests:', bad)
            return 1
        # demo on the clean tree
        rc0, out0 = sh([PY, demo], cwd=wt, env=env, timeout=600)
        meta['ran'].append('demo on clean tree -> rc %d' % rc0)
        sh(['git', 'apply', patch], cwd=wt)
        rc1, out1 = sh([PY, demo], cwd=wt, env=env, timeout=600)
        meta['ran'].append('demo on patched tree -> rc %d' % rc1)
        rct, outt = sh([PY, '-m', 'pytest', '-ra', '-q', '-p', 'no:cacheprovider', '--timeout=900', '--continue-on-collection-errors'],
                       cwd=wt, env=env, timeout=1800)
        last = [l for l in outt.strip().splitlines() if 'passed' in l or 'failed' in l][-1:] or ['?']
        meta['ran'].append('pytest on patched tree -> ' + last[0].strip())
        ok_tests = '221 passed' in last[0] and '1 failed' in last[0]
        ok_demo = rc0 == 0 and rc1 != 0
        meta['tests_unchanged'] = ok_tests
        meta['demo_discriminates'] = ok_demo
        print('tests:', last[0].strip(), '| demo clean rc=%d patched rc=%d' % (rc0, rc1))
        if not ok_demo:
            print('--- demo on clean tree:\n' + out0[-600:] + '\n--- demo on patched tree:\n' + out1[-600:])
        # all checks on the patched tree
        caught = {}
        for i in range(1, 21):
            c = 'C%02d' % i
            rc, out = sh([PY, '-m', 'sfcv', 'check', c, '--root', wt], cwd='/verif', env=dict(os.environ, SFCV_OUT_DIR=wt + '/_sfcv_out'))
            viol = [l.strip() for l in out.splitlines() if l.startswith('  ') and ('  C%02d.' % i) in l]
            caught[c] = {'rc': rc, 'violations': [v[:300] for v in viol[:6]]}
            if rc != 0:
                print('  [%s rc=%d] %s' % (c, rc, (viol[0][:260] if viol else out.strip().splitlines()[0][:260])))
        meta['checks'] = {c: v for c, v in caught.items() if v['rc'] != 0}
        meta['caught_by_own_property_check'] = caught[pid]['rc'] == 1
        meta['caught_by'] = sorted(c for c, v in caught.items() if v['rc'] == 1)
        meta['analysis_errors'] = sorted(c for c, v in caught.items() if v['rc'] == 2)
        if not (ok_tests and ok_demo):
            print('NOT KEPT (tests unchanged: %s, demo discriminates: %s)' % (ok_tests, ok_demo))
            return 1
        dst = '/verif/seeded/' + name
        os.makedirs(dst, exist_ok=True)
        shutil.copy(patch, dst + '/patch.diff')
        shutil.copy(demo, dst + '/demo.py')
        if os.path.exists(os.path.join(src, 'notes.md')):
            shutil.copy(os.path.join(src, 'notes.md'), dst + '/notes.md')
        with open(dst + '/meta.json', 'w') as f:
            json.dump(meta, f, indent=1)
        print('KEPT as', dst, '| caught by:', meta['caught_by'], '| analysis errors:', meta['analysis_errors'])
        return 0
    finally:
        sh(['git', '-C', '/repo', 'worktree', 'remove', '--force', wt])
        shutil.rmtree(wt, ignore_errors=True)


if __name__ == '__main__':
    sys.exit(main())
