"""C09 - textbook models obey their difference equations for any parameters (decided structural clauses).

R1 lossless parameter embedding : a numeric constructor parameter / attribute embedded into equation text must use a
                                  value-preserving conversion (repr, str, %s, %r, {}, {!r}); a fixed precision is lossy.
R2 behavioural templates        : after inlining the sector's own definitions and resolving lag variables through their
                                  X(k-1) definitions, the anchored templates equal, as polynomials over roles:
                                  consumption  a_inc*(INC - T) + a_fin*Lag(F)   (expectations variant: Lag(INC - T)),
                                  tax  rate*INC,  wage bill  (1 - margin)*supply,  profit  margin*supply,
                                  interest  Lag(r)*Lag(holding) on both sides."""
import ast

from ..loader import AnalysisError, call_name
from .. import effects
from ..algebra import Poly, Reader, substitute, normalize, lag_poly, short
from ..dataflow import linform, lin_eq
from ..strdom import SELF, lit, Str, Hole
from ..ledger import strip_sign

TECHNIQUE = ('static analysis: conversion-spec lint over every numeric hole of the extracted equation templates; polynomial '
             'equality of the behavioural templates up to inlining of the sector\'s own definitions and lag resolution')
EXPLANATION = (
    'Every place where a numeric parameter is formatted into equation text is found through the string-template domain '
    '(%, str.format, f-strings, str/repr alike) and its conversion classified; a fixed-precision conversion loses digits for '
    'almost every parameter value. The behavioural equations of the household, tax, business and deposit sectors are read as '
    'polynomials, the sector\'s own definitions are inlined, lag variables resolved, and the result compared with the book\'s '
    'recursion. Agreement of solved models with the closed form is not decided.')


def sector_classes(prog):
    return [ci for ci in prog.subclasses('Sector') if prog.is_core(ci.module.rel)]


def num_holes(s, out):
    for h in s.holes():
        if h.kind == 'num':
            out.append(h)
        for a in h.args:
            if isinstance(a, Str):
                num_holes(a, out)


def self_lookup(it, include_numeric=False):
    """identities Var(Self, name) := rhs from the class's own ctor + generation Defs (last one wins);
    parameter constants (pure numbers / numeric holes) are kept symbolic"""
    table = {}
    for e in it.effects:
        if e.kind == 'def' and e.role == SELF and e.mode in ('create', 'set') and e.rhs is not None and not e.guards and not e.loops:
            if e.rhs.is_empty():
                table.pop(('var', SELF.key(), e.name.key()), None)
                continue
            if e.name.literal() in ('F', 'INC'):
                continue          # ledger accumulators: their equation is completed by the booked flows
            p = Reader(SELF).read(e.rhs)
            atoms = p.atoms()
            if not include_numeric and (not atoms or all(a[0] == 'sym' for a in atoms)):
                continue
            table[('var', SELF.key(), e.name.key())] = p

    def lookup(atom, ctx):
        p = table.get(atom)
        if p is None:
            return None
        # never expand a self-referential definition
        if atom in p.atoms():
            return None
        return p
    return lookup


def V(name):
    return Poly.atom(('var', SELF.key(), lit(name).key()))


def run(prog, check):
    check.explanation = EXPLANATION
    check.not_decided = "agreement of solved models with the closed-form recursion; the hand-coded iterative SIM's numerics"
    check.assumptions = ['the book recursions are those stated in the rule text']
    # ---- R1 ----------------------------------------------------------------------------------------
    seen = set()
    n1 = 0
    for ci in sector_classes(prog):
        it = effects.run_unit(prog, ci)
        for e in it.effects:
            strs = [x for x in (e.rhs, e.name, e.term) if isinstance(x, Str)]
            hs = []
            for s in strs:
                num_holes(s, hs)
            for h in hs:
                text, conv, prec = h.args
                fn = e.via[-1] if e.via else ci.name
                key = '%s::%s::numhole(%s,%r,%s)' % (e.where.split(':')[0], fn, text.replace('$', ''), conv, prec)
                if key in seen:
                    continue
                seen.add(key)
                lossy = (conv in 'feEgG' and prec is not None) or conv in 'di'
                n1 += 1
                check.ob('C09.R1', key, not lossy, e.where,
                         'value-preserving conversion %r' % conv if not lossy else
                         'parameter %s is embedded with the lossy conversion %%.%s%s: digits beyond that are dropped from the model' % (text, prec, conv),
                         'any parameter with more digits, e.g. alpha1 = 0.61234567 or a tax rate of 0.12345')
    # builders: numeric formatting in the book models
    for rel, m in sorted(prog.modules.items()):
        if '/gl_book/' not in rel.replace('\\', '/'):
            continue
        for n in ast.walk(m.tree):
            if isinstance(n, ast.BinOp) and isinstance(n.op, ast.Mod) and isinstance(n.left, ast.Constant) and isinstance(n.left.value, str):
                import re
                for mm in re.finditer(r'%[#0\- +]*\d*\.(\d+)([feEgG])', n.left.value):
                    n1 += 1
                    check.ob('C09.R1', '%s::numhole(%s)' % (rel, mm.group(0)), False, '%s:%d' % (rel, n.lineno),
                             'builder formats a parameter with %s' % mm.group(0), 'parameters with more digits')
    # ---- R2 ----------------------------------------------------------------------------------------
    # consumption function
    for cname, expect_lag in (('Household', False), ('HouseholdWithExpectations', True), ('Capitalists', False)):
        ci = prog.classes.get(cname)
        if ci is None:
            continue
        it = effects.run_unit(prog, ci)
        lk = self_lookup(it)
        dem = [e for e in it.effects if e.kind == 'def' and e.role == SELF and e.name.startswith_lit('DEM_') and e.rhs is not None and
               'AlphaIncome' in e.rhs.show()]
        if not dem:
            raise AnalysisError('consumption variable of %s not found' % cname)
        p = Poly.atom(('var', SELF.key(), dem[-1].name.key()))
        got = normalize(substitute(p, lk))
        ydisp = V('INC') - V('T')
        if expect_lag:
            ydisp = lag_poly(ydisp)
        want = V('AlphaIncome') * ydisp + V('AlphaFin') * lag_poly(V('F'))
        ok = (got - want).is_zero()
        check.saw(prog.resolve_method(ci, '__init__'))
        check.ob('C09.R2', '%s::%s::consumption' % (ci.module.rel, cname), ok, dem[-1].where,
                 'consumption = AlphaIncome*%s(INC - T) + AlphaFin*Lag(F)' % ('Lag' if expect_lag else '') if ok else
                 'consumption reads %s, required %s' % (got.show()[:200], want.show()[:200]),
                 'initial wealth different from zero / a calibration where current and lagged wealth differ')
    # tax
    tf = prog.classes.get('TaxFlow')
    if tf is not None:
        it = effects.run_unit(prog, tf)
        flows = [e for e in it.effects if e.kind == 'cashflow' and e.role.kind == 'loop' and e.rhs is not None and not e.rhs.is_empty()]
        for e in flows:
            p = Reader(e.role).read(e.rhs)
            inc = Poly.atom(('var', e.role.key(), lit('INC').key()))
            # rate * INC : the polynomial is divisible by INC with a cofactor that is a rate atom (opaque phi of the two rates)
            ok = len(p.terms) == 1 and any(a == list(inc.atoms())[0] and ex == 1 for a, ex in list(p.terms)[0]) and \
                len(list(p.terms)[0]) == 2 and list(p.terms.values())[0] == 1
            neg = e.term.startswith_lit('-')
            check.ob('C09.R2', '%s::TaxFlow::tax-is-rate-times-pretax-income' % tf.module.rel, ok and neg, e.where,
                     'T = rate * INC (pre-tax income), paid as an outflow' if (ok and neg) else 'tax reads %s' % p.show()[:200],
                     'any tax rate: taxing after-tax income or a lagged base changes the recursion')
    # business
    fb = prog.classes.get('FixedMarginBusiness')
    if fb is not None:
        it = effects.run_unit(prog, fb)
        from ..ledger import expand_phi
        import copy as _copy
        cases = []
        for e0 in it.effects:
            if e0.kind == 'def' and e0.phase == 'gen' and e0.role == SELF and e0.rhs is not None:
                # a right-hand side chosen by a condition (`eqn = a if c else b` before one definition) is the same as
                # two definitions under the two outcomes
                for extra, alt in expand_phi(e0.rhs):
                    e1 = _copy.copy(e0)
                    e1.rhs = alt
                    e1.guards = tuple(e0.guards) + tuple(extra)
                    cases.append(e1)
        for e in cases:
            if True:
                is_dem = e.name.startswith_lit('DEM_')
                is_prof = e.name.literal() == 'PROF'
                if not (is_dem or is_prof):
                    continue
                nums = []
                num_holes(e.rhs, nums)
                sup = [h for h in e.rhs.holes() if h.kind == 'fullname' and h.args[1].startswith_lit('SUP_')]
                zero_margin = any(g.cond.kind == 'numzero' and g.pol for g in e.guards)
                if zero_margin:
                    ok = is_dem and not nums and len(e.rhs.parts) == 1 and bool(sup)
                    why = 'zero margin: wage bill = supply'
                else:
                    want = {'$profit_margin': -1, '': 1} if is_dem else {'$profit_margin': 1, '': 0}
                    ok = False
                    why = 'no numeric factor'
                    if len(nums) == 1 and sup:
                        try:
                            lf = linform(ast.parse(nums[0].args[0].replace('$', 'P_'), mode='eval').body)
                        except SyntaxError:
                            lf = None
                        wantp = {k.replace('$', 'P_'): v for k, v in want.items()}
                        ok = lin_eq(lf, wantp)
                        pr = Reader(SELF).read(e.rhs)
                        ok = ok and len(pr.terms) == 1 and len(list(pr.terms)[0]) == 2
                        why = '%s = (%s) * supply' % ('wage bill' if is_dem else 'profit', nums[0].args[0])
                check.ob('C09.R2', '%s::FixedMarginBusiness::%s%s' % (fb.module.rel, 'wage-bill' if is_dem else 'profit', '(zero margin)' if zero_margin else ''),
                         ok, e.where, why if ok else 'template %s does not read %s' % (e.rhs.show()[:120], 'supply' if zero_margin else ('(1 - margin)*supply' if is_dem else 'margin*supply')),
                         'a profit margin other than zero')
    # deposit interest: Lag(r) * Lag(holding) on both sides
    dm = prog.classes.get('DepositMarket')
    if dm is not None:
        it = effects.run_unit(prog, dm)
        lkp = {}
        for e in it.effects:
            if e.kind == 'def' and e.mode in ('create', 'set') and e.rhs is not None and not e.rhs.is_empty():
                lkp[('var', e.role.key(), e.name.key())] = Reader(e.role).read(e.rhs)

        def lk(atom, ctx):
            p = lkp.get(atom)
            if p is None or atom in p.atoms():
                return None
            # keep the level variables (DEM / SUP / r) symbolic: only lag variables are resolved
            nm = short(atom[2])
            return p if 'LAG_' in nm else None
        for e in it.effects:
            if e.kind == 'cashflow' and e.rhs is not None and not e.rhs.is_empty():
                p = normalize(substitute(Reader(e.role).read(e.rhs), lk))
                issuer = e.term.startswith_lit('-')
                hold = ('SUP_' if issuer else 'DEM_')
                holding = []
                for h in e.rhs.holes():
                    if h.kind == 'fullname' and h.args[0] == e.role and h.args[1].startswith_lit('LAG_' + hold):
                        base = Str((h.args[1].parts[0][4:],) + h.args[1].parts[1:])
                        holding.append(('var', e.role.key(), base.key()))
                ok = False
                if holding:
                    want = lag_poly(Poly.atom(('var', SELF.key(), lit('r').key()))) * lag_poly(Poly.atom(holding[0]))
                    ok = (p - want).is_zero()
                check.ob('C09.R2', '%s::DepositMarket::interest(%s)' % (dm.module.rel, 'issuer' if issuer else 'holder'), ok, e.where,
                         'interest = Lag(r) * Lag(%s holding)' % ('issued' if issuer else 'own') if ok else 'interest reads ' + p.show()[:200],
                         'a change of the interest rate or of holdings between periods')
    # ---- R3 (a): a numeric parameter written into an equation by the constructor is written again at generation time --------------
    # (the book builders - and users - set AlphaIncome / AlphaFin / TaxRate on the built sector; the equation must follow the attribute)
    for ci in sector_classes(prog):
        try:
            itp = effects.run_unit(prog, ci)
        except AnalysisError:
            continue

        def numeric(e_):
            return e_.kind == 'def' and e_.role == SELF and e_.rhs is not None and len(e_.rhs.parts) == 1 and \
                isinstance(e_.rhs.parts[0], Hole) and e_.rhs.parts[0].kind == 'num'
        made = {e_.name.key(): e_ for e_ in itp.effects if e_.phase == 'ctor' and numeric(e_)}
        again = {e_.name.key() for e_ in itp.effects if e_.phase == 'gen' and numeric(e_) and e_.mode == 'set'}
        for k_, e_ in sorted(made.items(), key=lambda kv: repr(kv[0])):
            okp = k_ in again
            check.ob('C09.R3', '%s::%s::parameter-equation-follows-the-attribute(%s)' % (ci.module.rel, ci.name, e_.name.show()), okp, e_.where,
                     'the equation is re-written from the attribute when the equations are generated' if okp else
                     'the parameter equation %s is written by the constructor only: a value set on the built sector (as the book builders do) '
                     'is ignored and the model runs with the constructor value' % e_.name.show(),
                     'a tax rate / propensity set on the sector object after construction')
    # ---- R3: an override of the generation method keeps what the inherited one does -------------------------
    # (the household classes re-read AlphaIncome / AlphaFin / TaxRate from the attributes at generation time, which is how the
    #  book builders set the propensities after construction; an override that forgets the base call silently ignores them)
    n3 = 0
    for ci in sector_classes(prog):
        own = ci.methods.get('_GenerateEquations')
        if own is None:
            continue
        base_m = None
        for b in ci.mro[1:]:
            if '_GenerateEquations' in b.methods:
                base_m = b
                break
        if base_m is None:
            continue
        itb = effects.run_unit(prog, base_m)
        # only the parameter refresh is required to survive an override: `set` of a variable to a formatted numeric attribute
        base_eff = [e for e in itb.effects if e.phase == 'gen' and e.kind == 'def' and e.mode == 'set' and e.role == SELF and
                    e.rhs is not None and len(e.rhs.parts) == 1 and isinstance(e.rhs.parts[0], Hole) and e.rhs.parts[0].kind == 'num']
        if not base_eff:
            continue
        itc = effects.run_unit(prog, ci)
        have = {(e.kind, e.name.key() if e.name else None, e.mode) for e in itc.effects if e.phase == 'gen'}
        for e in base_eff:
            ok = (e.kind, e.name.key(), e.mode) in have
            n3 += 1
            check.ob('C09.R3', '%s::%s.G::keeps-inherited(%s.%s)' % (ci.module.rel, ci.name, base_m.name, e.show()[:70]), ok, own.where,
                     'the override still performs what %s._GenerateEquations does' % base_m.name if ok else
                     '%s overrides _GenerateEquations without doing what %s._GenerateEquations does (%s): e.g. propensities assigned to the '
                     'attributes after construction are ignored' % (ci.name, base_m.name, e.show()[:90]),
                     'hh = %s(...); hh.AlphaIncome = 0.8; model.main()' % ci.name)
    # ---- R2 (builders): the portfolio equations of the book builders read lambda0 + lambda1*r - lambda2*(YD/V) -----
    nb = 0
    for rel, m in sorted(prog.modules.items()):
        if '/gl_book/' not in rel.replace('\\', '/'):
            continue
        for n in ast.walk(m.tree):
            if isinstance(n, ast.Call) and call_name(n) == 'format' and isinstance(n.func, ast.Attribute) and \
                    isinstance(n.func.value, ast.Constant) and isinstance(n.func.value.value, str) and \
                    all(x in n.func.value.value for x in ('L0', 'L1', 'L2')):
                text = n.func.value.value.replace('{0}', 'RATE').replace('{}', 'RATE')
                got = Reader(SELF).read(Str([text]))
                want = V('L0') + V('L1') * V('RATE') - V('L2') * V('AfterTax') * V('F').inverse()
                ok = (got - want).is_zero()
                nb += 1
                fn = n
                while fn is not None and not isinstance(fn, ast.FunctionDef):
                    fn = getattr(fn, '_parent', None)
                cls_ = fn
                while cls_ is not None and not isinstance(cls_, ast.ClassDef):
                    cls_ = getattr(cls_, '_parent', None)
                check.ob('C09.R2', '%s::%s.%s::portfolio-weight' % (rel, cls_.name if cls_ else '?', fn.name if fn else '?'), ok, '%s:%d' % (rel, n.lineno),
                         'bill share = L0 + L1*r - L2*(AfterTax/F): current disposable income over current wealth' if ok else
                         'portfolio equation reads %s, required %s' % (got.show()[:160], want.show()[:160]),
                         'wealth that is moving (any run that does not start in the steady state) with lambda2 > 0')
    # ---- R4: the hand-coded iterative SIM uses the book's equations ----------------------------------------------
    sim = prog.classes.get('ModelSIMiterative')
    if sim is not None:
        want = {'tax': 'theta * Y', 'YD': 'Y - tax', 'C': 'alpha1 * YD + alpha2 * H_LAG', 'GUESS_Y': 'C + G',
                'dHs': 'G - tax', 'dHh': 'YD - C', 'dH': 'dHs', 'H': 'H_LAG + dH'}
        for mname in ('RunStep',):
            fm = sim.methods.get(mname)
            if fm is None:
                continue
            check.saw(fm)
            got = {}
            for n in ast.walk(fm.node):
                if isinstance(n, ast.Assign) and isinstance(n.targets[0], ast.Name) and n.targets[0].id in want:
                    got.setdefault(n.targets[0].id, []).append(n.value)
            for var, w in sorted(want.items()):
                vals = [v for v in got.get(var, []) if not isinstance(v, ast.Constant)]
                ok = bool(vals)
                txt = ''
                for v in vals:
                    txt = ast.unparse(v).replace('self.', '')
                    a = Reader(SELF).read(Str([txt]))
                    b = Reader(SELF).read(Str([w]))
                    ok = ok and (a - b).is_zero()
                check.ob('C09.R4', '%s::%s::equation(%s)' % (sim.module.rel, fm.qualname, var), ok, fm.where,
                         '%s = %s' % (var, w) if ok else '%s is computed as `%s`, the book has %s = %s' % (var, txt, var, w),
                         'any parameter vector / G path')
        # lagged wealth and the exogenous path are read at T-1 / T
        rs = sim.methods.get('RunStep')
        if rs is not None:
            from ..dataflow import single_assign_subst as _sas
            sub = _sas(rs.node)
            for n in ast.walk(rs.node):
                if isinstance(n, ast.Assign) and isinstance(n.targets[0], ast.Name) and n.targets[0].id in ('H_LAG', 'G') and isinstance(n.value, ast.Subscript):
                    lf = linform(n.value.slice, sub)
                    wantl = {'self.T': 1, '': -1} if n.targets[0].id == 'H_LAG' else {'self.T': 1, '': 0}
                    check.ob('C09.R4', '%s::%s::index(%s)' % (sim.module.rel, rs.qualname, n.targets[0].id), lin_eq(lf, wantl), rs.where,
                             '%s read at %s' % (n.targets[0].id, ast.unparse(n.value.slice)), 'any G path / initial wealth')
            # the fixed-point loop of the period stops on the size of the change, not on its sign
            for n in ast.walk(rs.node):
                if isinstance(n, ast.Compare) and len(n.ops) == 1 and isinstance(n.ops[0], (ast.Lt, ast.LtE, ast.Gt, ast.GtE)):
                    for side, other in ((n.left, n.comparators[0]), (n.comparators[0], n.left)):
                        if isinstance(other, ast.Constant) and isinstance(other.value, float) and other.value < 1 and \
                                any(isinstance(x, ast.BinOp) and isinstance(x.op, ast.Sub) and isinstance(x.left, ast.Name)
                                    and isinstance(x.right, ast.Name) for x in ast.walk(side)):
                            two_sided = isinstance(side, ast.Call) and call_name(side) in ('abs', 'fabs')
                            check.ob('C09.R4', '%s::%s::stop-test-two-sided' % (sim.module.rel, rs.qualname), two_sided, '%s:%d' % (sim.module.rel, n.lineno),
                                     'the iteration stops on abs(change) below the tolerance' if two_sided else
                                     'the iteration stops on `%s`: a change of the other sign ends it at once, far from the fixed point' % ast.unparse(n),
                                     'a period in which income falls (a cut in G)')
        check.floor('C09.R4', 9)
    # ---- R5: the models follow the paths the user supplies ----------------------------------------------
    from ._common import exogenous_applied
    from .. import cfg as cfgmod_
    from ..cfg import atomic_facts
    pf, okx, whyx = exogenous_applied(prog)
    check.saw(pf)
    from ._common import registration_order_kept
    for rf_o, c_o, ok_o, why_o in registration_order_kept(prog, 'Exogenous'):
        check.saw(rf_o)
        check.ob('C09.R5', '%s::registrations-in-call-order(%s)' % (rf_o.key, c_o.func.attr), ok_o, '%s:%d' % (rf_o.module.rel, c_o.lineno), why_o,
                 "a builder's book path for G, then the user's own path for G")
    check.ob('C09.R5', '%s::exogenous-entries-applied' % pf.key, okx, pf.where, whyx,
             'a builder with its book path, then SetExogenous with the user\'s G / r path')
    # book-specific data (paths, initial conditions) is installed by a builder only when the book set-up was asked for
    nb = 0
    for rel, m_ in sorted(prog.modules.items()):
        if '/gl_book/' not in rel.replace('\\', '/'):
            continue
        for ci in [c for c in prog.classes.values() if c.module is m_]:
            bm = ci.methods.get('build_model')
            if bm is None:
                continue
            gb = cfgmod_.build(bm)
            for nd in gb.stmt_nodes():
                if nd.kind != 'stmt':
                    continue
                for c in ast.walk(nd.ast):
                    if isinstance(c, ast.Call) and call_name(c) in ('SetExogenous', 'AddExogenous', 'AddInitialCondition'):
                        flagged = any(v is True and isinstance(e, ast.Attribute) and e.attr == 'UseBookExogenous'
                                      for test, outcome in gb.conditions_at(nd) for _, v, e in atomic_facts(test, outcome))
                        nb += 1
                        check.saw(bm)
                        check.ob('C09.R5', '%s::%s::book-data-under-flag(%s)' % (rel, bm.qualname, ast.unparse(c)[:60]), flagged,
                                 '%s:%d' % (rel, c.lineno),
                                 'installed only when the book set-up was requested' if flagged else
                                 'book-specific data is installed even when the model was requested without the book set-up',
                                 'use_book_exogenous=False and the user\'s own paths / initial stocks')
    # R1 (cont.): initial stocks supplied through the Model API are embedded exactly
    from ._common import initial_value_text_exact
    for f_, where_, ok_, why_ in initial_value_text_exact(prog):
        check.saw(f_)
        check.ob('C09.R1', '%s::initial-value-text-exact(%s)' % (f_.key, where_.rsplit(':', 1)[0]), ok_, where_, why_,
                 'initial stocks with more than a few decimals (a computed steady state)')
    check.floor('C09.R5', 10)
    check.floor('C09.R3', 4)
    check.floor('C09.R1', 9)
    check.floor('C09.R2', 8)
