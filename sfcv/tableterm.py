"""Symbolic evaluation of the tab-delimited renderer into a canonical table term (C19.R2).

The renderer (private helpers inlined) is evaluated statement by statement over *terms*:
  strings : ('str', s) | ('cat', (parts...)) | ('join', sep, LIST) | ('fmt', F, x) | ('fmt1', F, x) | ('rep', var, parts, SRC)
  lists   : SEQ (the column sequence) | VALUES | ('map', var, body, SRC) | ('lit', (elts...)) | ('concat', (lists...))
            | ('range', lo, hi) | ('series', name) | ('slice', L, lo, hi) | ('zipstar', L)
  scalars : ('var', id) | ('param', name) | ('int', n) | ('cell', name, row) | ('len', x) | ('min', L) | ('opaque', text)
Comprehensions, append loops and `+=` accumulation all become `map` / `rep` terms, maps are fused, and the returned text
is cut into line groups  ('line', term) / ('lines', var, term, SRC).  Two renderers that produce the same table have the
same canonical groups up to the names of bound variables.  Nothing is executed."""
import ast
import itertools

from .loader import call_name, unparse

SEQ = ('seq',)
VALUES = ('values',)
_ids = itertools.count(1)

STR_KINDS = ('str', 'cat', 'join', 'fmt', 'fmt1', 'rep')
LIST_KINDS = ('seq', 'values', 'map', 'lit', 'concat', 'range', 'series', 'slice', 'zipstar', 'attr')


def fresh():
    return ('var', next(_ids))


def subst(t, var, val):
    if t == var:
        return val
    if isinstance(t, tuple):
        if t and t[0] == 'idx':
            base, i = subst(t[1], var, val), subst(t[2], var, val)
            if base[0] in LIST_KINDS:
                r = index(base, i)
                return r if r != ('opaque', 'index') else ('idx', base, i)
            return ('idx', base, i)
        return tuple(subst(x, var, val) for x in t)
    return t


def free_of(t, var):
    if t == var:
        return False
    if isinstance(t, tuple):
        return all(free_of(x, var) for x in t)
    return True


def cat(parts):
    out = []
    for p in parts:
        if p[0] == 'cat':
            out.extend(p[1])
        else:
            out.append(p)
    merged = []
    for p in out:
        if p[0] == 'str' and merged and merged[-1][0] == 'str':
            merged[-1] = ('str', merged[-1][1] + p[1])
        elif p == ('str', ''):
            continue
        else:
            merged.append(p)
    if not merged:
        return ('str', '')
    return merged[0] if len(merged) == 1 else ('cat', tuple(merged))


def concat(lists):
    out = []
    for l in lists:
        if l[0] == 'concat':
            out.extend(l[1])
        elif l == ('lit', ()):
            continue
        else:
            out.append(l)
    merged = []
    for l in out:
        if l[0] == 'lit' and merged and merged[-1][0] == 'lit':
            merged[-1] = ('lit', merged[-1][1] + l[1])
        else:
            merged.append(l)
    if not merged:
        return ('lit', ())
    return merged[0] if len(merged) == 1 else ('concat', tuple(merged))


def index(lst, i):
    """element i of a list term"""
    if lst[0] == 'series':
        return ('cell', lst[1], i)
    if lst[0] == 'map':
        return subst(lst[2], lst[1], index(lst[3], i))
    if lst[0] == 'slice' and lst[2] in (None, ('int', 0)):
        return index(lst[1], i)
    if lst[0] == 'lit' and i[0] == 'int' and 0 <= i[1] < len(lst[1]):
        return lst[1][i[1]]
    if lst[0] == 'attr':
        return ('idx', lst, i)
    if lst[0] == 'range' and lst[1] == ('int', 0):
        return i
    return ('opaque', 'index')


def mk_len(lst):
    if lst[0] == 'map':
        return mk_len(lst[3])
    if lst[0] == 'range' and lst[1] == ('int', 0):
        return lst[2]
    if lst[0] == 'lit':
        return ('int', len(lst[1]))
    return ('len', lst)


def canon_index(t):
    """iteration over a list that is not a range becomes iteration over its index range (so `for x in L`, `for i in
    range(len(L))`, enumerate(L) and zip(L, M) have one form)"""
    if not isinstance(t, tuple) or not t:
        return t
    if t[0] in ('map', 'rep', 'lines') and len(t) == 4:
        var, body, src = t[1], t[2], t[3]
        src = canon_index(src)
        body = canon_index(body)
        if src[0] != 'range' and src[0] in LIST_KINDS:
            i = fresh()
            n = mk_len(src)
            return (t[0], i, canon_index(subst(body, var, index(src, i))), ('range', ('int', 0), n))
        return (t[0], var, body, src)
    out = tuple(canon_index(x) for x in t)
    if out[0] == 'cat':
        return cat(list(out[1]))
    return out


def rep_parts(t):
    """the parts of a `rep` body as a flat tuple"""
    c = cat(list(t[2]))
    return c[1] if c[0] == 'cat' else (c,)


def minlen_canon(t):
    """('min', map(v, len(series(v)), SEQ))  ==  ('min', map(x, len(x), VALUES))   (the sequence is a permutation of the keys: R1)"""
    if t[0] == 'min' and t[1][0] == 'map':
        _, var, body, src = t[1]
        if src == SEQ and body == ('len', ('series', var)):
            v2 = fresh()
            return ('min', ('map', v2, ('len', v2), VALUES))
    return t


def is_minlen(t):
    t = minlen_canon(t)
    return t[0] == 'min' and t[1][0] == 'map' and t[1][3] == VALUES and t[1][2] == ('len', t[1][1])


def mk_map(var, body, src):
    """map with fusion / distribution"""
    if src[0] == 'map':
        return mk_map(src[1], subst(body, var, src[2]), src[3])
    if src[0] == 'lit':
        return ('lit', tuple(subst(body, var, e) for e in src[1]))
    if src[0] == 'concat':
        return concat([mk_map(var, body, s) for s in src[1]])
    if src[0] == 'slice' and src[1][0] == 'map':
        inner = src[1]
        return mk_map(var, body, ('map', inner[1], inner[2], ('slice', inner[3], src[2], src[3])))
    if src[0] == 'zipstar' and src[1][0] == 'map' and src[1][3] == SEQ:
        # rows of the transposed columns: row i = [column_v[i] for v in SEQ], for i below the shortest column
        colvar, col = src[1][1], src[1][2]
        n = column_length(col, colvar)
        if n is not None:
            i = fresh()
            row = ('map', colvar, index(col, i), SEQ)
            return ('map', i, subst(body, var, row), ('range', ('int', 0), n))
    if body == var:
        return src
    return ('map', var, body, src)


def column_length(col, colvar):
    """number of rows zip(*columns) yields, when every column has the form f(series(v)[0:N]) or f(series(v))"""
    c = col
    while c[0] == 'map':
        c = c[3]
    v = fresh()
    full = ('min', ('map', v, ('len', v), VALUES))
    if c == ('series', colvar):
        return full
    if c[0] == 'slice' and c[1] == ('series', colvar) and c[2] in (None, ('int', 0)) and c[3] is not None and is_minlen(c[3]):
        return full
    return None


def alpha_eq(a, b, env=None):
    env = env or {}
    if isinstance(a, tuple) and isinstance(b, tuple):
        if a and b and a[0] == 'var' and b[0] == 'var' and len(a) == 2 and len(b) == 2:
            return env.get(a, a) == b
        if len(a) != len(b):
            return False
        if a and a[0] in ('map', 'rep', 'lines') and b and b[0] == a[0]:
            e2 = dict(env)
            e2[a[1]] = b[1]
            return alpha_eq(a[3], b[3], env) and alpha_eq(a[2], b[2], e2)
        return all(alpha_eq(x, y, env) for x, y in zip(a, b))
    return a == b


def show(t, names=None):
    names = names if names is not None else {}
    def nm(v):
        if v not in names:
            names[v] = 'abcdefgh'[len(names) % 8]
        return names[v]
    k = t[0] if isinstance(t, tuple) and t else None
    if k == 'var':
        return nm(t)
    if k == 'str':
        return repr(t[1])
    if k == 'int':
        return str(t[1])
    if k == 'param':
        return t[1]
    if k == 'attr':
        return 'self.' + t[1]
    if k == 'seq':
        return 'COLUMNS'
    if k == 'values':
        return 'self.values()'
    if k == 'cat':
        return ' + '.join(show(p, names) for p in t[1])
    if k == 'join':
        return '%s.join(%s)' % (show(t[1], names), show(t[2], names))
    if k == 'fmt':
        return '%s %% (%s,)' % (show(t[1], names), show(t[2], names))
    if k == 'fmt1':
        return '%s %% %s' % (show(t[1], names), show(t[2], names))
    if k in ('map',):
        return '[%s for %s in %s]' % (show(t[2], names), nm(t[1]), show(t[3], names))
    if k == 'rep':
        return "''.join(%s for %s in %s)" % (' + '.join(show(p, names) for p in rep_parts(t)), nm(t[1]), show(t[3], names))
    if k == 'lit':
        return '[%s]' % ', '.join(show(e, names) for e in t[1])
    if k == 'concat':
        return ' + '.join(show(e, names) for e in t[1])
    if k == 'range':
        return 'range(%s, %s)' % (show(t[1], names), show(t[2], names))
    if k == 'series':
        return 'self[%s]' % show(t[1], names)
    if k == 'cell':
        return 'self[%s][%s]' % (show(t[1], names), show(t[2], names))
    if k == 'slice':
        return '%s[%s:%s]' % (show(t[1], names), show(t[2], names) if t[2] else '', show(t[3], names) if t[3] else '')
    if k == 'len':
        return 'len(%s)' % show(t[1], names)
    if k == 'idx':
        return '%s[%s]' % (show(t[1], names), show(t[2], names))
    if k == 'min':
        return 'min(%s)' % show(t[1], names)
    if k == 'zipstar':
        return 'zip(*%s)' % show(t[1], names)
    if k == 'line':
        return 'line %s' % show(t[1], names)
    if k == 'lines':
        return 'for %s in %s: line %s' % (nm(t[1]), show(t[3], names), show(t[2], names))
    if k == 'opaque':
        return '<%s>' % t[1]
    if t is None:
        return ''
    return str(t)


class Unsupported(Exception):
    pass


def lhs_key(t):
    if isinstance(t, ast.Name):
        return t.id
    if isinstance(t, ast.Attribute) and isinstance(t.value, ast.Name) and t.value.id == 'self':
        return 'self.' + t.attr
    return None


class TermEval(object):
    """generic evaluator; `self.X` is a list source ('attr', X) unless the function assigned it before"""
    helper = None

    def __init__(self, fnode):
        self.fn = fnode
        self.returns = []       # (term, assumptions, line)
        self.finals = []        # environments at the end of paths that fall off the end

    def bind_target(self, target, value, env):
        if isinstance(target, ast.Name):
            env[target.id] = value
            return True
        if isinstance(target, (ast.Tuple, ast.List)):
            for k, el in enumerate(target.elts):
                if not self.bind_target(el, ('idx', value, ('int', k)) if value[0] in ('var', 'idx') else index(value, ('int', k)), env):
                    return False
            return True
        return False

    # ---- expressions -------------------------------------------------------------------------------
    def ev(self, e, env):
        if isinstance(e, ast.Constant):
            if isinstance(e.value, str):
                return ('str', e.value)
            if isinstance(e.value, int) and not isinstance(e.value, bool):
                return ('int', e.value)
            return ('opaque', repr(e.value))
        if isinstance(e, ast.Name):
            if e.id in env:
                return env[e.id]
            return ('opaque', e.id)
        if lhs_key(e) is not None and isinstance(e, ast.Attribute):
            return env.get(lhs_key(e), ('attr', e.attr))
        if isinstance(e, (ast.List, ast.Tuple)):
            return ('lit', tuple(self.ev(x, env) for x in e.elts))
        if isinstance(e, ast.Subscript):
            r = self.source_subscript(e, env)
            if r is not None:
                return r
            base = self.ev(e.value, env)
            if isinstance(e.slice, ast.Slice):
                if e.slice.step is not None:
                    return ('opaque', unparse(e))
                lo = self.ev(e.slice.lower, env) if e.slice.lower is not None else None
                hi = self.ev(e.slice.upper, env) if e.slice.upper is not None else None
                if hi is not None:
                    hi = minlen_canon(hi)
                return ('slice', base, lo, hi)
            i = self.ev(e.slice, env)
            if base[0] in LIST_KINDS:
                r = index(base, i)
                return r if r != ('opaque', 'index') else ('opaque', unparse(e))
            if base[0] in ('var', 'idx'):
                return ('idx', base, i)       # settled when the variable is replaced by what it ranges over
            return ('opaque', unparse(e))
        if isinstance(e, (ast.ListComp, ast.GeneratorExp)):
            if len(e.generators) != 1 or e.generators[0].ifs:
                return ('opaque', unparse(e)[:80])
            gen = e.generators[0]
            src = self.ev(gen.iter, env)
            if src[0] not in LIST_KINDS:
                return ('opaque', unparse(e)[:80])
            v = fresh()
            env2 = dict(env)
            if not self.bind_target(gen.target, v, env2):
                return ('opaque', unparse(e)[:80])
            return mk_map(v, self.ev(e.elt, env2), src)
        if isinstance(e, ast.BinOp) and isinstance(e.op, ast.Add):
            a, b = self.ev(e.left, env), self.ev(e.right, env)
            if a[0] in STR_KINDS and b[0] in STR_KINDS:
                return cat([a, b])
            if a[0] in LIST_KINDS and b[0] in LIST_KINDS:
                return concat([a, b])
            if (a[0] in STR_KINDS and b[0] in ('var', 'idx', 'cell', 'opaque', 'param')) or \
                    (b[0] in STR_KINDS and a[0] in ('var', 'idx', 'cell', 'opaque', 'param')):
                return cat([a, b])       # an element added to text is text
            return ('opaque', unparse(e)[:80])
        if isinstance(e, ast.BinOp) and isinstance(e.op, ast.Mult):
            a, b = self.ev(e.left, env), self.ev(e.right, env)
            if a[0] == 'str' and b[0] == 'int':
                return ('str', a[1] * b[1])
            if a[0] == 'int' and b[0] == 'str':
                return ('str', a[1] * b[1])
            return ('opaque', unparse(e)[:80])
        if isinstance(e, ast.BinOp) and isinstance(e.op, ast.Mod):
            f = self.ev(e.left, env)
            if isinstance(e.right, ast.Tuple) and len(e.right.elts) == 1:
                return ('fmt', f, self.ev(e.right.elts[0], env))
            return ('fmt1', f, self.ev(e.right, env))
        if isinstance(e, ast.Call):
            nm = call_name(e)
            r = self.source_call(e, nm, env)
            if r is not None:
                return r
            if nm == 'enumerate' and len(e.args) == 1 and not e.keywords:
                lst = self.ev(e.args[0], env)
                if lst[0] in LIST_KINDS:
                    i = fresh()
                    return ('map', i, ('lit', (i, index(lst, i))), ('range', ('int', 0), mk_len(lst)))
            if nm == 'zip' and len(e.args) == 2 and not e.keywords and not any(isinstance(a, ast.Starred) for a in e.args):
                la, lb = self.ev(e.args[0], env), self.ev(e.args[1], env)
                if la[0] in LIST_KINDS and lb[0] in LIST_KINDS:
                    i = fresh()
                    na, nb = mk_len(la), mk_len(lb)
                    return ('map', i, ('lit', (index(la, i), index(lb, i))), ('range', ('int', 0), na if na == nb else ('min2', na, nb)))
            if nm in ('list', 'tuple') and len(e.args) == 1 and not e.keywords:
                return self.ev(e.args[0], env)
            if nm == 'len' and len(e.args) == 1:
                a = self.ev(e.args[0], env)
                return mk_len(a) if a[0] in LIST_KINDS else ('len', a)
            if nm == 'min' and len(e.args) == 1 and not e.keywords:
                return minlen_canon(('min', self.ev(e.args[0], env)))
            if nm == 'range' and 1 <= len(e.args) <= 2 and not e.keywords:
                lo = ('int', 0) if len(e.args) == 1 else self.ev(e.args[0], env)
                return ('range', lo, minlen_canon(self.ev(e.args[-1], env)))
            if nm == 'join' and isinstance(e.func, ast.Attribute) and len(e.args) == 1:
                return ('join', self.ev(e.func.value, env), self.ev(e.args[0], env))
            if nm == 'zip' and len(e.args) == 1 and isinstance(e.args[0], ast.Starred) and not e.keywords:
                return ('zipstar', self.ev(e.args[0].value, env))
            if nm == 'str' and len(e.args) == 1:
                return ('opaque', unparse(e)[:80])
            return ('opaque', unparse(e)[:80])
        return ('opaque', unparse(e)[:80])

    # ---- statements --------------------------------------------------------------------------------
    def assigned(self, stmts):
        out = set()
        for s in stmts:
            for n in ast.walk(s):
                if isinstance(n, ast.Name) and isinstance(n.ctx, ast.Store):
                    out.add(n.id)
                if isinstance(n, ast.Attribute) and isinstance(n.ctx, ast.Store) and lhs_key(n) is not None:
                    out.add(lhs_key(n))
                if isinstance(n, ast.Call) and isinstance(n.func, ast.Attribute) and lhs_key(n.func.value) is not None and \
                        n.func.attr in ('append', 'extend', 'insert', 'pop', 'remove', 'sort', 'reverse', 'clear'):
                    out.add(lhs_key(n.func.value))
        return out

    def simple(self, s, env):
        """straight-line statement -> True when handled"""
        if isinstance(s, ast.Assign) and all(lhs_key(t) is not None for t in s.targets):
            v = self.ev(s.value, env)
            for t in s.targets:
                env[lhs_key(t)] = v
            return True
        if isinstance(s, ast.Assign):
            for n in ast.walk(s):
                if isinstance(n, ast.Name) and isinstance(n.ctx, ast.Store):
                    env[n.id] = ('opaque', n.id)
            return True      # stores into other attributes / subscripts do not change the text (C16 judges them)
        if isinstance(s, ast.AugAssign) and lhs_key(s.target) is not None and isinstance(s.op, ast.Add):
            key = lhs_key(s.target)
            cur = env.get(key, ('attr', key[5:]) if key.startswith('self.') else ('opaque', key))
            add = self.ev(s.value, env)
            if cur[0] in STR_KINDS and add[0] in STR_KINDS:
                env[key] = cat([cur, add])
            elif cur[0] in LIST_KINDS and add[0] in LIST_KINDS:
                env[key] = concat([cur, add])
            else:
                env[key] = ('opaque', unparse(s)[:80])
            return True
        if isinstance(s, ast.Expr) and isinstance(s.value, ast.Constant):
            return True
        if isinstance(s, ast.Expr) and isinstance(s.value, ast.Call) and isinstance(s.value.func, ast.Attribute) and \
                lhs_key(s.value.func.value) is not None and lhs_key(s.value.func.value) in env:
            lst, m = lhs_key(s.value.func.value), s.value.func.attr
            cur = env[lst]
            if m == 'append' and len(s.value.args) == 1 and cur[0] in LIST_KINDS:
                env[lst] = concat([cur, ('lit', (self.ev(s.value.args[0], env),))])
            elif m == 'extend' and len(s.value.args) == 1 and cur[0] in LIST_KINDS:
                add = self.ev(s.value.args[0], env)
                env[lst] = concat([cur, add]) if add[0] in LIST_KINDS else ('opaque', unparse(s)[:80])
            else:
                env[lst] = ('opaque', unparse(s)[:80])
            return True
        if isinstance(s, (ast.Pass, ast.Import, ast.ImportFrom, ast.FunctionDef, ast.Assert)):
            return True
        if isinstance(s, ast.Expr):
            return True
        return False

    def loop(self, s, env):
        """for v in SRC: body  ->  every accumulator X becomes  X0 (+) flatmap(v, delta, SRC)"""
        mod = self.assigned(s.body)
        if s.orelse:
            raise Unsupported('loop with else')
        tnames = {n.id for n in ast.walk(s.target) if isinstance(n, ast.Name)}
        src = self.ev(s.iter, env)
        if src[0] not in LIST_KINDS:
            raise Unsupported('loop source `%s`' % unparse(s.iter)[:60])
        v = fresh()
        marks = {}
        env2 = dict(env)
        for x in mod:
            if x in env and x not in tnames:
                cur = env[x]
                if cur[0] in STR_KINDS:
                    marks[x] = ('str', '\x00ACC:%s\x00' % x)
                elif cur[0] in LIST_KINDS:
                    marks[x] = ('lit', (('opaque', '\x00ACC:%s' % x),))
                if x in marks:
                    env2[x] = marks[x]
        if not self.bind_target(s.target, v, env2):
            raise Unsupported('loop target')
        for st in s.body:
            if isinstance(st, ast.For):
                self.loop(st, env2)
            elif not self.simple(st, env2):
                raise Unsupported('statement `%s` inside a loop' % unparse(st)[:60])
        for x in mod:
            if x in tnames:
                continue
            if x not in marks:
                env[x] = ('opaque', 'loop-local ' + x)       # defined inside the loop only
                continue
            new, mark = env2[x], marks[x]
            if new == mark:
                continue
            if mark[0] == 'str':
                parts = new[1] if new[0] == 'cat' else (new,)
                if not parts or parts[0][0] != 'str' or not parts[0][1].startswith(mark[1]) or not free_of(('cat', tuple(parts[1:])), mark):
                    env[x] = ('opaque', 'accumulation of ' + x)
                    continue
                head = parts[0][1][len(mark[1]):]
                delta = ([('str', head)] if head else []) + list(parts[1:])
                if any(mark[1] in p[1] for p in delta if p[0] == 'str'):
                    env[x] = ('opaque', 'accumulation of ' + x)
                    continue
                env[x] = cat([env[x], ('rep', v, tuple(delta), src)])
            else:
                parts = new[1] if new[0] == 'concat' else (new,)
                if not parts or parts[0][0] != 'lit' or not parts[0][1] or parts[0][1][0] != mark[1][0]:
                    env[x] = ('opaque', 'accumulation of ' + x)
                    continue
                delta = concat([('lit', parts[0][1][1:])] + list(parts[1:]))
                if not free_of(delta, mark[1][0]):
                    env[x] = ('opaque', 'accumulation of ' + x)
                    continue
                if delta[0] == 'lit' and len(delta[1]) == 1:
                    env[x] = concat([env[x], mk_map(v, delta[1][0], src)])
                elif delta == ('lit', ()):
                    pass
                else:
                    env[x] = ('opaque', 'several appends per iteration to ' + x)
        for x in tnames:
            env[x] = ('opaque', 'loop variable after the loop')

    def block(self, stmts, env, assum):
        for i, s in enumerate(stmts):
            rest = stmts[i + 1:]
            if isinstance(s, ast.Return):
                self.returns.append((self.ev(s.value, env) if s.value is not None else ('opaque', 'None'), dict(assum), s.lineno))
                return
            if isinstance(s, ast.If):
                emp = self.emptiness(s.test, env)
                for branch, val in ((s.body, True), (s.orelse, False)):
                    a2 = dict(assum)
                    if emp is not None:
                        is_empty = (emp == val)
                        if 'empty' in a2 and a2['empty'] != is_empty:
                            continue
                        a2['empty'] = is_empty
                    self.block(list(branch) + list(rest), dict(env), a2)
                return
            if isinstance(s, ast.For):
                try:
                    self.loop(s, env)
                except Unsupported as e:
                    for x in self.assigned([s]):
                        env[x] = ('opaque', str(e))
                continue
            if not self.simple(s, env):
                for x in self.assigned([s]):
                    env[x] = ('opaque', unparse(s)[:60])
                for n in ast.walk(s):
                    if isinstance(n, ast.Return):
                        self.returns.append((('opaque', 'return inside `%s`' % type(s).__name__), dict(assum), n.lineno))
        self.returns.append((('opaque', 'None'), dict(assum), getattr(self.fn, 'end_lineno', self.fn.lineno)))
        self.finals.append((env, dict(assum)))

    def source_call(self, e, nm, env):
        return None

    def source_subscript(self, e, env):
        return None

    def emptiness(self, t, env):
        """True when `t` holds iff the column sequence is empty, False when iff non-empty, None otherwise"""
        if isinstance(t, ast.UnaryOp) and isinstance(t.op, ast.Not):
            r = self.emptiness(t.operand, env)
            return None if r is None else (not r)
        if isinstance(t, ast.Name) and env.get(t.id) == SEQ:
            return False
        if isinstance(t, ast.Compare) and len(t.ops) == 1 and isinstance(t.left, ast.Call) and call_name(t.left) == 'len' and \
                len(t.left.args) == 1 and self.ev(t.left.args[0], env) == SEQ and isinstance(t.comparators[0], ast.Constant):
            c, op = t.comparators[0].value, t.ops[0]
            if (isinstance(op, ast.Eq) and c == 0) or (isinstance(op, ast.Lt) and c == 1) or (isinstance(op, ast.LtE) and c == 0):
                return True
            if (isinstance(op, (ast.NotEq, ast.Gt)) and c == 0) or (isinstance(op, ast.GtE) and c == 1):
                return False
        return None

    def run(self, params):
        env = {}
        for p in params:
            env[p] = ('param', p)
        self.block(list(self.fn.body), env, {})
        return self.returns


class TableEval(TermEval):
    """the series holder: `self.<helper>()` is the column sequence, self[name] a stored series, self.values() all of them"""

    def __init__(self, fnode, helper_name, fmt_params):
        TermEval.__init__(self, fnode)
        self.helper, self.fmt_params = helper_name, fmt_params

    def source_call(self, e, nm, env):
        if nm == self.helper and isinstance(e.func, ast.Attribute) and unparse(e.func.value) == 'self' and not e.args:
            return SEQ
        if nm == 'values' and isinstance(e.func, ast.Attribute) and unparse(e.func.value) == 'self' and not e.args:
            return VALUES
        return None

    def source_subscript(self, e, env):
        if unparse(e.value) == 'self' and not isinstance(e.slice, ast.Slice):
            return ('series', self.ev(e.slice, env))
        return None


def expand_empty_joins(t):
    """''.join(L) is the concatenation of the elements of L: literal elements in place, a map as a repetition"""
    parts = list(t[1]) if t[0] == 'cat' else [t]
    out = []
    for p in parts:
        if p[0] == 'join' and p[1] == ('str', '') and p[2][0] in ('lit', 'map', 'concat'):
            segs = p[2][1] if p[2][0] == 'concat' else (p[2],)
            ok = True
            new = []
            for sg in segs:
                if sg[0] == 'lit':
                    for e in sg[1]:
                        ee = expand_empty_joins(e)
                        new.extend(ee[1] if ee[0] == 'cat' else [ee])
                elif sg[0] == 'map':
                    body = expand_empty_joins(sg[2])
                    new.append(('rep', sg[1], body[1] if body[0] == 'cat' else (body,), sg[3]))
                else:
                    ok = False
            if ok:
                out.extend(new)
                continue
        out.append(p)
    return cat(out)


def line_groups(t):
    """cut a text term into line groups, or None when it does not consist of whole lines"""
    t = expand_empty_joins(t)
    parts = list(t[1]) if t[0] == 'cat' else [t]
    groups, cur = [], []
    i = 0
    while i < len(parts):
        p = parts[i]
        if p[0] == 'str':
            segs = p[1].split('\n')
            for j, sg in enumerate(segs):
                if sg:
                    cur.append(('str', sg))
                if j < len(segs) - 1:
                    groups.append(('line', cat(cur)))
                    cur = []
        elif p[0] == 'rep':
            if cur:
                return None
            inner = line_groups(cat(list(p[2])))
            if inner is None or len(inner) != 1 or inner[0][0] != 'line':
                return None
            groups.append(('lines', p[1], inner[0][1], p[3]))
        elif p[0] == 'join' and p[1] == ('str', '\n'):
            # '\n'.join(L) followed by '\n' : one line per element (L is non-empty when it starts with a literal element)
            nxt = parts[i + 1] if i + 1 < len(parts) else None
            if cur or nxt is None or nxt[0] != 'str' or not nxt[1].startswith('\n'):
                return None
            lst = p[2]
            segs = lst[1] if lst[0] == 'concat' else (lst,)
            if not (segs and segs[0][0] == 'lit' and segs[0][1]):
                return None
            for sg in segs:
                if sg[0] == 'lit':
                    groups.extend(('line', e) for e in sg[1])
                elif sg[0] == 'map':
                    groups.append(('lines', sg[1], sg[2], sg[3]))
                else:
                    return None
            parts[i + 1] = ('str', nxt[1][1:])
        else:
            cur.append(p)
        i += 1
    if cur:
        return None
    return groups


def expected_groups(fmt):
    v, i, w, x = fresh(), fresh(), fresh(), fresh()
    header = ('line', ('join', ('str', '\t'), SEQ))
    rows = ('lines', i, ('join', ('str', '\t'), ('map', w, ('fmt', ('param', fmt), ('cell', w, i)), SEQ)),
            ('range', ('int', 0), ('min', ('map', x, ('len', x), VALUES))))
    return [header, rows]
