"""Metamorphic audit of the analyser: meaning-preserving rewrites of the analysed tree must leave every verdict
unchanged.  The rewritten tree is written to a temporary directory outside /repo and /verif and removed at once.

T1 reformat : ast.unparse round trip of every module (comments, layout, quoting and all line numbers change)
T2 rename   : every function-local variable (not a parameter, not global) gets a new name
T3 reorder  : T1 + T2 + blank padding at the top of every module (line numbers shift by a different amount per file)"""
import ast
import os
import shutil
import tempfile


class LocalRenamer(ast.NodeTransformer):
    """rename function-local names  x -> x_rn  (only plain local variables of the innermost function)"""

    def __init__(self):
        self.stack = []

    def visit_FunctionDef(self, node):
        params = {a.arg for a in node.args.posonlyargs + node.args.args + node.args.kwonlyargs}
        if node.args.vararg:
            params.add(node.args.vararg.arg)
        if node.args.kwarg:
            params.add(node.args.kwarg.arg)
        assigned, banned = set(), set(params)
        for n in ast.walk(node):
            if n is node:
                continue
            if isinstance(n, (ast.Global, ast.Nonlocal)):
                banned.update(n.names)
            if isinstance(n, (ast.FunctionDef, ast.Lambda, ast.ClassDef)):
                # names used inside nested scopes are left alone (closure capture)
                for m in ast.walk(n):
                    if isinstance(m, ast.Name):
                        banned.add(m.id)
            if isinstance(n, (ast.ListComp, ast.SetComp, ast.DictComp, ast.GeneratorExp)):
                for m in ast.walk(n):
                    if isinstance(m, ast.Name):
                        banned.add(m.id)
            if isinstance(n, ast.Name) and isinstance(n.ctx, ast.Store):
                assigned.add(n.id)
            if isinstance(n, ast.ExceptHandler) and n.name:
                banned.add(n.name)
            if isinstance(n, (ast.Import, ast.ImportFrom)):
                for al in n.names:
                    banned.add((al.asname or al.name).split('.')[0])
        # eval()/exec() with implicit locals would see renamed names: leave such functions alone
        for n in ast.walk(node):
            if isinstance(n, ast.Call) and isinstance(n.func, ast.Name) and n.func.id in ('eval', 'exec', 'locals', 'vars') and len(n.args) < 3:
                return node
        ren = {x: x + '_rn' for x in assigned - banned if not x.startswith('__')}
        self.stack.append(ren)
        node.body = [self.visit(s) for s in node.body]
        self.stack.pop()
        return node

    def visit_Name(self, node):
        if self.stack and node.id in self.stack[-1]:
            return ast.copy_location(ast.Name(id=self.stack[-1][node.id], ctx=node.ctx), node)
        return node

    def visit_Lambda(self, node):
        return node

    def visit_ClassDef(self, node):
        self.stack.append({})
        node.body = [self.visit(s) for s in node.body]
        self.stack.pop()
        return node


def transform_tree(root, kind):
    """copy root/sfc_models to a temp dir applying the transformation; returns the temp root"""
    tmp = tempfile.mkdtemp(prefix='sfcv_audit_')
    src = os.path.join(root, 'sfc_models')
    dst = os.path.join(tmp, 'sfc_models')
    n = 0
    for dirpath, dirnames, filenames in os.walk(src):
        dirnames[:] = [d for d in dirnames if d != '__pycache__']
        rel = os.path.relpath(dirpath, src)
        os.makedirs(os.path.join(dst, rel), exist_ok=True)
        for fn in filenames:
            if not fn.endswith('.py'):
                continue
            sp = os.path.join(dirpath, fn)
            dp = os.path.join(dst, rel, fn)
            try:
                with open(sp, 'rb') as f:
                    text = f.read().decode('utf-8', 'replace')
                import warnings
                with warnings.catch_warnings():
                    warnings.simplefilter('ignore')
                    tree = ast.parse(text)
                if kind in ('rename', 'all'):
                    tree = LocalRenamer().visit(tree)
                    ast.fix_missing_locations(tree)
                out = ast.unparse(tree)
                if kind == 'all':
                    n += 1
                    out = '\n' * (3 + (n * 7) % 11) + out
                with open(dp, 'w') as f:
                    f.write(out + '\n')
            except SyntaxError:
                shutil.copy(sp, dp)
    return tmp


def verdict_signature(check):
    """what must be invariant: per rule, how many obligations hold / fail"""
    sig = {}
    for o in check.obligations:
        r = sig.setdefault(o.rule, [0, 0])
        r[0 if o.ok else 1] += 1
    return {k: tuple(v) for k, v in sig.items()}


# ---- corpus audit (thorough tier, evidence only) -----------------------------------------------------------------
# The stored behaviour-preserving refactorings (refactors/*) and breaking changes of this property (seeded/*) are applied
# to scratch copies of the *current* tree (outside /repo and /verif, removed at once) and the rules are re-run on them.
# A refactoring must leave the verdict signature of the property unchanged; a breaking change must add a refutation.
# The outcome is recorded in the evidence file; it never changes the exit status, because on a tree that differs from
# the one the corpus was made for a patch may not apply or may interact with the difference.

def _run_variant(args):
    pid, root, patch, tier = args
    import importlib
    import subprocess
    from . import report
    from .loader import Program, AnalysisError
    tmp = tempfile.mkdtemp(prefix='sfcv_corpus_')
    try:
        shutil.copytree(os.path.join(root, 'sfc_models'), os.path.join(tmp, 'sfc_models'),
                        ignore=shutil.ignore_patterns('__pycache__'))
        subprocess.run(['git', 'init', '-q'], cwd=tmp, capture_output=True)
        r = subprocess.run(['git', 'apply', patch], cwd=tmp, capture_output=True, text=True)
        if r.returncode:
            return (patch, 'not-applicable', None)
        mod = importlib.import_module('sfcv.rules.' + pid)
        c = report.Check(pid, 'quick', tmp)
        try:
            mod.run(Program(tmp), c)
        except AnalysisError as e:
            if report.has_new_refutations(c):
                return (patch, 'refuted', verdict_signature(c))
            return (patch, 'lost-anchor: %s' % str(e)[:80], None)
        except Exception as e:      # the analyser itself failed on the variant
            return (patch, 'internal-error: %s' % str(e)[:80], None)
        return (patch, 'refuted' if report.has_new_refutations(c) else 'clean', verdict_signature(c))
    finally:
        shutil.rmtree(tmp, ignore_errors=True)


def corpus_audit(pid, root, check, verif_dir):
    import glob
    import json
    from concurrent.futures import ProcessPoolExecutor
    jobs = []
    # a refactoring that touches none of the files this check analysed cannot change its verdict: only the others are re-applied
    seen_files = {f.replace(os.sep, '/') for f in check.analysed.get('files', ())}
    skipped = 0
    for sd in sorted(glob.glob(os.path.join(verif_dir, 'refactors', '*'))):
        pth = os.path.join(sd, 'patch.diff')
        if os.path.exists(pth):
            try:
                touched = {l.split(' b/', 1)[1].strip() for l in open(pth, encoding='utf-8', errors='replace') if l.startswith('diff --git ') and ' b/' in l}
            except (IOError, IndexError):
                touched = set()
            if seen_files and touched and not (touched & seen_files):
                skipped += 1
                continue
            jobs.append(('refactor', os.path.basename(sd), pth))
    if skipped:
        check.audit.append('corpus: %d stored refactorings touch none of the %d files this check analysed and were not re-applied' % (skipped, len(seen_files)))
    for sd in sorted(glob.glob(os.path.join(verif_dir, 'seeded', '*'))):
        try:
            meta = json.load(open(os.path.join(sd, 'meta.json')))
        except (IOError, ValueError):
            continue
        if meta.get('property') == pid and os.path.exists(os.path.join(sd, 'patch.diff')):
            jobs.append(('breaking', os.path.basename(sd), os.path.join(sd, 'patch.diff')))
    if not jobs:
        return
    workers = max(1, min(14, (os.cpu_count() or 2) - 2))
    with ProcessPoolExecutor(workers) as ex:
        results = list(ex.map(_run_variant, [(pid, root, p, 'quick') for _, _, p in jobs]))
    tally = {'refactor': {}, 'breaking': {}}
    odd = []
    for (kind, name, _), (_, outcome, sig) in zip(jobs, results):
        key = outcome.split(':')[0]
        tally[kind][key] = tally[kind].get(key, 0) + 1
        if (kind == 'refactor' and key not in ('clean', 'not-applicable')) or (kind == 'breaking' and key not in ('refuted', 'not-applicable')):
            odd.append('%s %s -> %s' % (kind, name, outcome))
    check.audit.append('corpus: %d behaviour-preserving refactorings re-applied to the current tree: %s' % (
        sum(tally['refactor'].values()), dict(sorted(tally['refactor'].items()))))
    check.audit.append('corpus: %d stored breaking changes of this property re-applied to the current tree: %s' % (
        sum(tally['breaking'].values()), dict(sorted(tally['breaking'].items()))))
    for o in odd[:10]:
        check.audit.append('corpus: unexpected: ' + o)
