import warnings; warnings.simplefilter('ignore')
from sfc_models.objects import *
mod = Model(); c = Country(mod,'CA'); gov = ConsolidatedGovernment(c,'GOVT'); hh = Household(c,'HH')
bus = FixedMarginBusiness(c,'BUS'); tf = TaxFlow(c,'TF',taxrate=.2, taxes_paid_to='GOVT'); Market(c,'LAB'); Market(c,'GOOD')
dep = DepositMarket(c)   # issuer default 'GOV' does not exist
hh.AddVariable('DEM_DEP','d','0.5*F'); dep.SetExogenous('r','[0.05,]*20')
gov.SetExogenous('DEM_GOOD','[20.,]*20'); mod.EquationSolver.MaxTime=4
try:
    mod.main()
    print([sum(x) for x in zip(*[mod.GetTimeSeries(s+'__F') for s in ('GOVT','HH','BUS')])])
except Exception as e: print('ERR', type(e), str(e)[:200])
