"""Role-based discovery of the solver's anchors (sweep function, sweep loop, per-variable loop, commit sites ...).

Anchors are found by what the code does, not by name: the sweep function is the function containing a `while`
whose body `eval`s the second component of the items of `<...>.Endogenous`."""
import ast

from . import cfg as cfgmod
from .loader import AnalysisError, attr_chain, call_name, unparse
from .dataflow import target_names
from .inline import flatten

PARTITIONS = ('Endogenous', 'Lagged', 'Exogenous', 'Decoration')


def iter_partition(for_stmt):
    """'Endogenous' when the loop iterates `<x>.Endogenous` (possibly via .items()/list()/sorted()/slice) else None"""
    it = for_stmt.iter
    while True:
        if isinstance(it, ast.Call) and call_name(it) in ('list', 'sorted', 'tuple', 'enumerate', 'reversed') and it.args:
            it = it.args[0]
            continue
        if isinstance(it, ast.Subscript) and isinstance(it.slice, ast.Slice):
            it = it.value
            continue
        break
    ch = attr_chain(it) if isinstance(it, ast.Attribute) else None
    if ch and ch[-1] in PARTITIONS:
        return ch[-1]
    return None


def is_series_append(call, attr='TimeSeries'):
    """self.TimeSeries[x].append(v) / self.TimeSeries.AppendValue(x, v) on the attribute named exactly `attr`"""
    if not isinstance(call, ast.Call) or not isinstance(call.func, ast.Attribute):
        return False
    f = call.func
    if f.attr == 'append' and isinstance(f.value, ast.Subscript):
        base = f.value.value
        return isinstance(base, ast.Attribute) and base.attr == attr
    if f.attr == 'AppendValue':
        base = f.value
        return isinstance(base, ast.Attribute) and base.attr == attr
    return False


def series_mutation(node_ast, attr='TimeSeries'):
    """any mutation of the stored series: append/AppendValue/pop/... or subscript store below self.<attr>"""
    out = []
    for n in ast.walk(node_ast):
        if isinstance(n, ast.Call) and is_series_append(n, attr):
            out.append(n)
        elif isinstance(n, ast.Call) and isinstance(n.func, ast.Attribute) and n.func.attr in (
                'pop', 'remove', 'extend', 'insert', 'clear', 'sort', 'reverse'):
            b = n.func.value
            while isinstance(b, ast.Subscript):
                b = b.value
            if isinstance(b, ast.Attribute) and b.attr == attr:
                out.append(n)
        elif isinstance(n, (ast.Assign, ast.AugAssign)):
            ts = n.targets if isinstance(n, ast.Assign) else [n.target]
            for t in ts:
                b = t
                depth = 0
                while isinstance(b, ast.Subscript):
                    b = b.value
                    depth += 1
                if depth and isinstance(b, ast.Attribute) and b.attr == attr:
                    out.append(n)
    return out


def eval_calls(node_ast):
    return [n for n in ast.walk(node_ast) if isinstance(n, ast.Call) and isinstance(n.func, ast.Name)
            and n.func.id == 'eval']


class Sweep(object):
    def __init__(self, prog):
        def find(funcs):
            out = []
            for f in funcs:
                if '/deprecated/' in f.module.rel or not series_mutation(f.node):
                    continue
                for w in ast.walk(f.node):
                    # the convergence loop compares an error measure with a tolerance (a `while changed:` fixpoint is not it)
                    if isinstance(w, ast.While) and any(isinstance(x, ast.Compare) and isinstance(x.ops[0], (ast.Gt, ast.GtE, ast.Lt, ast.LtE))
                                                        for x in ast.walk(w.test)):
                        for fr in ast.walk(w):
                            if isinstance(fr, ast.For) and iter_partition(fr) == 'Endogenous' and eval_calls(fr):
                                out.append((f, w, fr))
            return out
        # the in-process solver (core, non-deprecated); private helpers of the function are looked through
        cands = find(prog.all_functions())
        if len(cands) == 1:
            cands = find([flatten(prog, cands[0][0])])
        else:
            flat = [flatten(prog, f) for f in prog.all_functions()]
            cands = find(flat)
            keys = {c[0].key for c in cands}
            cands = [c for c in cands if not (set(getattr(c[0], 'inlined', ())) & (keys - {c[0].key}))]
        if len(cands) != 1:
            raise AnalysisError('expected exactly one sweep function (while-loop eval over .Endogenous), found %d: %s'
                                % (len(cands), [c[0].qualname for c in cands]))
        self.f, self.loop, self.endo_for = cands[0]
        self.cfg = cfgmod.build(self.f)
        g = self.cfg
        self.loop_test = [n for n in g.nodes if n.kind == 'test' and n.stmt is self.loop][0]
        inside = set(id(x) for x in ast.walk(self.loop))
        self.in_loop = lambda n: n.stmt is not None and id(n.stmt) in inside and n is not None
        self.loop_nodes = [n for n in g.nodes if n.stmt is not None and id(n.stmt) in inside]
        assigned_in_loop = set()
        for x in ast.walk(self.loop):
            if isinstance(x, ast.Assign):
                for t in x.targets:
                    assigned_in_loop.update(target_names(t))
            elif isinstance(x, ast.AugAssign):
                assigned_in_loop.update(target_names(x.target))
        test_names = {x.id for x in ast.walk(self.loop.test) if isinstance(x, ast.Name)}
        self.measures = sorted(test_names & assigned_in_loop)
        if len(self.measures) != 1:
            raise AnalysisError('cannot identify the convergence measure of the sweep loop: %s' % self.measures)
        self.measure = self.measures[0]
        self.tolerances = sorted(test_names - assigned_in_loop)
        # post-loop nodes: reachable from the loop's normal exit / breaks, outside the loop
        self.post_nodes = [n for n in g.nodes if n.stmt is not None and id(n.stmt) not in inside
                           and n.id in g.reach([self.loop_test.id]) and n.kind not in ('exit', 'raise_exit')]
        self.commit_nodes = [n for n in g.stmt_nodes() if n.kind == 'stmt' and series_mutation(n.ast)]
        if not self.commit_nodes:
            raise AnalysisError('no commit site (TimeSeries append) found in ' + self.f.qualname)
        # the sweep eval and the environments
        ev = eval_calls(self.endo_for)
        self.sweep_eval = ev[0]
        self.sweep_env = self.sweep_eval.args[2] if len(self.sweep_eval.args) > 2 else None
        # error flag: a name assigned True inside an except handler of the sweep loop
        flags = set()
        for x in ast.walk(self.loop):
            if isinstance(x, ast.ExceptHandler):
                for y in ast.walk(x):
                    if isinstance(y, ast.Assign) and isinstance(y.value, ast.Constant) and y.value.value is True:
                        flags.update(target_names(y.targets[0]))
        self.flags = sorted(flags)

    def eval_stores(self):
        """[(assignment, subscript target)] - the stores that receive the value of the sweep evaluation, followed
        through local names and tuple packing / unpacking (flow-insensitive, position-wise)"""
        carriers = {}
        stores = []
        assigns = [a for a in ast.walk(self.endo_for) if isinstance(a, ast.Assign)]

        def holds(e):
            if e is self.sweep_eval:
                return {None}
            if isinstance(e, ast.IfExp):
                return holds(e.body) | holds(e.orelse)
            if isinstance(e, ast.Name):
                return set(carriers.get(e.id, ()))
            if isinstance(e, (ast.Tuple, ast.List)):
                out = set()
                for i, x in enumerate(e.elts):
                    if None in holds(x):
                        out.add(i)
                return out
            if isinstance(e, ast.Call) and call_name(e) == 'float' and len(e.args) == 1:
                return holds(e.args[0])
            return set()

        def give(target, a):
            if isinstance(target, ast.Subscript):
                if (a, target) not in [(x, y) for x, y in stores]:
                    stores.append((a, target))
                return False
            if isinstance(target, ast.Name):
                before = len(carriers.setdefault(target.id, set()))
                carriers[target.id].add(None)
                return len(carriers[target.id]) != before
            return False
        changed = True
        while changed:
            changed = False
            for a in assigns:
                pos = holds(a.value)
                for t in a.targets:
                    for p in pos:
                        if p is None:
                            changed |= give(t, a)
                        elif isinstance(t, (ast.Tuple, ast.List)) and p < len(t.elts):
                            changed |= give(t.elts[p], a)
                        elif isinstance(t, ast.Name):
                            c = carriers.setdefault(t.id, set())
                            if p not in c:
                                c.add(p)
                                changed = True
        return stores

    def node_in_loop(self, n):
        return n in self.loop_nodes

    def where(self, n):
        return '%s:%d' % (self.f.module.rel, n.line if hasattr(n, 'line') else getattr(n, 'lineno', 0))


def _outermost(cands):
    """drop candidates that are private helpers inlined into (or simply called by) another candidate: they are judged
    at their callers"""
    keys = {c.key for c in cands}
    out = []
    for c in cands:
        if any(c.key in getattr(o, 'inlined', ()) for o in cands if o.key != c.key):
            continue
        if c.name.startswith('_') and not c.name.startswith('__') and any(
                o.key != c.key and any(isinstance(x, ast.Call) and call_name(x) == c.name for x in ast.walk(getattr(o, 'origin', o).node))
                for o in cands):
            continue
        if c.key not in [x.key for x in out]:
            out.append(c)
    return out


def solver_function(prog, role):
    """other solver anchors by role; the role is recognised on functions with their private helpers inlined"""
    funcs = [f for f in prog.all_functions() if '/deprecated/' not in f.module.rel]
    if role == 'initial_conditions':
        # the function that evals entries of .InitialConditions and of .Exogenous
        def pred(f):
            src_ic = any(isinstance(n, ast.Attribute) and n.attr == 'InitialConditions' for n in ast.walk(f.node))
            return src_ic and bool(eval_calls(f.node))
        out = [f for f in funcs if pred(f)]
        if len(out) != 1:
            out = _outermost([fl for fl in (flatten(prog, f) for f in funcs) if pred(fl)])
        if len(out) != 1:
            raise AnalysisError('expected one initial-conditions function, found %s' % [f.qualname for f in out])
        return out[0]
    def steady_pred(f):
        has_copy = any(isinstance(n, ast.Call) and call_name(n) in ('deepcopy', '_GetCopy', 'copy')
                       for n in ast.walk(f.node))
        last_two = 0
        for n in ast.walk(f.node):
            if isinstance(n, ast.Subscript) and isinstance(n.slice, ast.UnaryOp) and isinstance(n.slice.op, ast.USub) \
                    and isinstance(n.slice.operand, ast.Constant) and n.slice.operand.value in (1, 2):
                last_two += 1
        return has_copy and last_two >= 2

    if role == 'solve_all':
        # the function looping range(1, <..>.MaxTime + 1) and calling the step function; the steady-state search (which runs a copy of
        # the solver over the copy's horizon) is not it
        def pred(f):
            return not steady_pred(f) and loops(f)

        def loops(f):
            if '/gl_book/' in f.module.rel:
                return False
            for n in ast.walk(f.node):
                if isinstance(n, ast.For) and isinstance(n.iter, ast.Call) and call_name(n.iter) == 'range' and \
                        any(isinstance(x, ast.Attribute) and x.attr == 'MaxTime' for x in ast.walk(n.iter)):
                    return True
            return False
        out = [f for f in funcs if pred(f)]
        if len(out) != 1:
            # a private helper holding the loop belongs to the function it is inlined into - also when that function is the search
            out = [fl for fl in _outermost([fl for fl in (flatten(prog, f) for f in funcs) if pred(fl) or (loops(fl) and steady_pred(fl))])
                   if not steady_pred(fl)]
        if len(out) != 1:
            raise AnalysisError('expected one solve-all function (range over MaxTime), found %s' % [f.qualname for f in out])
        return out[0]
    if role == 'steady_state':
        pred = steady_pred
        out = [f for f in funcs if pred(f)]
        if len(out) != 1:
            out = _outermost([fl for fl in (flatten(prog, f) for f in funcs) if pred(fl)])
        if len(out) != 1:
            raise AnalysisError('expected one steady-state search function, found %s' % [f.qualname for f in out])
        return out[0]
    raise AnalysisError('unknown role ' + role)


def decoration_env_stores(sw):
    """stores into the evaluation environment keyed by a loop whose collection derives from .Decoration:
    returns [(node, ok, why)] - ok iff the stored value is the value just evaluated from the variable's own equation"""
    from .dataflow import target_names
    f = sw.f.node
    envs = set()
    for ev in eval_calls(f):
        if len(ev.args) > 2 and isinstance(ev.args[2], ast.Name):
            envs.add(ev.args[2].id)
    # names bound to the same mapping by plain copies `a = b`
    changed = True
    while changed:
        changed = False
        for n in ast.walk(f):
            if isinstance(n, ast.Assign) and isinstance(n.value, ast.Name) and len(n.targets) == 1 and isinstance(n.targets[0], ast.Name):
                a_, b_ = n.targets[0].id, n.value.id
                if (a_ in envs) != (b_ in envs) and a_ != b_:
                    # only environments built in this function (a dict display / dict() call assigned to the other name)
                    envs.update((a_, b_))
                    changed = True
    out = []
    # a loop over every stored series pre-loads the decorative variables with their value of the previous period
    for loop in [n for n in ast.walk(f) if isinstance(n, ast.For)]:
        srcs = {x.attr for x in ast.walk(loop.iter) if isinstance(x, ast.Attribute)}
        if ('TimeSeries' in srcs or 'VariableList' in srcs) and not (srcs & set(PARTITIONS)):
            for a in ast.walk(loop):
                if isinstance(a, ast.Assign):
                    for t in a.targets:
                        if isinstance(t, ast.Subscript) and isinstance(t.value, ast.Name) and t.value.id in envs:
                            out.append((a, False, 'every stored series (decorative ones included) is pre-loaded into the '
                                                  'evaluation environment as %s' % unparse(a.value)))

    def deco_names():
        names = set()
        changed = True
        while changed:
            changed = False
            for n in ast.walk(f):
                if isinstance(n, ast.For):
                    src = {x.attr for x in ast.walk(n.iter) if isinstance(x, ast.Attribute)} | {x.id for x in ast.walk(n.iter) if isinstance(x, ast.Name)}
                    if 'Decoration' in src or src & names:
                        for c in ast.walk(n):
                            if isinstance(c, ast.Call) and call_name(c) in ('append', 'extend') and isinstance(c.func.value, ast.Name) \
                                    and c.func.value.id not in names:
                                names.add(c.func.value.id)
                                changed = True
                if isinstance(n, ast.Assign) and isinstance(n.targets[0], ast.Name) and n.targets[0].id not in names:
                    src = {x.attr for x in ast.walk(n.value) if isinstance(x, ast.Attribute)} | {x.id for x in ast.walk(n.value) if isinstance(x, ast.Name)}
                    if 'Decoration' in src or src & names:
                        names.add(n.targets[0].id)
                        changed = True
        return names
    dn = deco_names()
    for loop in [n for n in ast.walk(f) if isinstance(n, ast.For)]:
        src = {x.attr for x in ast.walk(loop.iter) if isinstance(x, ast.Attribute)} | {x.id for x in ast.walk(loop.iter) if isinstance(x, ast.Name)}
        if not ('Decoration' in src or src & dn):
            continue
        tv = target_names(loop.target)
        evald = {t.id for a in ast.walk(loop) if isinstance(a, ast.Assign) and isinstance(a.value, ast.Call) and
                 isinstance(a.value.func, ast.Name) and a.value.func.id == 'eval' for t in a.targets if isinstance(t, ast.Name)}
        for a in ast.walk(loop):
            if isinstance(a, ast.Assign):
                for t in a.targets:
                    if isinstance(t, ast.Subscript) and isinstance(t.value, ast.Name) and t.value.id in envs:
                        ok = isinstance(a.value, ast.Name) and a.value.id in evald or \
                            (isinstance(a.value, ast.Call) and isinstance(a.value.func, ast.Name) and a.value.func.id == 'eval')
                        out.append((a, ok, 'environment entry of a decorative variable is %s' % unparse(a.value)))
    return out


def stepped_over_errors(sw):
    """[(handler node, ok, witness)]: from every handler of a try around an evaluation in the sweep loop, walk the feasible
    paths (truthiness constants propagated) up to the start of the next sweep; ok iff no commit is reached"""
    from .dataflow import truth_search, trace
    g = sw.cfg
    handlers = []
    for n in sw.loop_nodes:
        if n.kind == 'except' and isinstance(n.stmt, ast.Try) and any(eval_calls(b) for b in n.stmt.body):
            handlers.append(n)
    commit_ids = {c.id for c in sw.commit_nodes}

    def new_sweep(a, b, lab):
        return a == sw.loop_test.id and lab is True
    out = []
    for h in handlers:
        hits, seen = truth_search(g, [h], commit_ids, stop_edge=new_sweep)
        wit = ''
        if hits:
            k = sorted(hits)[0]
            wit = ' via lines ' + ','.join(str(x) for x in trace(seen, hits[k], g))
        out.append((h, not hits, wit))
    return out


def variable_list_builder(prog, solver_cls):
    """the method that derives the solver's variable list from the parser's partitions:
    -> (raw FuncInfo, flattened FuncInfo, name D of the derived attribute, set of partitions it reads).
    Recognised on the flattened method (loops over literal partition names are unrolled, getattr resolved)."""
    cands = []
    for f in solver_cls.methods.values():
        if f.name == '__init__':
            continue
        fl = flatten(prog, f)
        parts = {x.attr for x in ast.walk(fl.node) if isinstance(x, ast.Attribute) and x.attr in PARTITIONS}
        if len(parts) < 3:
            continue
        if any(isinstance(x, ast.Call) and call_name(x) in ('eval', 'deepcopy', '_GetCopy', 'SolveStep', 'compile')
               for x in ast.walk(fl.node)):
            continue
        attrs = []
        for n in ast.walk(fl.node):
            if isinstance(n, ast.Assign):
                for t in n.targets:
                    if isinstance(t, ast.Attribute) and isinstance(t.value, ast.Name) and t.value.id == 'self':
                        attrs.append(t.attr)
        if attrs:
            cands.append((f, fl, attrs[0], parts))
    cands = [c for c in cands if not any(c[0].key in getattr(o[1], 'inlined', ()) for o in cands if o is not c)] or cands
    if len(cands) != 1:
        raise AnalysisError('cannot identify the variable-list builder: %s' % [c[0].qualname for c in cands])
    return cands[0]
