from .cli import main
import sys
sys.exit(main())
