#!/bin/sh
# run every registered check (tier $1, default quick) and print one status line each
cd /verif
tier=${1:-quick}
for f in sfcv/rules/C*.py; do
  p=$(basename $f .py)
  out=$(/venv/bin/python -m sfcv check $p --tier $tier 2>&1); rc=$?
  echo "[$p rc=$rc] $(echo "$out" | grep -E '^(OK|VIOLATION|ANALYSIS-ERROR|KNOWN-FINDING)' | head -3 | tr '\n' ' ')"
done
