"""Fill meta.json 'needs_to_manifest' of every stored seed from the author's notes.md (development helper)."""
import glob, json, re
for sd in sorted(glob.glob('/verif/seeded/*')):
    meta = json.load(open(sd + '/meta.json'))
    try:
        notes = open(sd + '/notes.md').read()
    except IOError:
        continue
    text = ''
    lines = notes.splitlines()
    for i, l in enumerate(lines):
        if re.search(r'(need|manifest|trigger)', l, re.I) and (l.lstrip().startswith(('#', '*', '-')) or l.strip().endswith(':') or
                                                                re.match(r'^\**\s*(What is needed|Needed|Needs|Manifests|Trigger)', l.strip(), re.I)):
            chunk = [re.sub(r'^[#*\-\s]+', '', l).strip()]
            for m in lines[i + 1:i + 9]:
                if m.startswith('#') or (m.strip().startswith('**') and chunk and len(' '.join(chunk)) > 80):
                    break
                chunk.append(m.strip())
            text = ' '.join(x for x in chunk if x)
            break
    text = re.sub(r'\s+', ' ', text).strip()
    if text:
        meta['needs_to_manifest'] = text[:700]
        json.dump(meta, open(sd + '/meta.json', 'w'), indent=1)
    else:
        print('no needs text found for', sd)
