"""C15 - an accepted initial steady state really is steady (decided structural clauses).

R1 sign-safe relative error : in every quotient whose numerator is an absolute difference, the denominator is provably
                              non-negative (abs, max of abs, positive constant, squares, sums of those).
R2 isolation                : the search works on a deep copy of the solver; writes through `self` are limited to
                              TimeSeries[*][0] and the diagnostic holder; parser, caps and horizon only on the copy.
R3 loud failure             : non-empty bad list => raise; convergence error => value error; a variable flagged bad is
                              never installed as the k=0 value.
R4 the right two points     : the acceptance test compares the last two points of the *copy's* series of that variable.
R5 what is installed        : every series is tested, only tested series are installed, with the last point of their own series.
R6 frozen inputs            : the constant exogenous paths of the search are the k=0 values."""
import ast

from ..inline import flatten

from .. import cfg as cfgmod
from ..loader import AnalysisError, unparse, call_name, attr_chain
from ..dataflow import single_assign_subst, target_names, mutations_in, linform, lin_eq, resolve_expr
from ..solver_model import solver_function, Sweep
from ..cfg import raised_name, exc_is_a, handler_types, atomic_facts

TECHNIQUE = ('static analysis on the flattened search: sign-domain evaluation of denominators, write-set computation through `self` vs the (deep or hand-built) copy, product search per pass of the acceptance loop (recorded / installed / last tolerance outcome) and from entry to the normal return, set agreement of tested and installed variables; NaN walk shared with C02.R1; index of the frozen exogenous item')
EXPLANATION = (
    'Every tolerance quotient with an absolute-difference numerator must have a provably non-negative denominator (so a '
    'negative-valued series cannot pass the relative test by sign); the search may write through self only to '
    'TimeSeries[var][0] and the diagnostic holder, everything else goes to a deep copy; a flagged variable is never '
    'installed; a non-empty bad list raises. The one-more-period re-solve bound itself is numerical and not decided.')


def nonneg(e, subst, depth=0):
    """provably >= 0"""
    if depth > 6:
        return False
    if isinstance(e, ast.Constant):
        return isinstance(e.value, (int, float)) and not isinstance(e.value, bool) and e.value >= 0
    if isinstance(e, ast.Name):
        return e.id in subst and nonneg(subst[e.id], subst, depth + 1)
    if isinstance(e, ast.Call):
        nm = call_name(e)
        if nm in ('abs', 'fabs', 'len') and len(e.args) == 1:
            return True
        if nm == 'max' and e.args:
            return any(nonneg(a, subst, depth + 1) for a in e.args)
        if nm == 'min' and e.args:
            return all(nonneg(a, subst, depth + 1) for a in e.args)
        if nm in ('float', 'sqrt') and len(e.args) == 1:
            return nonneg(e.args[0], subst, depth + 1) or nm == 'sqrt'
        return False
    if isinstance(e, ast.BinOp):
        if isinstance(e.op, ast.Add):
            return nonneg(e.left, subst, depth + 1) and nonneg(e.right, subst, depth + 1)
        if isinstance(e.op, (ast.Mult, ast.Div)):
            if unparse(e.left) == unparse(e.right) and isinstance(e.op, ast.Mult):
                return True
            return nonneg(e.left, subst, depth + 1) and nonneg(e.right, subst, depth + 1)
        if isinstance(e.op, ast.Pow):
            return isinstance(e.right, ast.Constant) and isinstance(e.right.value, int) and e.right.value % 2 == 0
    if isinstance(e, ast.IfExp):
        return nonneg(e.body, subst, depth + 1) and nonneg(e.orelse, subst, depth + 1)
    return False


def has_abs(e, subst, depth=0):
    if depth > 4:
        return False
    for x in ast.walk(e):
        if isinstance(x, ast.Call) and call_name(x) in ('abs', 'fabs'):
            return True
        if isinstance(x, ast.Name) and x.id in subst:
            v = subst[x.id]
            vs = v if isinstance(v, list) else [v]
            if vs and all(has_abs(y, subst, depth + 1) for y in vs):
                return True
    return False


def all_assign_subst(func):
    """name -> list of every expression assigned to it"""
    out = {}
    for n in ast.walk(func):
        if isinstance(n, ast.Assign) and isinstance(n.targets[0], ast.Name):
            out.setdefault(n.targets[0].id, []).append(n.value)
    return out


def run(prog, check):
    check.explanation = EXPLANATION
    check.not_decided = 'the bound on the change of one further solved period (numerical)'
    check.assumptions = ['copy.deepcopy copies every data member of the solver']
    ss_raw = solver_function(prog, 'steady_state')
    sw = Sweep(prog)
    check.saw(ss_raw)
    check.saw(sw.f)
    # private helpers of the search (acceptance test, copy) are looked through
    ss = flatten(prog, ss_raw)
    # ---- R1: all quotients of the solver module ---------------------------------------------------
    m = ss.module
    nq = 0
    for f in [x for x in prog.all_functions() if x.module is m]:
        subst = single_assign_subst(f.node)
        multi = all_assign_subst(f.node)
        for n in ast.walk(f.node):
            if isinstance(n, ast.BinOp) and isinstance(n.op, ast.Div) and has_abs(n.left, multi):
                ok = nonneg(n.right, subst)
                nq += 1
                check.ob('C15.R1', '%s::quotient(%s)' % (f.key, unparse(n)), ok, '%s:%d' % (f.module.rel, n.lineno),
                         'denominator `%s` is provably non-negative' % unparse(n.right) if ok else
                         'denominator `%s` can be negative: the relative error is then negative and passes any tolerance'
                         % unparse(n.right),
                         'a drifting negative-valued series (government balance, debt), e.g. x = LAG_x - 1, x(0) = -100')
    # the relative error is compared with the tolerance in the rejecting direction
    g = cfgmod.build(ss)
    subst = single_assign_subst(ss.node)
    # ---- R4 --------------------------------------------------------------------------------------
    copies = [n for n in ast.walk(ss.node) if isinstance(n, ast.Assign) and isinstance(n.targets[0], ast.Name)
              and isinstance(n.value, ast.Call) and call_name(n.value) in ('deepcopy', '_GetCopy', 'copy')]
    if not copies and ss.cls is not None:
        # a working solver built by hand: X = <own class>(...) followed by X.<attr> = ... ; it stands for a copy only
        # if every data member the constructor creates is carried over from self
        built = [n for n in ast.walk(ss.node) if isinstance(n, ast.Assign) and isinstance(n.targets[0], ast.Name)
                 and isinstance(n.value, ast.Call) and call_name(n.value) == ss.cls.name]
        if len(built) == 1:
            xn = built[0].targets[0].id
            init = prog.resolve_method(ss.cls, '__init__')
            members = set()
            for n in ast.walk(init.node):
                if isinstance(n, ast.Assign):
                    for t in n.targets:
                        if isinstance(t, ast.Attribute) and isinstance(t.value, ast.Name) and t.value.id == 'self':
                            members.add(t.attr)
            carried = set()
            for n in ast.walk(ss.node):
                if isinstance(n, ast.Assign):
                    for t in n.targets:
                        if isinstance(t, ast.Attribute) and isinstance(t.value, ast.Name) and t.value.id == xn and any(
                                isinstance(x, ast.Attribute) and isinstance(x.value, ast.Name) and x.value.id == 'self' and x.attr == t.attr
                                for x in ast.walk(n.value)):
                            carried.add(t.attr)
                if isinstance(n, ast.For) and isinstance(n.iter, (ast.Tuple, ast.List)) and all(isinstance(e, ast.Constant) for e in n.iter.elts) \
                        and any(isinstance(c, ast.Call) and call_name(c) == 'setattr' and c.args and unparse(c.args[0]) == xn for c in ast.walk(n)) \
                        and any(isinstance(c, ast.Call) and call_name(c) == 'getattr' and c.args and unparse(c.args[0]) == 'self' for c in ast.walk(n)):
                    carried.update(e.value for e in n.iter.elts)
            missing = sorted(members - carried)
            check.ob('C15.R2', '%s::works-on-deep-copy' % ss.key, not missing, '%s:%d' % (ss.module.rel, built[0].lineno),
                     'the hand-built working solver carries every data member of self' if not missing else
                     'the working solver is rebuilt, not copied: %s are not taken from self (the search then starts from parsed values, '
                     'not from the state of this solver)' % missing,
                     'exogenous paths or k=0 values edited on the solver before the search')
            copies = built
    if len(copies) != 1:
        raise AnalysisError('cannot identify the working copy in ' + ss.qualname)
    copy_name = copies[0].targets[0].id
    cp = copies[0].value
    deep = False
    how = unparse(cp)
    if call_name(cp) == 'deepcopy' and cp.args and unparse(cp.args[0]) == 'self':
        deep = True
    elif isinstance(cp.func, ast.Attribute) and isinstance(cp.func.value, ast.Name) and cp.func.value.id == 'self' and ss.cls:
        callee = prog.resolve_method(ss.cls, cp.func.attr)
        if callee is not None:
            check.saw(callee)
            rets = [r for r in ast.walk(callee.node) if isinstance(r, ast.Return) and r.value is not None]
            deep = bool(rets) and all(isinstance(r.value, ast.Call) and call_name(r.value) == 'deepcopy' and r.value.args
                                      and unparse(r.value.args[0]) == 'self' for r in rets)
            how = '%s -> %s' % (how, [unparse(r.value) for r in rets])
    if call_name(cp) != (ss.cls.name if ss.cls else ''):
        check.ob('C15.R2', '%s::works-on-deep-copy' % ss.key, deep, '%s:%d' % (ss.module.rel, copies[0].lineno),
                 'working solver is a deep copy (%s)' % how if deep else 'working solver is not a deep copy of self (%s)' % how,
                 'any search: the parser / exogenous lists of the original solver would be overwritten')
    series_loops = [n for n in ast.walk(ss.node) if isinstance(n, ast.For) and any(
        isinstance(x, ast.Subscript) and isinstance(x.slice, ast.UnaryOp) for x in ast.walk(n)) and any(
        isinstance(x, ast.Compare) and any(isinstance(y, ast.Attribute) and 'Toler' in y.attr
                                           for y in ast.walk(resolve_expr(x, subst))) for x in ast.walk(n))]
    if not series_loops:
        raise AnalysisError('acceptance loop not found in ' + ss.qualname)
    loop = series_loops[0]
    lv = target_names(loop.target)[0]
    lastprev = {}
    for n in ast.walk(loop):
        if isinstance(n, ast.Assign) and isinstance(n.targets[0], ast.Name) and isinstance(n.value, ast.Subscript) and \
                isinstance(n.value.slice, ast.UnaryOp) and isinstance(n.value.slice.operand, ast.Constant):
            lastprev[n.targets[0].id] = (-n.value.slice.operand.value, n.value.value)
    # points that are read without being given a name (e.g. passed straight on to an inlined helper)
    named_nodes = {id(n.value) for n in ast.walk(loop) if isinstance(n, ast.Assign) and isinstance(n.value, ast.Subscript)}
    for n in ast.walk(loop):
        if isinstance(n, ast.Subscript) and id(n) not in named_nodes and isinstance(n.slice, ast.UnaryOp) and isinstance(n.slice.op, ast.USub) \
                and isinstance(n.slice.operand, ast.Constant) and isinstance(n.slice.operand.value, int) and isinstance(n.ctx, ast.Load):
            lastprev.setdefault('<%s>' % unparse(n), (-n.slice.operand.value, n.value))
    idx = sorted({v[0] for v in lastprev.values()})
    check.ob('C15.R4', '%s::compares-last-two-points' % ss.key, idx == [-2, -1], '%s:%d' % (ss.module.rel, loop.lineno),
             'acceptance test reads indices %s of the series (required -1 and -2)' % idx, 'a series that still moves in its last period')
    for nm, (i, base) in sorted(lastprev.items()):
        src = base
        if isinstance(src, ast.Name) and src.id in subst:
            src = subst[src.id]
        ok = isinstance(src, ast.Subscript) and isinstance(src.slice, ast.Name) and src.slice.id == lv and \
            (attr_chain(src.value) or [''])[0] == copy_name and (attr_chain(src.value) or [''])[-1] == 'TimeSeries'
        check.ob('C15.R4', '%s::point(%d)-from-copy-series' % (ss.key, i), ok, '%s:%d' % (ss.module.rel, loop.lineno),
                 '`%s` = %s[%d]' % (nm, unparse(src), i), 'the copy is what was solved forward; the original still holds k=0 only')
    # the two points enter the test through their difference and their own magnitudes only: any other combination of the two
    # (a sum, a mean, a product) makes the verdict depend on something else than how far the series still moves
    def points_in(e_):
        out_ = set()
        for x_ in ast.walk(e_):
            if isinstance(x_, ast.Name) and x_.id in lastprev:
                out_.add(lastprev[x_.id][0])
            elif isinstance(x_, ast.Subscript) and isinstance(x_.slice, ast.UnaryOp) and isinstance(x_.slice.op, ast.USub) and \
                    isinstance(x_.slice.operand, ast.Constant) and x_.slice.operand.value in (1, 2):
                out_.add(-x_.slice.operand.value)
        return out_
    mixed = []
    for x_ in ast.walk(loop):
        if isinstance(x_, ast.BinOp) and not isinstance(x_.op, ast.Sub):
            l_, r_ = points_in(x_.left), points_in(x_.right)
            if (l_ and r_) and (l_ | r_) == {-1, -2} and not (l_ == r_ == {-1, -2}):
                mixed.append(x_)
            elif l_ == {-1} and r_ == {-2} or l_ == {-2} and r_ == {-1}:
                mixed.append(x_)
    # a quotient change / magnitude is the relative test itself: numerator mentions both points (the difference), denominator one
    mixed = [m_ for m_ in mixed if not (isinstance(m_.op, ast.Div) and points_in(m_.left) == {-1, -2} and len(points_in(m_.right)) == 1)]
    check.ob('C15.R4', '%s::points-combined-by-difference-only' % ss.key, not mixed,
             '%s:%d' % (ss.module.rel, mixed[0].lineno if mixed else loop.lineno),
             'the last two points enter the acceptance test as their difference and as single magnitudes' if not mixed else
             'the acceptance test combines the last two points as `%s`: two points of opposite sign and equal size look like a series at rest' % unparse(mixed[0])[:80],
             'an undamped oscillation around zero (x = -x(k-1))')
    # the absolute test and the relative test both use last/prev
    # ---- R2: write set through self ---------------------------------------------------------------
    nw = 0
    for node in g.stmt_nodes():
        exprs = [node.ast] if node.kind == 'stmt' and not isinstance(node.ast, (ast.For, ast.While, ast.If, ast.Try, ast.With)) else []
        for ex in exprs:
            for kind, recv, mn in mutations_in(ex):
                ch = None
                base = recv
                path = []
                while isinstance(base, (ast.Subscript, ast.Attribute)):
                    path.append(base)
                    base = base.value
                if not (isinstance(base, ast.Name) and base.id == 'self'):
                    continue
                # the full target expression
                if kind in ('attr=', 'attr+='):
                    tgt = [t for t in (mn.targets if isinstance(mn, ast.Assign) else [mn.target])][0]
                elif kind in ('[]=', '[]+='):
                    tgt = [t for t in (mn.targets if isinstance(mn, ast.Assign) else [mn.target])][0]
                else:
                    tgt = recv
                txt = unparse(tgt)
                ok, why = False, 'write through self to `%s`' % txt
                if isinstance(tgt, ast.Attribute) and isinstance(tgt.value, ast.Name) and 'SteadyState' in tgt.attr:
                    ok, why = True, 'diagnostic holder'
                elif isinstance(tgt, ast.Subscript) and lin_eq(linform(tgt.slice) if not isinstance(tgt.slice, ast.Slice) else None, {'': 0}) \
                        and isinstance(tgt.value, ast.Subscript) and isinstance(tgt.value.value, ast.Attribute) and \
                        tgt.value.value.attr == 'TimeSeries' and isinstance(tgt.value.value.value, ast.Name):
                    ok, why = True, 'k=0 value of a series'
                nw += 1
                check.ob('C15.R2', '%s::self-write(%s)' % (ss.key, txt), ok, '%s:%d' % (ss.module.rel, getattr(mn, 'lineno', node.line)),
                         why, 'a search on a solver whose equations / exogenous paths / horizon must stay untouched')
        # method calls on self other than the copier and pure reads
        if node.kind in ('stmt', 'test', 'for'):
            for c in ast.walk(node.ast if node.kind != 'for' else node.ast.iter):
                if isinstance(c, ast.Call) and isinstance(c.func, ast.Attribute) and isinstance(c.func.value, ast.Name) \
                        and c.func.value.id == 'self' and ss.cls is not None:
                    callee = prog.resolve_method(ss.cls, c.func.attr)
                    if callee is None:
                        continue
                    ws = self_writes(prog, callee, 3)
                    nw += 1
                    check.ob('C15.R2', '%s::self-call(%s)' % (ss.key, c.func.attr), not ws, '%s:%d' % (ss.module.rel, c.lineno),
                             'callee does not write solver state' if not ws else 'callee writes %s on the original solver' % sorted(ws),
                             'search must leave the original solver untouched')
    # ---- R3 --------------------------------------------------------------------------------------
    # decided by state searches over the flattened function (truthiness constants honoured):
    #   within one pass through the acceptance loop body: rej / inst = the variable was recorded as not converged /
    #   installed as k=0 value;  last = outcome of the last tolerance comparison taken (exceeding or not)
    badlists = [n.targets[0].id for n in ast.walk(ss.node) if isinstance(n, ast.Assign) and isinstance(n.targets[0], ast.Name)
                and isinstance(n.value, ast.List) and not n.value.elts and
                any(isinstance(c, ast.Call) and call_name(c) == 'append' and isinstance(c.func.value, ast.Name)
                    and c.func.value.id == n.targets[0].id for c in ast.walk(loop))]
    if len(badlists) != 1:
        raise AnalysisError('cannot identify the list of non-converged variables: %s' % badlists)
    bl = badlists[0]
    from ..dataflow import truth_search, trace
    hdr = [n for n in g.nodes if n.kind == 'for' and n.stmt is loop][0]

    def is_reject(n):
        return n.kind == 'stmt' and any(isinstance(c, ast.Call) and call_name(c) == 'append' and isinstance(c.func.value, ast.Name)
                                        and c.func.value.id == bl for c in ast.walk(n.ast))

    def is_install(n):
        return n.kind == 'stmt' and isinstance(n.ast, ast.Assign) and isinstance(n.ast.targets[0], ast.Subscript) and \
            'TimeSeries' in unparse(n.ast.targets[0]) and unparse(n.ast.targets[0]).startswith('self.')

    def tolerance_outcome(test, label):
        """'exceeds' / 'within' when the branch outcome says |change| (or the relative error) is above / not above the
        tolerance, else None"""
        out = None
        for _, val, e in atomic_facts(test, label):
            e = resolve_expr(e, subst)
            if not (isinstance(e, ast.Compare) and len(e.ops) == 1):
                continue
            l_, r_, op = e.left, e.comparators[0], e.ops[0]
            tol_r = any(isinstance(x, ast.Attribute) and 'ErrorToler' in x.attr for x in ast.walk(r_))
            tol_l = any(isinstance(x, ast.Attribute) and 'ErrorToler' in x.attr for x in ast.walk(l_))
            if tol_r and has_abs(l_, subst) and isinstance(op, (ast.Gt, ast.GtE)):
                out = 'exceeds' if val else 'within'
            elif tol_r and has_abs(l_, subst) and isinstance(op, (ast.Lt, ast.LtE)):
                out = 'within' if val else 'exceeds'
            elif tol_l and has_abs(r_, subst) and isinstance(op, (ast.Lt, ast.LtE)):
                out = 'exceeds' if val else 'within'
            elif tol_l and has_abs(r_, subst) and isinstance(op, (ast.Gt, ast.GtE)):
                out = 'within' if val else 'exceeds'
            elif tol_r or tol_l:
                out = 'malformed'
        return out
    tol_tests = [t for t in g.nodes if t.kind == 'test' and loop in t.loops and
                 (tolerance_outcome(t.ast, True) or tolerance_outcome(t.ast, False))]

    def step_iter(extra, node, lab, env, nxt):
        rej, inst, last, reached = extra
        if is_reject(node):
            rej = min(2, rej + 1)
            if last != 'exceeds':
                reached = reached | frozenset(['reject-without-exceeding'])
        if is_install(node) and loop in node.loops:
            inst = min(2, inst + 1)
        if node.kind == 'test' and lab in (True, False) and loop in node.loops:
            o = tolerance_outcome(node.ast, lab)
            if o:
                last = o
                reached = reached | frozenset([(node.id, o)])
        return (rej, inst, last, reached)
    first = [b_ for b_, lab in g.succ[hdr.id] if lab is True]

    def leave_iteration(a, b_, lab):
        return b_ == hdr.id and False
    hits, seen = truth_search(g, first, [hdr], extra0=(0, 0, None, frozenset()), step=step_iter,
                              stop_edge=lambda a, b_, lab: a == hdr.id)
    ends = [k for k in seen if k[0] == hdr.id and seen[k] is not None]
    both = [k for k in ends if k[2][0] and k[2][1]]
    check.ob('C15.R3', '%s::flagged-variable-not-installed' % ss.key, not both and bool(ends), '%s:%d' % (ss.module.rel, loop.lineno),
             'a variable recorded as not converged is never installed as k=0 value' if not both else
             'a variable can be recorded as not converged and still be installed (lines %s)' % trace(seen, both[0], g), 'a drifting variable')
    # (a two-phase search - validate every variable first, install afterwards - has no install in this loop)
    loop_installs = any(is_install(n_) and loop in n_.loops for n_ in g.nodes)
    undecided = [k for k in ends if k[2][2] is not None and ((k[2][0] + k[2][1]) > 1 or (loop_installs and (k[2][0] + k[2][1]) == 0))]
    check.ob('C15.R3', '%s::flagged-variable-recorded' % ss.key, not undecided and bool(ends), '%s:%d' % (ss.module.rel, loop.lineno),
             'every tested variable is either installed or recorded as not converged, exactly once' if not undecided else
             'a tested variable can be neither installed nor recorded (or both / twice): lines %s' % trace(seen, undecided[0], g),
             'a drifting variable')
    wrong = [k for k in ends if 'reject-without-exceeding' in k[2][3]]
    for t in tol_tests:
        malformed = 'malformed' in (tolerance_outcome(t.ast, True), tolerance_outcome(t.ast, False))
        exceed_rejects = any((t.id, 'exceeds') in k[2][3] and k[2][0] for k in ends)
        within_rejects = any(k[2][0] and k[2][2] == 'within' for k in ends)
        ok_t = (not malformed) and exceed_rejects and not wrong and not within_rejects
        check.ob('C15.R3', '%s::tolerance-test(%s)' % (ss.key, unparse(t.ast)), ok_t, '%s:%d' % (ss.module.rel, t.line),
                 'exceeding the tolerance (and only that) leads to the variable being recorded as not converged' if ok_t
                 else 'tolerance comparison does not reject in the exceeding direction', 'a moving series')
    # a recorded variable makes the normal return unreachable, and what is raised is a value error
    def step_all(extra, node, lab, env, nxt):
        return 1 if (extra or is_reject(node)) else 0
    hits2, seen2 = truth_search(g, [g.entry], [g.exit], extra0=0, step=step_all)
    bad_exit = [k for k in seen2 if k[0] == g.exit.id and k[2] == 1]
    raises_ok = True
    for k in seen2:
        nd = g.nodes[k[0]]
        if k[2] == 1 and nd.kind == 'stmt' and isinstance(nd.ast, ast.Raise) and loop not in nd.loops:
            if not (raised_name(nd.ast) and exc_is_a(raised_name(nd.ast), 'ValueError')):
                raises_ok = False
    ok = not bad_exit and raises_ok and any(is_reject(n) for n in g.nodes)
    check.ob('C15.R3', '%s::bad-list-raises' % ss.key, ok, ss.where,
             'a recorded non-converged variable makes the normal return unreachable; a value error is raised' if ok else
             'the function can return normally although variables were recorded as not converged (lines %s)' % (
                 trace(seen2, bad_exit[0], g) if bad_exit else '?'),
             'an unstable or drifting system')
    # ---- R2 (cont.): the parameters of the search belong to one solver ----------------------------------------
    from ._common import per_instance_defaults
    for attr_, where_, ok_, txt_ in per_instance_defaults(prog, ss_raw.cls, 'ParameterInitialSteadyState'):
        check.ob('C15.R2', '%s::own-parameter-object(%s)' % (ss_raw.cls.key, attr_), ok_, where_,
                 'every solver starts with its own value (`%s`)' % txt_ if ok_ else
                 'self.%s is the module-level object `%s` in every solver: excluding a variable on one solver excludes it in all others, '
                 'whose search then accepts that variable although it still moves' % (attr_, txt_),
                 'two solvers; solver_a.%s.append(name); solver_b searches' % attr_)
    # ---- R5: the variables tested are all the variables that have a series (decorative ones included) ------------
    from ._common import steady_state_covers_all_series
    ok_c, why_c = steady_state_covers_all_series(loop, subst)
    check.ob('C15.R5', '%s::checked-set-is-every-series' % ss.key, ok_c, '%s:%d' % (ss.module.rel, loop.lineno), why_c,
             'equation reduction on (default) and a variable nothing else depends on (a balance, a ratio): its k=0 value must be the steady one too')
    # ---- R5: every variable that was checked and accepted is installed ------------------------------------
    all_install = [n for n in g.stmt_nodes() if n.kind == 'stmt' and isinstance(n.ast, ast.Assign) and
                   isinstance(n.ast.targets[0], ast.Subscript) and 'TimeSeries' in unparse(n.ast.targets[0]) and
                   unparse(n.ast.targets[0]).startswith('self.') and linform(n.ast.targets[0].slice) is not None and
                   lin_eq(linform(n.ast.targets[0].slice), {'': 0})]
    for n in all_install:
        loops_n = [l for l in n.loops if isinstance(l, ast.For)]
        same_loop = loop in loops_n
        same_coll = bool(loops_n) and unparse(loops_n[-1].iter) == unparse(loop.iter)
        ok = same_loop or same_coll
        check.ob('C15.R5', '%s::installed-set-is-checked-set' % ss.key, ok, '%s:%d' % (ss.module.rel, n.line),
                 'the k=0 values are installed for exactly the variables that were tested' if ok else
                 'k=0 values are installed in a loop over `%s` while the steadiness test ranges over `%s`: variables outside the former '
                 '(decorative ones under the default equation reduction) are reported steady but keep their old k=0 value'
                 % (unparse(loops_n[-1].iter) if loops_n else '?', unparse(loop.iter)),
                 'equation reduction on (default) and a variable nothing else depends on (a balance, a ratio)')
        # the value installed is the copy's last value of the same variable
        lvn = target_names(loops_n[-1].target)[0] if loops_n else None
        v = n.ast.value
        if isinstance(v, ast.Name) and v.id in subst and v.id not in lastprev:
            v = subst[v.id]
        if isinstance(v, ast.Name) and v.id in lastprev:
            i_, base_ = lastprev[v.id]
            v_ok = i_ == -1
        else:
            v = resolve_expr(v, {k_: e_ for k_, e_ in subst.items() if k_ not in (lvn, copy_name)})
            v_ok = isinstance(v, ast.Subscript) and isinstance(v.slice, ast.UnaryOp) and unparse(v.slice) == '-1' and copy_name in unparse(v)
        # plain copies of the loop variable made in the loop body (left by an inlined helper) name the same variable
        lv_alias = {lvn}
        for a_ in (ast.walk(loops_n[-1]) if loops_n else []):
            if isinstance(a_, ast.Assign) and len(a_.targets) == 1 and isinstance(a_.targets[0], ast.Name) and isinstance(a_.value, ast.Name) \
                    and a_.value.id in lv_alias and sum(1 for x_ in ast.walk(loops_n[-1]) if isinstance(x_, ast.Name) and x_.id == a_.targets[0].id
                                                        and isinstance(x_.ctx, ast.Store)) == 1:
                lv_alias.add(a_.targets[0].id)
        key_ok = lvn is not None and (unparse(n.ast.targets[0].value.slice) in lv_alias or
                                      unparse(resolve_expr(n.ast.targets[0].value.slice, subst)) == lvn)
        check.ob('C15.R5', '%s::installed-value-is-last-point' % ss.key, bool(v_ok and key_ok), '%s:%d' % (ss.module.rel, n.line),
                 'the value installed for a variable is the last point of its own searched series' if (v_ok and key_ok) else
                 'the value installed is `%s` for key `%s`' % (unparse(n.ast.value), unparse(n.ast.targets[0])), 'any accepted search')
    # k=0 values of an existing solution are installed by the search only (anything else installs untested values)
    for fo in (ss.cls.methods.values() if ss.cls else []):
        if fo.name in (ss_raw.name, '__init__') or fo.key in getattr(ss, 'inlined', ()):
            continue
        for n in ast.walk(fo.node):
            if isinstance(n, ast.Assign) and isinstance(n.targets[0], ast.Subscript) and isinstance(n.targets[0].value, ast.Subscript) and \
                    'TimeSeries' in unparse(n.targets[0].value.value) and unparse(n.targets[0]).startswith('self.') and \
                    lin_eq(linform(n.targets[0].slice) if not isinstance(n.targets[0].slice, ast.Slice) else None, {'': 0}):
                check.saw(fo)
                check.ob('C15.R5', '%s::k0-install-outside-search' % fo.key, False, '%s:%d' % (fo.module.rel, n.lineno),
                         'k=0 values are written into the solved series outside the steady-state search: they are accepted without the '
                         'steadiness test (stale when tolerance, functions or equations changed)', 'a second solve after tightening the tolerance')
    check.ob('C15.R5', '%s::install-present' % ss.key, bool(all_install), ss.where,
             'accepted values are written to TimeSeries[var][0]' if all_install else 'nothing is installed after a successful search', '')
    # ---- R6: the exogenous inputs of the search are frozen at their k=0 values ------------------------------------------------
    # in a loop over the (copy's) exogenous block, the series stored for the loop variable is built from item 0 of that variable's
    # series - judged on the syntax of the stored value (through single-assignment temporaries); other spellings are not judged
    subst6 = single_assign_subst(ss.node)
    for loop6 in [n for n in ast.walk(ss.node) if isinstance(n, ast.For) and isinstance(n.iter, ast.Attribute) and n.iter.attr == 'Exogenous']:
        lv = target_names(loop6.target)
        if not lv:
            continue
        for st6 in ast.walk(loop6):
            if not (isinstance(st6, ast.Assign) and len(st6.targets) == 1 and isinstance(st6.targets[0], ast.Subscript) and
                    isinstance(st6.targets[0].value, ast.Attribute) and st6.targets[0].value.attr == 'TimeSeries' and
                    isinstance(st6.targets[0].slice, ast.Name) and st6.targets[0].slice.id == lv[0]):
                continue
            val6 = st6.value
            if isinstance(val6, ast.Name) and val6.id in subst6:
                val6 = subst6[val6.id]
            reads = [x for x in ast.walk(val6) if isinstance(x, ast.Subscript) and isinstance(x.value, ast.Subscript) and
                     isinstance(x.value.value, ast.Attribute) and x.value.value.attr == 'TimeSeries' and
                     isinstance(x.value.slice, ast.Name) and x.value.slice.id == lv[0]]
            if not reads:
                continue
            bad6 = [x for x in reads if not (isinstance(x.slice, ast.Constant) and x.slice.value == 0)]
            check.ob('C15.R6', '%s::exogenous-frozen-at-k0(%s)' % (ss.key, lv[0]), not bad6, '%s:%d' % (ss.module.rel, st6.lineno),
                     'the constant path of an exogenous input is its k=0 value' if not bad6 else
                     'the search freezes the exogenous input at `%s`, not at its k=0 value: the state it accepts is steady for another '
                     'input than the one the model starts with' % unparse(bad6[0]),
                     'an exogenous path that changes between k=0 and k=1 (G = [20, 25, 25, ...])')
    # an overflowing search is not a steady state: the step solver the search runs on does not take a NaN error for convergence
    from .C02 import nan_stops_the_period
    nan_stops_the_period(check, Sweep(prog), 'C15.R3', 'a search on an explosive system (x = 50*x(k-1) + G): inf must not be installed at k=0')
    # the change of a series is |last - previous|; a difference of absolute values is zero for x -> -x and negative for a shrinking
    # magnitude (judged wherever two abs(..) calls are subtracted in the search)
    for x_ in ast.walk(ss.node):
        if isinstance(x_, ast.BinOp) and isinstance(x_.op, ast.Sub) and all(
                isinstance(o_, ast.Call) and call_name(o_) in ('abs', 'fabs') for o_ in (x_.left, x_.right)):
            check.ob('C15.R1', '%s::change-is-abs-of-difference(%s)' % (ss.key, unparse(x_)), False, '%s:%d' % (ss.module.rel, x_.lineno),
                     '`%s` is a difference of absolute values, not the absolute value of the difference: a series that flips sign or '
                     'shrinks in magnitude passes the test while it still moves' % unparse(x_), 'x = -x(k-1): moves from 1 to -1 every period')
    # convergence error => value error
    conv = False
    for n in ast.walk(ss.node):
        if isinstance(n, ast.ExceptHandler) and 'ConvergenceError' in handler_types(n):
            rs = [x for x in n.body if isinstance(x, ast.Raise)]
            conv = bool(rs) and raised_name(rs[-1]) is not None and exc_is_a(raised_name(rs[-1]), 'ValueError')
    check.ob('C15.R3', '%s::convergence-error-is-value-error' % ss.key, conv, ss.where,
             'a ConvergenceError during the search is re-raised as a value error' if conv else
             'a ConvergenceError during the search is swallowed or not converted', 'a system that does not converge in the search')
    check.floor('C15.R1', 1)
    check.floor('C15.R5', 3)
    check.floor('C15.R2', 3)
    check.floor('C15.R3', 5)
    check.floor('C15.R4', 3)


def self_writes(prog, f, depth):
    """attributes of self stored / mutated by the method (transitively through self-calls, bounded)"""
    out = set()
    for kind, recv, mn in mutations_in(f.node):
        base = recv
        while isinstance(base, (ast.Subscript, ast.Attribute)):
            last = base
            base = base.value
        if isinstance(base, ast.Name) and base.id == 'self':
            if kind in ('attr=', 'attr+='):
                tgt = (mn.targets if isinstance(mn, ast.Assign) else [mn.target])[0]
                out.add(unparse(tgt))
            else:
                out.add(unparse(recv))
    if depth > 0 and f.cls is not None:
        for c in ast.walk(f.node):
            if isinstance(c, ast.Call) and isinstance(c.func, ast.Attribute) and isinstance(c.func.value, ast.Name) and \
                    c.func.value.id == 'self':
                callee = prog.resolve_method(f.cls, c.func.attr)
                if callee is not None and callee is not f:
                    out |= self_writes(prog, callee, depth - 1)
    return out
