"""sfcv command line:  python -m sfcv check <Cxx> [--tier quick|thorough] [--root DIR]
                       python -m sfcv replay <file>
                       python -m sfcv all [--tier ...] [--root DIR] [-j N]"""
import argparse
import importlib
import json
import os
import sys
import traceback

from . import report
from .loader import Program, AnalysisError

ALL = ['C%02d' % i for i in range(1, 21)]


def run_check(pid, tier, root, seed=0):
    try:
        mod = importlib.import_module('sfcv.rules.' + pid)
    except ImportError as e:
        print('ANALYSIS-ERROR property=%s no rule module (%s)' % (pid, e))
        return 2
    check = report.Check(pid, tier, root)
    try:
        prog = Program(root, with_examples=(tier == 'thorough' and getattr(mod, 'WANTS_EXAMPLES', False)))
        mod.run(prog, check)
        if tier == 'thorough':
            metamorphic_audit(mod, pid, root, check)
            if not report.has_new_refutations(check):
                from . import audit
                audit.corpus_audit(pid, root, check, report.VERIF)
        cmd = '/venv/bin/python -m sfcv check %s --tier %s' % (pid, tier)
        return report.finish(check, seed, cmd)
    except AnalysisError as e:
        # an anchor that could not be followed any further is an analysis error - unless obligations refuted before that
        # point already explain it (then the refutations are the verdict, the lost anchor is reported with them)
        try:
            if report.has_new_refutations(check):
                check.analysed['notes'].append('analysis stopped early: %s' % e)
                return report.finish(check, seed, '/venv/bin/python -m sfcv check %s --tier %s' % (pid, tier), ignore_problems=True)
        except Exception:
            pass
        report.emit('ANALYSIS-ERROR property=%s %s' % (pid, e))
        return 2
    except BrokenPipeError:
        return 2
    except Exception:
        report.emit('ANALYSIS-ERROR property=%s internal error in the analyser:\n%s' % (pid, traceback.format_exc()))
        return 2


def metamorphic_audit(mod, pid, root, check):
    """thorough tier: the verdicts must be invariant under meaning-preserving rewrites of the analysed tree"""
    import shutil
    from . import audit
    base = audit.verdict_signature(check)
    for kind in ('reformat', 'rename', 'all'):
        tmp = audit.transform_tree(root, kind)
        try:
            c2 = report.Check(pid, 'thorough', tmp)
            p2 = Program(tmp, with_examples=getattr(mod, 'WANTS_EXAMPLES', False))
            mod.run(p2, c2)
            sig = audit.verdict_signature(c2)
        except AnalysisError as e:
            raise AnalysisError('metamorphic audit (%s): the analyser loses an anchor on a meaning-preserving rewrite: %s' % (kind, e))
        finally:
            shutil.rmtree(tmp, ignore_errors=True)
        same = sig == base
        check.audit.append('metamorphic %s: %d obligations, verdict signature %s' % (kind, len(c2.obligations), 'unchanged' if same else
                                                                                   'CHANGED %s -> %s' % (base, sig)))
        if not same:
            diff = {k: (base.get(k), sig.get(k)) for k in set(base) | set(sig) if base.get(k) != sig.get(k)}
            raise AnalysisError('metamorphic audit (%s): verdicts depend on layout / local names: %s' % (kind, diff))


def replay(path):
    with open(path) as f:
        data = json.load(f)
    pid = data['property']
    root = data.get('root', '/repo')
    print('replaying %s on %s (tier %s); previously refuted:' % (pid, root, data.get('tier')))
    for o in data.get('refuted', []):
        print('  %s %s %s -- %s' % (o.get('where'), o.get('rule'), o.get('construct'), o.get('why', '')))
    return run_check(pid, data.get('tier', 'quick'), root)


def main(argv=None):
    ap = argparse.ArgumentParser(prog='sfcv')
    sub = ap.add_subparsers(dest='cmd')
    c = sub.add_parser('check')
    c.add_argument('pid')
    c.add_argument('--tier', default=os.environ.get('VERIF_TIER', 'quick'), choices=['quick', 'thorough'])
    c.add_argument('--root', default='/repo')
    r = sub.add_parser('replay')
    r.add_argument('path')
    a = sub.add_parser('all')
    a.add_argument('--tier', default='quick', choices=['quick', 'thorough'])
    a.add_argument('--root', default='/repo')
    args = ap.parse_args(argv)
    seed = int(os.environ.get('VERIF_SEED', '0') or 0)
    if args.cmd == 'check':
        return run_check(args.pid, args.tier, args.root, seed)
    if args.cmd == 'replay':
        return replay(args.path)
    if args.cmd == 'all':
        worst = 0
        for pid in ALL:
            if not os.path.exists(os.path.join(os.path.dirname(__file__), 'rules', pid + '.py')):
                continue
            print('==== ' + pid)
            worst = max(worst, run_check(pid, args.tier, args.root, seed))
        return worst
    ap.print_help()
    return 2
