"""sfcv - repository-specific static checkers for brianr747/SFC_models (stdlib ast/tokenize only).

Never imports sfc_models and never executes repository code: every verdict is computed from the
parsed source of the tree given by --root (default /repo)."""
__all__ = ['loader', 'cfg', 'report']
