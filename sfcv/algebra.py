"""E5 - ledger algebra: commutative polynomials with rational coefficients and integer exponents over atoms
  ('var', rolekey, namekey) | ('lag', atom) | ('sym', text) | ('sum', loopkey, guardkey, frozen-poly) | ('opq', text)
plus the algebraic reading of equation-text templates (strdom.Str).  No solver, no search: normalise, compare with 0."""
from fractions import Fraction

from .strdom import Str, Hole, Role, Val, Cond, Guard

IDENT_CHARS = set('ABCDEFGHIJKLMNOPQRSTUVWXYZabcdefghijklmnopqrstuvwxyz0123456789_')
FRAGMENT_HOLES = ('code', 'fullcode', 'param', 'field', 'elem', 'currency', 'attr')


# ---- polynomials ---------------------------------------------------------------------------------------------
class Poly(object):
    __slots__ = ('terms',)

    def __init__(self, terms=None):
        self.terms = {}
        if terms:
            for m, c in terms.items():
                if c != 0:
                    self.terms[m] = c

    @staticmethod
    def const(c):
        return Poly({(): Fraction(c)}) if c != 0 else Poly()

    @staticmethod
    def atom(a):
        return Poly({((a, 1),): Fraction(1)})

    def is_zero(self):
        return not self.terms

    def __add__(self, o):
        t = dict(self.terms)
        for m, c in o.terms.items():
            t[m] = t.get(m, 0) + c
        return Poly(t)

    def __neg__(self):
        return Poly({m: -c for m, c in self.terms.items()})

    def __sub__(self, o):
        return self + (-o)

    def __mul__(self, o):
        t = {}
        for m1, c1 in self.terms.items():
            for m2, c2 in o.terms.items():
                m = mono_mul(m1, m2)
                t[m] = t.get(m, 0) + c1 * c2
        return Poly(t)

    def scale(self, c):
        return Poly({m: v * c for m, v in self.terms.items()})

    def inverse(self):
        """1/p for a single-monomial p"""
        if len(self.terms) != 1:
            return None
        (m, c), = self.terms.items()
        return Poly({tuple(sorted(((a, -e) for a, e in m), key=repr)): Fraction(1) / c})

    def freeze(self):
        return tuple(sorted(self.terms.items(), key=repr))

    @staticmethod
    def thaw(fz):
        return Poly(dict(fz))

    def atoms(self):
        out = set()
        for m in self.terms:
            for a, e in m:
                out.add(a)
        return out

    def show(self):
        if not self.terms:
            return '0'
        parts = []
        for m, c in sorted(self.terms.items(), key=repr):
            fac = [show_atom(a) + ('' if e == 1 else '^%d' % e) for a, e in m]
            cs = '' if (c == 1 and fac) else ('-' if (c == -1 and fac) else str(c))
            parts.append((cs + ('*' if cs not in ('', '-') and fac else '') + '*'.join(fac)) or '1')
        return ' + '.join(parts).replace('+ -', '- ')


def mono_mul(m1, m2):
    d = {}
    for a, e in m1 + m2:
        d[a] = d.get(a, 0) + e
    return tuple(sorted(((a, e) for a, e in d.items() if e != 0), key=repr))


def show_atom(a):
    k = a[0]
    if k == 'var':
        return 'V(%s,%s)' % (short(a[1]), short(a[2]))
    if k == 'lag':
        return 'Lag(%s)' % show_atom(a[1])
    if k == 'sym':
        return a[1]
    if k == 'sum':
        return 'Sum[%s|%s](%s)' % (a[1], ','.join(short(g) for g in a[2]), Poly.thaw(a[3]).show())
    return 'opq(%s)' % (a[1],)


def short(key):
    """compact rendering of a structural key"""
    if isinstance(key, tuple):
        if key and key[0] == 'str':
            return "'" + ''.join(p if isinstance(p, str) else short(p) for p in key[1:]) + "'"
        if key and key[0] == 'role':
            if key[1] == 'self':
                return 'Self'
            return '%s(%s)' % (key[1], ','.join(short(k) for k in key[2:]))
        if key and key[0] == 'hole':
            return '<%s %s>' % (key[1], ','.join(short(k) for k in key[2:]))
        if key and key[0] == 'cond':
            return '%s(%s)' % (key[1], ','.join(short(k) for k in key[2:]))
        return '(' + ','.join(short(k) for k in key) + ')'
    return str(key)


def lag_poly(p):
    t = {}
    for m, c in p.terms.items():
        nm = tuple(sorted(((lag_atom(a), e) for a, e in m), key=repr))
        t[nm] = t.get(nm, 0) + c
    return Poly(t)


def lag_atom(a):
    if a[0] == 'sym':
        return a
    if a[0] == 'sum':
        return ('sum', a[1], a[2], lag_poly(Poly.thaw(a[3])).freeze())
    return ('lag', a)


def make_sum(loopkey, guardkey, body):
    if body.is_zero():
        return Poly()
    return Poly.atom(('sum', loopkey, tuple(sorted(guardkey, key=repr)), body.freeze()))


def mentions_elem(obj, loopkey):
    """does a structural key mention the element of the loop `loopkey` (outside nested sums over the same loop)"""
    if isinstance(obj, tuple):
        if len(obj) >= 3 and obj[0] == 'role' and obj[1] == 'loop' and obj[2] == loopkey:
            return True
        if len(obj) >= 4 and obj[0] == 'hole' and obj[1] == 'elem' and obj[2] == loopkey:
            return True
        if len(obj) >= 4 and obj[0] == 'sum' and obj[1] == loopkey:
            return False
        return any(mentions_elem(x, loopkey) for x in obj)
    return False


def normalize(p, unique_guard=None, depth=0):
    """distribute loop-invariant factors into sums, merge sums over the same (loop, guards), drop empty sums,
    collapse sums over a unique element whose body does not depend on the element"""
    if depth > 8:
        return p
    plain = Poly()
    sums = {}
    for m, c in p.terms.items():
        s_atoms = [(a, e) for a, e in m if a[0] == 'sum']
        if len(s_atoms) == 1 and s_atoms[0][1] == 1:
            a = s_atoms[0][0]
            rest = tuple(x for x in m if x[0][0] != 'sum')
            body = normalize(Poly.thaw(a[3]), unique_guard, depth + 1) * Poly({rest: c})
            key = (a[1], a[2])
            sums[key] = sums.get(key, Poly()) + body
        else:
            plain = plain + Poly({m: c})
    # merge sums whose guard sets differ in one literal of opposite polarity and whose bodies are equal
    changed = True
    while changed:
        changed = False
        keys = list(sums)
        for i in range(len(keys)):
            for j in range(i + 1, len(keys)):
                k1, k2 = keys[i], keys[j]
                if k1 not in sums or k2 not in sums or k1[0] != k2[0]:
                    continue
                g1, g2 = set(k1[1]), set(k2[1])
                d1, d2 = g1 - g2, g2 - g1
                if len(d1) == 1 and len(d2) == 1:
                    (c1, p1), = d1
                    (c2, p2), = d2
                    if c1 == c2 and p1 != p2 and sums[k1].freeze() == sums[k2].freeze():
                        body = sums.pop(k1)
                        sums.pop(k2)
                        nk = (k1[0], tuple(sorted(g1 & g2, key=repr)))
                        sums[nk] = sums.get(nk, Poly()) + body
                        changed = True
    out = plain
    collapsed = False
    for (lk, gk), body in sums.items():
        body = normalize(body, unique_guard, depth + 1)
        if body.is_zero():
            continue
        if unique_guard is not None and any(unique_guard(g) for g in gk) and not any(mentions_elem(a, lk) for a in body.atoms()):
            out = out + body
            collapsed = True
            continue
        out = out + make_sum(lk, gk, body)
    if collapsed:
        return normalize(out, unique_guard, depth + 1)
    return out


def substitute(p, lookup, depth=0, ctx_guards=frozenset()):
    """replace atoms by polynomials: lookup(atom, ctx_guards) -> Poly or None; applied inside lags and sums"""
    if depth > 12:
        return p
    out = Poly()
    for m, c in p.terms.items():
        term = Poly.const(c)
        for a, e in m:
            ra = sub_atom(a, lookup, depth, ctx_guards)
            if e >= 0:
                for _ in range(e):
                    term = term * ra
            else:
                inv = ra.inverse()
                if inv is None:
                    inv = Poly.atom(('opq', '1/(%s)' % ra.show()))
                for _ in range(-e):
                    term = term * inv
        out = out + term
    return out


def sub_atom(a, lookup, depth, ctx_guards):
    if a[0] == 'var':
        r = lookup(a, ctx_guards)
        if r is not None:
            return substitute(r, lookup, depth + 1, ctx_guards)
        return Poly.atom(a)
    if a[0] == 'lag':
        inner = sub_atom(a[1], lookup, depth, ctx_guards)
        return lag_poly(inner)
    if a[0] == 'sum':
        body = substitute(Poly.thaw(a[3]), lookup, depth + 1, ctx_guards | frozenset(a[2]))
        return make_sum(a[1], a[2], body)
    return Poly.atom(a)


# ---- algebraic reading of templates --------------------------------------------------------------------------
class Reader(object):
    """reads a Str template as a polynomial; local identifiers belong to `owner` (a Role)"""

    def __init__(self, owner, allow_funcs=True):
        self.owner = owner
        self.problems = []

    def var(self, role, name_str):
        return Poly.atom(('var', role.key(), name_str.key()))

    def read(self, s):
        toks = self.tokenize(s)
        self.toks = toks
        self.i = 0
        if not toks:
            return Poly()
        p = self.expr()
        if self.i < len(self.toks):
            self.problems.append('trailing tokens: %r' % (self.toks[self.i:],))
            return Poly.atom(('opq', s.show()))
        return p

    # -- tokenizer over template parts -----------------------------------------------------------------
    def tokenize(self, s):
        toks = []
        cur = []            # fragments of the identifier being built

        def flush():
            if cur:
                frs = list(cur)
                del cur[:]
                text = ''.join(f for f in frs if isinstance(f, str))
                if all(isinstance(f, str) for f in frs) and is_number(text):
                    toks.append(('NUM', text))
                else:
                    toks.append(('NAME', Str(frs)))
        for part in s.parts:
            if isinstance(part, str):
                i = 0
                while i < len(part):
                    ch = part[i]
                    if ch in IDENT_CHARS or (ch == '.' and (cur_is_number(cur) or (not cur and i + 1 < len(part) and part[i + 1].isdigit()))):
                        cur.append(ch) if not (cur and isinstance(cur[-1], str)) else cur.__setitem__(-1, cur[-1] + ch)
                    elif ch in 'eE' and False:
                        pass
                    elif ch.isspace():
                        flush()
                    elif ch in '+-*/()':
                        # exponent sign of a float literal like 1e-6
                        if ch in '+-' and cur and isinstance(cur[-1], str) and cur_is_number(cur[:-1] + [cur[-1][:-1]]) and cur[-1][-1] in 'eE' and len(cur) == 1:
                            cur[-1] += ch
                        else:
                            flush()
                            toks.append(('OP', ch))
                    else:
                        flush()
                        toks.append(('OP', ch))
                    i += 1
            else:
                h = part
                if h.kind in FRAGMENT_HOLES or (h.kind == 'phi' and self.phi_is_fragment(h)):
                    cur.append(h)
                elif h.kind == 'opaque' and False:
                    pass
                else:
                    flush()
                    toks.append(('HOLE', h))
        flush()
        return toks

    def phi_is_fragment(self, h):
        for alt in h.args[1:3]:
            if not isinstance(alt, Str):
                return False
            for p in alt.parts:
                if isinstance(p, str):
                    if any(ch not in IDENT_CHARS for ch in p):
                        return False
                elif p.kind not in FRAGMENT_HOLES and not (p.kind == 'phi' and self.phi_is_fragment(p)):
                    return False
        return True

    # -- parser ---------------------------------------------------------------------------------------------
    def peek(self):
        return self.toks[self.i] if self.i < len(self.toks) else (None, None)

    def take(self):
        t = self.toks[self.i]
        self.i += 1
        return t

    def expr(self):
        p = self.term()
        while True:
            k, v = self.peek()
            if k == 'OP' and v in '+-':
                self.take()
                q = self.term()
                p = p + q if v == '+' else p - q
            elif k == 'HOLE' and v.kind == 'fold':
                self.take()
                p = p + self.fold(v)
            else:
                return p

    def term(self):
        p = self.factor()
        while True:
            k, v = self.peek()
            if k == 'OP' and v in '*/':
                self.take()
                q = self.factor()
                if v == '*':
                    p = p * q
                else:
                    inv = q.inverse()
                    if inv is None:
                        inv = Poly.atom(('opq', '1/(%s)' % q.show()))
                    p = p * inv
            else:
                return p

    def factor(self):
        k, v = self.peek()
        if k == 'OP' and v in '+-':
            self.take()
            f = self.factor()
            return f if v == '+' else -f
        return self.primary()

    def lag_suffix(self):
        """(k-1) / (t-1) directly after a variable"""
        j = self.i
        pat = [('OP', '('), None, ('OP', '-'), ('NUM', '1'), ('OP', ')')]
        if j + 5 <= len(self.toks):
            seg = self.toks[j:j + 5]
            if seg[0] == ('OP', '(') and seg[2] == ('OP', '-') and seg[3] == ('NUM', '1') and seg[4] == ('OP', ')') and \
                    seg[1][0] == 'NAME' and seg[1][1].is_literal() and seg[1][1].literal() in ('k', 't'):
                self.i += 5
                return True
        return False

    def primary(self):
        k, v = self.peek()
        if k is None:
            self.problems.append('unexpected end of expression')
            return Poly.atom(('opq', 'end'))
        self.take()
        if k == 'NUM':
            try:
                return Poly.const(Fraction(v))
            except (ValueError, ZeroDivisionError):
                return Poly.const(Fraction(float(v)).limit_denominator(10 ** 12))
        if k == 'NAME':
            nk, nv = self.peek()
            if nk == 'OP' and nv == '(':
                if self.lag_suffix():
                    return lag_poly(self.var(self.owner, v))
                # function call: opaque
                depth = 0
                txt = v.show()
                while self.i < len(self.toks):
                    tk, tv = self.take()
                    txt += str(tv if tk == 'OP' else (tv.show() if isinstance(tv, Val) else tv))
                    if (tk, tv) == ('OP', '('):
                        depth += 1
                    if (tk, tv) == ('OP', ')'):
                        depth -= 1
                        if depth == 0:
                            break
                return Poly.atom(('opq', txt))
            if v.is_literal() and v.literal() == 'k':
                return Poly.atom(('sym', 'k'))
            return self.var(self.owner, v)
        if k == 'HOLE':
            h = v
            if h.kind == 'fullname':
                p = self.var(h.args[0], h.args[1])
                if self.lag_suffix():
                    return lag_poly(p)
                return p
            if h.kind == 'num':
                return Poly.atom(('sym', 'num(%s)' % h.args[0]))
            if h.kind == 'fold':
                return self.fold(h)
            if h.kind == 'phi':
                a, b = Reader(self.owner).read(h.args[1]), Reader(self.owner).read(h.args[2])
                if a.freeze() == b.freeze():
                    return a
                return Poly.atom(('opq', h.show()))
            if h.kind == 'rhsof':
                return Poly.atom(('opq', h.show()))
            return Poly.atom(('opq', h.show()))
        if k == 'OP' and v == '(':
            p = self.expr()
            k2, v2 = self.peek()
            if (k2, v2) == ('OP', ')'):
                self.take()
            else:
                self.problems.append('missing )')
            return p
        self.problems.append('unexpected token %r' % (v,))
        return Poly.atom(('opq', str(v)))

    def fold(self, h):
        loopkey, step, guards = h.args[0], h.args[1], h.args[2] if len(h.args) > 2 else ()
        body = Reader(self.owner).read(step)
        gk = tuple(g.key() for g in guards)
        return make_sum(loopkey, gk, body)


def is_number(text):
    try:
        float(text)
        return True
    except ValueError:
        return False


def cur_is_number(cur):
    if not cur or not all(isinstance(f, str) for f in cur):
        return False
    t = ''.join(cur)
    return t != '' and (t[0].isdigit() or t[0] == '.') and all(ch.isdigit() or ch in '.eE+-' for ch in t)
