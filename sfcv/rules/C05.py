"""C05 - the generated system is closed, canonical and free of placeholder names (decided structural clauses).

R1 placeholder sinks      : GetVariableName hands out a placeholder exactly when FullCode == ''; every Model-level store
                            of user-supplied equation text that reaches the final equations (sector blocks, global
                            equations, exogenous definitions) is rewritten by the alias pass, or cannot carry a name
                            (value forced through float()).
R2 phase order            : in Model.main full codes are generated before any _GenerateEquations; the alias pass runs
                            after full codes and generation and before exogenous processing and the final text.
R3 complete qualification : Sector._CreateFinalEquations builds its lookup from *all* variables of the sector and applies
                            it with the token-level replacer to every right-hand side; the left-hand side is the
                            canonical name.
R4 template closure       : every identifier in a framework-emitted right-hand-side template is, on the same sector, a
                            variable created by the class's constructor chain or its own generation method, a full name,
                            the time index, a number or a permitted function.
R5 separator tests        : every test of a name against a run of underscores uses the canonical separator '__'."""
import ast

from .. import cfg as cfgmod
from ..cfg import atomic_facts
from ..inline import flatten
from ..loader import AnalysisError, unparse, call_name
from .. import effects
from ..algebra import Reader
from ..strdom import Str, Hole, SELF, EXTSECTOR, ext, lit
from ..dataflow import target_names, single_assign_subst, resolve_expr
from ..loader import stmt_of

TECHNIQUE = ('static analysis: backward slice of every text sink to the alias pass (the only sanitiser) over the flattened pass, branch-outcome facts for placeholder creation and unchanged returns, CFG order of the phases of Model.main, template-closure check of all framework right-hand sides over the effect traces; separator-literal lint; branch-outcome facts for the guard of the model-level rewrite; list-position order of the step pipeline')
EXPLANATION = (
    'Placeholders are handed out before full codes exist and only the alias pass turns them into canonical names, so every '
    'store of user-supplied equation text that later reaches the final text must be rewritten by that pass (or be unable to '
    'carry a name), and the pass must sit between generation and final-text creation. The qualification step must cover every '
    'variable of a sector. For the framework\'s own templates, every identifier must be a variable the class itself creates. '
    'Closedness of user-supplied equations is not decided.')

ALLOWED_FUNCS = {'abs', 'max', 'min', 'sum', 'pow', 'round', 'float', 'sqrt', 'exp', 'log', 'log10'}


def _says_nonempty(e, val, names):
    """the fact `e is val` says that one of the collections `names` (or the alias registry) is not empty"""
    def is_coll(x):
        return (isinstance(x, ast.Name) and x.id in names) or (isinstance(x, ast.Attribute) and x.attr == 'Aliases')
    if is_coll(e):
        return val is True
    if isinstance(e, ast.Call) and call_name(e) == 'len' and e.args and is_coll(e.args[0]):
        return val is True
    if isinstance(e, ast.Compare) and len(e.ops) == 1 and isinstance(e.left, ast.Call) and call_name(e.left) == 'len' and e.left.args and \
            is_coll(e.left.args[0]) and isinstance(e.comparators[0], ast.Constant):
        k, op = e.comparators[0].value, e.ops[0]
        if k == 0:
            if isinstance(op, ast.Eq):
                return val is False
            if isinstance(op, (ast.NotEq, ast.Gt)):
                return val is True
        if k == 1:
            if isinstance(op, ast.GtE):
                return val is True
            if isinstance(op, ast.Lt):
                return val is False
    return False


def run(prog, check):
    check.explanation = EXPLANATION
    check.not_decided = ('closedness of user-supplied equations; uniqueness of full codes when codes themselves contain "_"; '
                         'variables a sector expects another object to create in it (reported per class where the framework itself relies on it)')
    check.assumptions = ['placeholders are only created by GetVariableName']
    M = prog.cls('Model')
    S = prog.cls('Sector')
    # ---- R1 ----------------------------------------------------------------------------------------
    gv = S.methods.get('GetVariableName')
    if gv is None:
        raise AnalysisError('Sector.GetVariableName not found')
    check.saw(gv)
    gv = flatten(prog, gv)
    g = cfgmod.build(gv)
    # the registrar by role: the Model method(s) storing into self.Aliases[...]
    REGISTRARS = {mf.name for mf in M.methods.values() if any(
        isinstance(a_, ast.Assign) and any(isinstance(t_, ast.Subscript) and isinstance(t_.value, ast.Attribute) and t_.value.attr == 'Aliases'
                                           for t_ in a_.targets) for a_ in ast.walk(mf.node))} or {'_RegisterAlias'}
    reg = [n for n in g.stmt_nodes() if n.kind == 'stmt' and any(isinstance(c, ast.Call) and call_name(c) in REGISTRARS for c in ast.walk(n.ast))]

    def fullcode_empty(n):
        """True / False when reaching n implies FullCode == '' / != '', None when undetermined"""
        for test, outcome in g.conditions_at(n):
            for txt, val, e in atomic_facts(test, outcome):
                if isinstance(e, ast.Compare) and len(e.ops) == 1 and isinstance(e.ops[0], ast.Eq):
                    l, r = e.left, e.comparators[0]
                    for x, y in ((l, r), (r, l)):
                        if 'FullCode' in unparse(x) and isinstance(y, ast.Constant) and y.value == '':
                            return val
                if isinstance(e, ast.Call) and call_name(e) == 'len' and e.args and 'FullCode' in unparse(e.args[0]):
                    return not val
                if isinstance(e, ast.Attribute) and e.attr == 'FullCode':
                    return not val
        return None
    rets_ = [n for n in g.stmt_nodes() if n.kind == 'stmt' and isinstance(n.ast, ast.Return)]
    canonical = [n for n in rets_ if n.ast.value is not None and 'FullCode' in unparse(n.ast.value)]
    ok = bool(reg) and all(fullcode_empty(n) is True for n in reg) and bool(canonical) and \
        all(fullcode_empty(n) is False for n in canonical)
    check.ob('C05.R1', '%s::placeholder-iff-no-fullcode' % gv.key, ok, gv.where,
             'a placeholder is registered and returned exactly when FullCode is empty' if ok else
             'the placeholder branch is not exactly the FullCode == \'\' branch', 'a name requested before / after main()')
    # every returned placeholder is registered (the alias pass can only fix what it knows)
    rets = [n for n in g.stmt_nodes() if n.kind == 'stmt' and isinstance(n.ast, ast.Return)]
    alias_names = set()
    for n in reg:
        for c in ast.walk(n.ast):
            if isinstance(c, ast.Call) and call_name(c) in REGISTRARS and c.args and isinstance(c.args[0], ast.Name):
                alias_names.add(c.args[0].id)
    okr = True
    for r in rets:
        if isinstance(r.ast.value, ast.Name) and r.ast.value.id in alias_names:
            okr = okr and any(g.dominates(n, r) for n in reg)
    check.ob('C05.R1', '%s::placeholder-registered-before-return' % gv.key, okr and bool(alias_names), gv.where,
             'the placeholder is registered with the model before it is returned', 'any placeholder')
    # the sanitiser
    san = None
    cands_ = []
    from ._common import sector_alias_rewriters
    REWRITERS = sector_alias_rewriters(prog)
    for f in M.methods.values():
        fnode_ = flatten(prog, f).node
        if any(isinstance(n, ast.Attribute) and n.attr == 'Aliases' for n in ast.walk(fnode_)) and \
                any(isinstance(c, ast.Call) and call_name(c) in REWRITERS for c in ast.walk(fnode_)):
            cands_.append(f)
    if cands_:
        # the pass itself, not the entry points it is inlined into: the smallest function that has both
        san = min(cands_, key=lambda f: len(list(ast.walk(flatten(prog, f).node))))
    if san is None:
        raise AnalysisError('alias pass (sanitiser) not found in Model')
    check.saw(san)
    # the registry only grows: a placeholder handed out once stays resolvable by every later pass
    for f in prog.all_functions():
        if '/deprecated/' in f.module.rel:
            continue
        for n in ast.walk(f.node):
            bad_ = None
            if isinstance(n, (ast.Assign, ast.AugAssign, ast.Delete)):
                tg_ = n.targets if isinstance(n, (ast.Assign, ast.Delete)) else [n.target]
                flat_ = []
                for t in tg_:
                    flat_.extend(t.elts if isinstance(t, (ast.Tuple, ast.List)) else [t])
                for t in flat_:
                    if isinstance(t, ast.Attribute) and t.attr == 'Aliases' and f.name != '__init__':
                        bad_ = 'the alias registry is replaced (`%s`)' % unparse(n)[:70]
                    if isinstance(n, ast.Delete) and isinstance(t, ast.Subscript) and isinstance(t.value, ast.Attribute) and t.value.attr == 'Aliases':
                        bad_ = 'an entry of the alias registry is deleted'
            elif isinstance(n, ast.Call) and isinstance(n.func, ast.Attribute) and n.func.attr in ('clear', 'pop', 'popitem') and \
                    isinstance(n.func.value, ast.Attribute) and n.func.value.attr == 'Aliases':
                bad_ = 'entries of the alias registry are removed (`%s`)' % unparse(n)[:70]
            if bad_:
                check.saw(f)
                check.ob('C05.R1', '%s::alias-registry-only-grows' % f.key, False, '%s:%d' % (f.module.rel, n.lineno),
                         bad_ + ': a placeholder that was handed out before and is embedded into an equation afterwards is unknown to the next pass and survives',
                         'a name requested before main(), embedded into a global equation after a first pass, then a second pass')
    check.ob('C05.R1', '%s::alias-registry-kept' % san.key, True, san.where, 'no function of the package removes registered placeholders (scan of every store / remove on .Aliases)', '')
    # the private methods the pass runs through (calls and method values `fix = self._Helper`)
    family = [san]
    for f in family:
        for n in ast.walk(f.node):
            if isinstance(n, ast.Attribute) and isinstance(n.value, ast.Name) and n.value.id in ('self', M.name) and \
                    n.attr.startswith('_') and n.attr in M.methods and M.methods[n.attr] not in family:
                family.append(M.methods[n.attr])
    REPL = ('replace_token_from_lookup', 'replace_token')
    helpers = [f for f in family if f is not san and any(isinstance(c, ast.Call) and call_name(c) in REPL for c in ast.walk(f.node))]
    helper_keys = {h.key for h in helpers}
    san_flat = flatten(prog, san, accept=lambda callee: callee.key not in helper_keys)
    try:
        san_cfg = cfgmod.build(san_flat)
    except Exception:
        san_cfg = None
    for f in family:
        check.saw(f)
    lookups = {t for n in ast.walk(san_flat.node) if isinstance(n, ast.Assign) and isinstance(n.value, (ast.Dict, ast.DictComp)) for t in target_names(n.targets[0])}
    # plain copies of a lookup (`lookup = built`, the result variable of an inlined builder) are lookups
    grew_ = True
    while grew_:
        grew_ = False
        for n in ast.walk(san_flat.node):
            if isinstance(n, ast.Assign) and len(n.targets) == 1 and isinstance(n.targets[0], ast.Name) and isinstance(n.value, ast.Name) and \
                    n.value.id in lookups and n.targets[0].id not in lookups:
                lookups.add(n.targets[0].id)
                grew_ = True
    # names bound to a helper as a method value
    helper_aliases = {}
    for n in ast.walk(san_flat.node):
        if isinstance(n, ast.Assign) and len(n.targets) == 1 and isinstance(n.targets[0], ast.Name) and \
                isinstance(n.value, ast.Attribute) and n.value.attr in {h.name for h in helpers}:
            helper_aliases[n.targets[0].id] = n.value.attr

    def is_replacer_call(c):
        if not isinstance(c, ast.Call):
            return False
        nm = call_name(c)
        if nm in REPL or nm in {h.name for h in helpers}:
            return True
        return isinstance(c.func, ast.Name) and c.func.id in helper_aliases

    def backward_slice(value):
        """expressions the value is computed from (flow-insensitive, through local names, list filling and loop targets)"""
        exprs, names, work = [value], set(), [value]
        while work:
            e = work.pop()
            for x in ast.walk(e):
                if isinstance(x, ast.Name) and x.id not in names:
                    names.add(x.id)
                    for n in ast.walk(san_flat.node):
                        new = []
                        if isinstance(n, ast.Assign) and x.id in [t for tg in n.targets for t in target_names(tg)]:
                            new.append(n.value)
                        elif isinstance(n, ast.AugAssign) and x.id in target_names(n.target):
                            new.append(n.value)
                        elif isinstance(n, ast.Call) and call_name(n) in ('append', 'extend', 'insert') and \
                                isinstance(n.func, ast.Attribute) and isinstance(n.func.value, ast.Name) and n.func.value.id == x.id:
                            new.extend(n.args)
                        elif isinstance(n, (ast.For, ast.comprehension)) and x.id in target_names(n.target):
                            new.append(n.iter)
                        for v in new:
                            if not any(v is y for y in exprs):
                                exprs.append(v)
                                work.append(v)
        return exprs
    # text sinks: Model list attributes appended by a public method with a caller-supplied value that is not float-forced
    sinks = {}
    for f in M.methods.values():
        if f.name.startswith('_'):
            continue
        params = set(f.params()[1:])
        # float-forced expressions:  F := float(..) | str(F) | repr(F) | a name every binding of which is an F
        binds_ = {}
        for n in ast.walk(f.node):
            if isinstance(n, ast.Assign):
                for t_ in n.targets:
                    for nm_ in target_names(t_):
                        binds_.setdefault(nm_, []).append(n.value if isinstance(t_, ast.Name) else None)

        def forced_e(e, seen=()):
            if isinstance(e, ast.Call) and isinstance(e.func, ast.Name) and len(e.args) == 1 and not e.keywords:
                if e.func.id == 'float':
                    return True
                if e.func.id in ('str', 'repr'):
                    return forced_e(e.args[0], seen)
            if isinstance(e, ast.Name) and e.id not in seen:
                bs_ = binds_.get(e.id, [])
                return bool(bs_) and all(b_ is not None and forced_e(b_, seen + (e.id,)) for b_ in bs_)
            return False
        forced = {nm_ for nm_ in binds_ if forced_e(ast.Name(id=nm_, ctx=ast.Load()))}
        # names that carry caller data: the parameters and what is computed from them
        derived = set(params)
        for _r in range(4):
            for nm_, bs_ in binds_.items():
                if any(b_ is not None and any(isinstance(x_, ast.Name) and x_.id in derived for x_ in ast.walk(b_)) for b_ in bs_):
                    derived.add(nm_)
        for c in ast.walk(f.node):
            if isinstance(c, ast.Call) and call_name(c) == 'append' and isinstance(c.func.value, ast.Attribute) and \
                    isinstance(c.func.value.value, ast.Name) and c.func.value.value.id == 'self' and c.args and isinstance(c.args[0], ast.Tuple):
                attr = c.func.value.attr
                comps = []
                for i, el in enumerate(c.args[0].elts):
                    callees = {id(x.func) for x in ast.walk(el) if isinstance(x, ast.Call)}
                    names = {x.id for x in ast.walk(el) if isinstance(x, ast.Name) and id(x) not in callees}
                    if names & derived:
                        # a number rendered in any way cannot carry a name: every data name of the component is float-forced
                        comps.append((i, el, bool(names & forced) and not (names - forced)))
                sinks[attr] = (f, comps)
    # which of them reach the final text?  (read in the functions main() runs from the alias pass on)
    readers = {}
    for f in M.methods.values():
        for n in ast.walk(f.node):
            if isinstance(n, ast.Attribute) and isinstance(n.value, ast.Name) and n.value.id == 'self' and n.attr in sinks and isinstance(n.ctx, ast.Load):
                readers.setdefault(n.attr, set()).add(f.name)
    text_sinks = {'GlobalVariables': 'rows of the final text', 'Exogenous': 'right-hand side of the exogenous variable'}
    for attr, (f, comps) in sorted(sinks.items()):
        if attr not in text_sinks:
            # lookup keys / flags / float-forced values: cannot carry an embedded name into equation text
            if attr == 'InitialConditions':
                val = [c for c in comps if c[0] == 2]
                okf = bool(val) and all(c[2] for c in val)
                check.ob('C05.R1', '%s::%s::value-float-forced' % (f.module.rel, attr), okf, f.where,
                         'initial-condition values are forced through float(): they cannot carry a name' if okf else
                         'initial-condition values are stored as given: an embedded placeholder survives', 'AddInitialCondition with an expression')
            continue
        check.saw(f)
        rewritten = False
        for n in ast.walk(san_flat.node):
            value = None
            if isinstance(n, ast.Assign) and any(isinstance(t, ast.Attribute) and t.attr == attr for t in n.targets):
                value = n.value
            elif isinstance(n, ast.Assign) and any(isinstance(t, ast.Subscript) and isinstance(t.value, ast.Attribute) and
                                                   t.value.attr == attr for t in n.targets):
                value = n.value
            if value is None:
                continue
            sl = backward_slice(value)
            reads_old = any(isinstance(x, ast.Attribute) and x.attr == attr and isinstance(x.ctx, ast.Load) for e in sl for x in ast.walk(e))
            uses_lookup = any(is_replacer_call(c) and any(isinstance(x, ast.Name) and x.id in lookups for x in ast.walk(c))
                              for e in sl for c in ast.walk(e))
            if reads_old and uses_lookup:
                rewritten = True
                # the rewrite may be skipped only when there is nothing to replace: every branch outcome it depends on must say
                # "the lookup / the alias registry is not empty" (an inverted early return skips it exactly when placeholders exist)
                if san_cfg is not None:
                    nd_ = san_cfg.node_of(n)
                    bad_c = []
                    for t_, o_ in (san_cfg.conditions_at(nd_) if nd_ is not None else []):
                        for _txt, v_, e_ in atomic_facts(t_, o_):
                            if not _says_nonempty(e_, v_, lookups):
                                bad_c.append(('' if v_ else 'not ') + unparse(e_))
                    check.ob('C05.R1', '%s::sink(%s)::not-skipped-when-placeholders-exist' % (san.key, attr), not bad_c,
                             '%s:%d' % (san.module.rel, n.lineno),
                             'the rewrite runs whenever the lookup is non-empty' if not bad_c else
                             'the rewrite of self.%s only happens when `%s`: with registered placeholders it is skipped' % (attr, ' and '.join(bad_c)),
                             'one placeholder requested before main() and embedded in a model-level equation')
        check.ob('C05.R1', '%s::sink(%s)::rewritten-by-alias-pass' % (san.key, attr), rewritten, san.where,
                 'self.%s (%s) is rewritten with the alias lookup' % (attr, text_sinks[attr]) if rewritten else
                 'self.%s (%s) is not touched by the alias pass: a placeholder embedded there survives into the final equations' % (attr, text_sinks[attr]),
                 "AddGlobalEquation('W', '', '2*' + hh.GetVariableName('F')) before main()")
    # helpers through which the pass rewrites stored strings: returning the string unchanged needs a sound reason
    for hf in helpers:
        hp = hf.params()
        if hp and hp[0] == 'self':
            hp = hp[1:]
        sp = hp[0]
        lk = hp[1] if len(hp) > 1 else None
        hg = cfgmod.build(hf)

        def sound(e, val):
            """the outcome `val` of test `e` is a sound reason to hand the string back unchanged"""
            if isinstance(e, ast.UnaryOp) and isinstance(e.op, ast.Not):
                return sound(e.operand, not val)
            if isinstance(e, ast.BoolOp) and isinstance(e.op, ast.And):
                rs = [sound(v, val) for v in e.values]
                return (' or '.join(rs) if all(rs) else None) if not val else next((r for r in rs if r), None)
            if isinstance(e, ast.BoolOp) and isinstance(e.op, ast.Or):
                rs = [sound(v, val) for v in e.values]
                return (' or '.join(rs) if all(rs) else None) if val else next((r for r in rs if r), None)
            txt = unparse(e).replace(' ', '')
            if txt in ('type(%s)isnotstr' % sp, 'notisinstance(%s,str)' % sp):
                return 'not a string' if val else None
            if txt in ('type(%s)isstr' % sp, 'isinstance(%s,str)' % sp, 'type(%s)==str' % sp):
                return 'not a string' if not val else None
            if isinstance(e, ast.Call) and call_name(e) == 'any' and len(e.args) == 1 and \
                    isinstance(e.args[0], (ast.GeneratorExp, ast.ListComp)) and len(e.args[0].generators) == 1:
                gen = e.args[0].generators[0]
                lv = target_names(gen.target)
                el = e.args[0].elt
                if not gen.ifs and lk is not None and unparse(gen.iter) in (lk, lk + '.keys()') and isinstance(el, ast.Compare) and \
                        len(el.ops) == 1 and isinstance(el.ops[0], ast.In) and unparse(el.left) in lv and unparse(el.comparators[0]) == sp:
                    return 'no alias occurs in the string' if not val else None
                return None
            if lk is not None and txt in ('len(%s)==0' % lk,):
                return 'empty lookup' if val else None
            if lk is not None and txt in ('len(%s)>0' % lk, 'len(%s)!=0' % lk, lk):
                return 'empty lookup' if not val else None
            return None
        for rn in hg.stmt_nodes(lambda n: isinstance(n.ast, ast.Return)):
            v = rn.ast.value
            if not (isinstance(v, ast.Name) and v.id == sp):
                continue
            ok, why = False, 'unconditional / unrecognised early return of the unmodified string'
            for test, outcome in hg.conditions_at(rn):
                r_ = sound(test, outcome)
                if r_:
                    ok, why = True, r_
            for t in hg.nodes:
                if t.kind == 'for' and hg.dominates(t, rn):
                    # loop over the lookup exhausted without a hit: every iteration tests `alias in s` and returns the replacement
                    lv = target_names(t.ast.target)
                    body_ok = any(isinstance(x, ast.If) and isinstance(x.test, ast.Compare) and isinstance(x.test.ops[0], ast.In) and
                                  unparse(x.test.left) in lv and unparse(x.test.comparators[0]) == sp and
                                  any(isinstance(r, ast.Return) and r.value is not None and any(
                                      isinstance(c, ast.Call) and call_name(c).startswith('replace_token') for c in ast.walk(r.value)) for r in ast.walk(x))
                                  for x in t.ast.body)
                    after = [b for b, l in hg.succ[t.id] if l is False]
                    if body_ok and rn.id in hg.reach(after, include_src=True) and t.ast not in rn.loops:
                        ok, why = True, 'the loop over all aliases found none in the string'
            check.ob('C05.R1', '%s::unchanged-return' % hf.key, ok, '%s:%d' % (hf.module.rel, rn.line),
                     'the string is returned unchanged only because ' + why if ok else
                     'the string can be returned unchanged although it contains a placeholder (%s)' % why,
                     'a global equation that embeds one of several registered placeholders')
    # sector blocks: the pass visits every sector
    all_sectors = any(isinstance(n, ast.For) and 'GetSectors' in unparse(n.iter) and any(
        isinstance(c, ast.Call) and call_name(c) in REWRITERS for c in ast.walk(n)) for n in ast.walk(san_flat.node))
    check.ob('C05.R1', '%s::sink(sector-blocks)::rewritten-by-alias-pass' % san.key, all_sectors, san.where,
             'every sector\'s equation block is rewritten' if all_sectors else 'not every sector block is rewritten', 'any placeholder in a sector equation')
    # the lookup maps each alias to the canonical name of its (sector, variable)
    okmap = any(isinstance(n, ast.Assign) and isinstance(n.targets[0], ast.Subscript) and unparse(n.targets[0].value) in lookups and
                isinstance(n.value, ast.Call) and call_name(n.value) == 'GetVariableName' for n in ast.walk(san_flat.node)) or \
        any(isinstance(n, ast.Assign) and isinstance(n.value, ast.DictComp) and set(target_names(n.targets[0])) & lookups and
            isinstance(n.value.value, ast.Call) and call_name(n.value.value) == 'GetVariableName' for n in ast.walk(san_flat.node))
    check.ob('C05.R1', '%s::lookup-maps-to-canonical-names' % san.key, okmap, san.where,
             'lookup[alias] = sector.GetVariableName(local name)' if okmap else 'the alias lookup is not built from GetVariableName', '')
    # the block-level replacement is token based and reaches blobs as well as simple terms
    from ._common import term_rename
    rt, tstores, all_paths = term_rename(prog)
    check.saw(rt)
    tok = all_paths and all(ok_ for _, ok_, _ in tstores)
    check.ob('C05.R1', '%s::token-level-for-blobs-and-terms' % rt.key, tok, rt.where,
             'aliases are replaced token-wise in opaque and in simple terms' if tok else
             'alias replacement skips opaque terms or is not token based', 'a placeholder inside a complex expression')
    # ---- R2 ----------------------------------------------------------------------------------------
    # the canonical prefix (sector full code) is computed afresh for every sector by one function
    from .C18 import check_full_codes
    check_full_codes(prog, check, rule='C05.R2')
    main = M.methods.get('main')
    if main is None:
        raise AnalysisError('Model.main not found')
    check.saw(main)
    gm = cfgmod.build(main)

    def call_node(name):
        ns = [n for n in gm.stmt_nodes() if n.kind == 'stmt' and any(isinstance(c, ast.Call) and call_name(c) == name for c in ast.walk(n.ast))]
        return ns[0] if ns else None
    order = [('_GenerateFullSectorCodes', '_GenerateEquations', 'full codes before any generation method'),
             ('_GenerateFullSectorCodes', san.name, 'full codes before the alias pass'),
             ('_GenerateEquations', san.name, 'generation (which moves stored text into sector blocks) before the alias pass'),
             (san.name, '_ProcessExogenous', 'alias pass before exogenous definitions enter the sector blocks'),
             (san.name, '_CreateFinalEquations', 'alias pass before the final text'),
             ('_GenerateRegisteredCashFlows', '_CreateFinalEquations', 'registered flows before the final text'),
             ('_ProcessExogenous', '_CreateFinalEquations', 'exogenous processing before the final text'),
             ('_CreateFinalEquations', 'ParseString', 'final text before parsing')]
    for a, b, why in order:
        na, nb = call_node(a), call_node(b)
        ok = na is not None and nb is not None and gm.dominates(na, nb) and na is not nb
        check.ob('C05.R2', '%s::order(%s < %s)' % (main.key, a, b), ok, main.where,
                 why if ok else 'required order violated or a phase is missing: ' + why, 'any model using placeholders / exogenous text')
    # the step-by-step pipeline (a list of phases run one after the other) obeys the same order: the phases are read off the list
    # operations of the function that builds it (append = at the end, insert(0, ..) = at the front)
    for pf in M.methods.values():
        ops = []
        for st_ in ast.walk(pf.node):
            if isinstance(st_, ast.Expr) and isinstance(st_.value, ast.Call) and isinstance(st_.value.func, ast.Attribute) and \
                    st_.value.func.attr in ('append', 'insert') and isinstance(st_.value.func.value, ast.Attribute) and \
                    st_.value.func.value.attr == 'RunSteps' and st_.value.args and isinstance(st_.value.args[-1], ast.Dict):
                refs = [v_.attr for v_ in st_.value.args[-1].values if isinstance(v_, ast.Attribute) and isinstance(v_.value, ast.Name)
                        and v_.value.id == 'self']
                if len(refs) != 1:
                    continue
                pos = None
                if st_.value.func.attr == 'insert':
                    k_ = st_.value.args[0]
                    pos = k_.value if isinstance(k_, ast.Constant) and isinstance(k_.value, int) else 'unknown'
                ops.append((st_.lineno, refs[0], pos))
        if len(ops) < 4:
            continue
        seq, unknown = [], False
        for _ln, ref_, pos_ in sorted(ops):
            if pos_ is None:
                seq.append(ref_)
            elif pos_ == 'unknown':
                unknown = True
            else:
                seq.insert(pos_ if pos_ >= 0 else max(len(seq) + pos_, 0), ref_)
        check.saw(pf)

        def first(nm_):
            return seq.index(nm_) if nm_ in seq else None

        gen_names = [x_ for x_ in seq if 'GenerateEquation' in x_]
        fin = first('_CreateFinalEquations')
        codes = first('_GenerateFullSectorCodes')
        sans = [i_ for i_, x_ in enumerate(seq) if x_ == san.name]
        gen = first(gen_names[0]) if gen_names else None
        conds = [
            ('full codes before every alias pass', codes is not None and bool(sans) and all(codes < i_ for i_ in sans)),
            ('an alias pass between generation and the final text', gen is not None and fin is not None and any(gen < i_ < fin for i_ in sans)),
            ('registered flows and exogenous definitions before the final text',
             fin is not None and all(first(x_) is not None and first(x_) < fin for x_ in ('_GenerateRegisteredCashFlows', '_ProcessExogenous'))),
        ]
        for why_, ok_ in conds:
            check.ob('C05.R2', '%s::step-order(%s)' % (pf.key, why_), ok_ and not unknown, pf.where,
                     why_ if (ok_ and not unknown) else 'the phases of the step-by-step pipeline are %s: not %s' % (seq, why_),
                     'a model built step by step (the GUI path) with a placeholder in a supplier equation')
    # ---- R3 ----------------------------------------------------------------------------------------
    cf = S.methods.get('_CreateFinalEquations')
    if cf is None:
        raise AnalysisError('Sector._CreateFinalEquations not found')
    check.saw(cf)
    cf = flatten(prog, cf)
    csub = single_assign_subst(cf.node)
    gcf = cfgmod.build(cf)

    def all_variables(it):
        txt = unparse(resolve_expr(it, csub))
        return 'GetEquationList' in txt or 'GetVariables' in txt or 'Equations' in txt
    ok = False
    lkname = None
    # lookup[v] = self.GetVariableName(v) for every variable: loop form or dict comprehension
    for n in ast.walk(cf.node):
        if isinstance(n, ast.For):
            v = target_names(n.target)[:1]
            for a_ in ast.walk(n):
                if isinstance(a_, ast.Assign) and isinstance(a_.targets[0], ast.Subscript) and v and unparse(a_.targets[0].slice) == v[0] and \
                        isinstance(a_.value, ast.Call) and call_name(a_.value) == 'GetVariableName' and a_.value.args and unparse(a_.value.args[0]) == v[0]:
                    facts = [f_ for f_ in gcf.conditions_at(gcf.node_of(a_))]
                    filt = bool(facts) or any(isinstance(x, ast.Break) for x in ast.walk(n))
                    ok = all_variables(n.iter) and not filt
                    lkname = unparse(a_.targets[0].value)
        if isinstance(n, ast.Assign) and isinstance(n.value, ast.DictComp) and len(n.value.generators) == 1 and \
                len(n.targets) == 1 and isinstance(n.targets[0], ast.Name):
            gen = n.value.generators[0]
            v = target_names(gen.target)[:1]
            if v and unparse(n.value.key) == v[0] and isinstance(n.value.value, ast.Call) and call_name(n.value.value) == 'GetVariableName' \
                    and n.value.value.args and unparse(n.value.value.args[0]) == v[0]:
                ok = all_variables(gen.iter) and not gen.ifs and not gcf.conditions_at(gcf.node_of(n))
                lkname = n.targets[0].id
    check.ob('C05.R3', '%s::lookup-covers-all-variables' % cf.key, ok, cf.where,
             'lookup[local] = canonical name for every variable of the sector' if ok else
             'the qualification lookup is built from a subset of the variables', 'an equation referring to a variable left out')
    def lookup_arg(c):
        if len(c.args) >= 2:
            return c.args[1]
        for kw_ in c.keywords:
            if kw_.arg == 'lookup':
                return kw_.value
        return None
    applied = any(isinstance(c, ast.Call) and call_name(c) == 'replace_token_from_lookup' and lookup_arg(c) is not None and
                  unparse(lookup_arg(c)) == lkname for c in ast.walk(cf.node))
    check.ob('C05.R3', '%s::token-level-qualification' % cf.key, applied, cf.where,
             'right-hand sides are qualified with the token-level replacer' if applied else 'right-hand sides are not qualified token-wise with the full lookup',
             'a variable whose name is a prefix of another')
    row_appends = [c for c in ast.walk(cf.node) if isinstance(c, ast.Call) and call_name(c) == 'append' and c.args and
                   isinstance(resolve_expr(c.args[0], csub), ast.Tuple)]
    lhs = bool(row_appends)
    for c in row_appends:
        tup = resolve_expr(c.args[0], csub)
        e0 = tup.elts[0] if tup.elts else None
        lhs = lhs and isinstance(e0, ast.Call) and call_name(e0) == 'GetVariableName'
    check.ob('C05.R3', '%s::canonical-left-hand-side' % cf.key, lhs, cf.where,
             'each row is (canonical name, qualified rhs, description)' if lhs else 'the left-hand side is not the canonical name', 'any variable')

    def emptiness(e, val):
        """True when the outcome says "the right-hand side is not empty" (the only reason a row may depend on)"""
        txt = unparse(resolve_expr(e, csub)).replace(' ', '')
        if 'strip()' not in txt:
            return False
        if txt.startswith('len(') and (txt.endswith('==0')):
            return val is False
        if txt.startswith('len(') and (txt.endswith('>0') or txt.endswith('!=0') or txt.endswith('>=1')):
            return val is True
        if txt.endswith(".strip()==''"):
            return val is False
        if txt.endswith(".strip()!=''") or txt.endswith('.strip()'):
            return val is True
        return False
    okskip = bool(row_appends)
    for c in row_appends:
        for test, outcome in gcf.conditions_at(gcf.node_of(stmt_of(c))):
            for txt, val, e in atomic_facts(test, outcome):
                if not emptiness(e, val):
                    okskip = False
    check.ob('C05.R3', '%s::no-variable-dropped' % cf.key, okskip, cf.where,
             'only empty right-hand sides are skipped' if okskip else 'a variable with a non-empty equation can be dropped from the final text',
             'every variable is defined exactly once')
    # ---- R4 ----------------------------------------------------------------------------------------
    units = []
    for ci in prog.subclasses('Sector'):
        if not prog.is_core(ci.module.rel):
            continue
        units.append((ci, effects.run_unit(prog, ci)))
    # variables the external sector registers for every currency (ExternalSector.RegisterCurrency)
    def cur_norm(v):
        return Str(['<CUR>' if (not isinstance(p, str) and (p.kind == 'currency' or (p.kind == 'param' and p.args[0] == 'currency'))) else p
                    for p in v.parts]).key()
    ext_created = {}
    xs = prog.classes.get('ExternalSector')
    if xs is not None and 'RegisterCurrency' in xs.methods:
        itx = effects.run_method(prog, xs, 'RegisterCurrency', phase='prim', self_role=EXTSECTOR)
        check.saw(xs.methods['RegisterCurrency'])
        for e in itx.effects:
            if e.kind == 'def' and e.mode == 'create':
                ext_created.setdefault(e.role.key(), set()).add(cur_norm(e.name))
    seen = set()
    n4 = 0
    for ci, it in units:
        created = {}
        for e in it.effects:
            if e.kind == 'def' and e.mode == 'create':
                created.setdefault(e.role.key(), set()).add(e.name.key())
            if e.kind == 'cashflow' and e.rhs is not None:
                from ..ledger import strip_sign
                created.setdefault(e.role.key(), set()).add(strip_sign(e.term).key())
        for e in it.effects:
            if e.kind == 'def' and e.rhs is not None and not e.rhs.is_empty():
                rhs = e.rhs
            elif e.kind == 'cashflow' and e.rhs is not None and not e.rhs.is_empty():
                rhs = e.rhs
            else:
                continue
            fn = e.via[-1] if e.via else ci.name
            if e.role != SELF and e.role.kind not in ('ext',):
                # templates written into another sector: their local names live in that sector; only full names checked
                owner_known = False
            else:
                owner_known = True
            toks = Reader(e.role).tokenize(rhs)
            for i, (k, v) in enumerate(toks):
                if k != 'NAME':
                    continue
                if v.is_literal():
                    nm = v.literal()
                    if nm in ('k', 't') and i + 1 < len(toks):
                        pass
                    if nm == 'k' or nm in ALLOWED_FUNCS or nm == 'EXOGENOUS':
                        continue
                    if '__' in nm:
                        key = '%s::%s::literal-fullname(%s)' % (e.where.split(':')[0], fn, nm)
                        if key not in seen:
                            seen.add(key)
                            n4 += 1
                            check.ob('C05.R4', key, False, e.where, 'framework template names the full variable %s literally' % nm,
                                     'embedding in a multi-country model (country prefix)')
                        continue
                if not owner_known:
                    continue
                if any(h.kind in ('elem', 'opaque') for h in v.holes()):
                    continue      # user-supplied text / element-supplied names
                have = created.get(e.role.key(), set())
                ok = v.key() in have or cur_norm(v) in ext_created.get(e.role.key(), set())
                key = '%s::%s::identifier(%s in %s)' % (e.where.split(':')[0], fn, v.show(), (e.name.show() if e.name is not None else e.term.show()))
                if key in seen:
                    continue
                seen.add(key)
                n4 += 1
                check.ob('C05.R4', key, ok, e.where,
                         'identifier is a variable this class creates on the same sector' if ok else
                         'identifier %s is used in a template of %s but no constructor or generation method of the class creates it on this sector: '
                         'the equation dangles unless another object happens to create it' % (v.show(), ci.name),
                         'a model in which that other object is absent')
    # ---- R5: names are classified by the canonical separator ------------------------------------------------------
    # A full name is <full code> + '__' + <local name>; every test in the package that asks whether a name (or a code) contains a run of
    # underscores decides "local or already qualified" (utils.is_local_variable and its callers in external.py) or guards the separator
    # itself (Sector.GetVariableName, AddVariable).  Such a test with any other run ('_', '___') classifies ordinary names like
    # SUP_GOOD as full names: they are then written unqualified into another sector's equations.  Only forms whose literal is
    # read off the syntax are judged; other spellings of the test are not.
    n5 = 0
    for fi in prog.all_functions():
        if not prog.is_core(fi.module.rel):
            continue
        for n in ast.walk(fi.node):
            lit_ = None
            if isinstance(n, ast.Compare) and len(n.ops) == 1 and isinstance(n.ops[0], (ast.In, ast.NotIn)) and \
                    isinstance(n.left, ast.Constant) and isinstance(n.left.value, str) and \
                    isinstance(n.comparators[0], (ast.Name, ast.Attribute)):
                lit_ = n.left.value
            elif isinstance(n, ast.Call) and isinstance(n.func, ast.Attribute) and n.func.attr in ('find', 'count', 'index', 'rfind') and \
                    len(n.args) == 1 and isinstance(n.args[0], ast.Constant) and isinstance(n.args[0].value, str) and \
                    isinstance(n.func.value, (ast.Name, ast.Attribute)):
                lit_ = n.args[0].value
            if lit_ is None or not lit_ or set(lit_) != {'_'}:
                continue
            n5 += 1
            check.saw(fi)
            check.ob('C05.R5', '%s::separator-test(%s)' % (fi.key, unparse(n)), lit_ == '__', '%s:%d' % (fi.module.rel, n.lineno),
                     "the test uses the canonical separator '__'" if lit_ == '__' else
                     "names are classified by %r instead of the separator '__': a local name such as SUP_GOOD or LAG_F is taken for a full "
                     "name (or a legal code is rejected), and is then written unqualified into the equations of another sector" % lit_,
                     "a flow variable named GOLD_BUY handed to the external sector's money-transfer helpers")
    check.floor('C05.R5', 1)
    check.floor('C05.R1', 8)
    check.floor('C05.R2', 8)
    check.floor('C05.R3', 4)
    check.floor('C05.R4', 25)
