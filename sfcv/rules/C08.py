"""C08 - results do not depend on the order in which sectors are declared (decided structural clauses).

Declaration order only changes the order in which the generation methods run and in which loops visit sectors.
Sums are order-free; what is not:

R1 generation-phase non-interference : (a) a variable that some discovery loop tests for by name (presence read) must not
                            be created only during another object's generation method (presence-changing write with a
                            unifiable name): whether the loop sees it would depend on who runs first;
                            (b) two instances of one class must not both define / overwrite the same constant-named
                            variable on a third sector (define-if-empty: first wins; overwrite: last wins).
R2 first-match selection  : a loop over a sector collection that stops at the first match (break / return) without a
                            uniqueness check selects by list order."""
import ast
import re

from ..loader import AnalysisError
from .. import effects
from ..strdom import Str, Hole, SELF
from ..algebra import short, mentions_elem

TECHNIQUE = ('static analysis: read/write sets of every generation method over the extracted effect traces (presence reads '
             'in discovery loops vs presence-changing and constant-named writes), template unification with a commutation table; '
             'self-discovery and truncating-break detection on the effect traces; object-counter uses classified on flattened functions')
EXPLANATION = (
    'From the effect trace of every generation method the analysis computes which variables it creates for the first time '
    '(not already created by the constructor chain) or defines on other sectors, and which variable names discovery loops test '
    'for. A creation whose name template can coincide with a tested name on a sector another object visits makes the result '
    'depend on processing order; so does a constant-named definition made on a shared counterparty by two instances, and a '
    'first-match search. Accumulating writes (sums) and idempotent create-if-absent commute and are ignored.')

OWN, FREE = 'O', 'F'


def skeleton(s):
    """template -> list of ('L', text) | ('O',) own code | ('C',) code of another sector | ('F',) free name"""
    out = []
    for p in s.parts:
        if isinstance(p, str):
            out.append(('L', p))
        elif p.kind == 'param' and p.args[0] == 'code':
            out.append((OWN,))
        elif p.kind == 'fullcode' and p.args[0] == SELF:
            out.append((OWN,))
        elif p.kind == 'code' and len(p.args) and getattr(p.args[0], 'kind', '') == 'parent' and p.args[0].args and p.args[0].args[0] == SELF:
            out.append((OWN,))          # own country code: part of the own full code
        elif p.kind in ('code', 'fullcode'):
            out.append(('C',))
        else:
            out.append((FREE,))
    # own country code + '_' + own code is one own (full) code
    changed = True
    while changed:
        changed = False
        for i in range(len(out) - 2):
            if out[i][0] == OWN and out[i + 1] == ('L', '_') and out[i + 2][0] == OWN:
                out[i:i + 3] = [(OWN,)]
                changed = True
                break
    return out


def alternatives(s):
    """expand phi holes into plain templates"""
    outs = [[]]
    for p in s.parts:
        if isinstance(p, Hole) and p.kind == 'phi' and isinstance(p.args[1], Str) and isinstance(p.args[2], Str):
            new = []
            for alt in (p.args[1], p.args[2]):
                for a2 in alternatives(alt):
                    for o in outs:
                        new.append(o + list(a2.parts))
            outs = new
        else:
            for o in outs:
                o.append(p)
    return [Str(o) for o in outs]


def unify(a, b):
    """can the two name templates denote the same variable name for two *different* objects?"""
    for x in alternatives(a):
        for y in alternatives(b):
            if unify1(skeleton(x), skeleton(y)):
                return True
    return False


def unify1(sa, sb):
    def rx(sk):
        return '^' + ''.join(re.escape(t[1]) if t[0] == 'L' else '([A-Za-z0-9_]+?)' for t in sk) + '$'

    def sample(sk, tag):
        return ''.join(t[1] if t[0] == 'L' else ('Q%s%d' % (tag, i)) for i, t in enumerate(sk))
    own_a = [i for i, t in enumerate(sa) if t[0] == OWN]
    own_b = [i for i, t in enumerate(sb) if t[0] == OWN]
    lit_a = [t for t in sa if t[0] == 'L']
    lit_b = [t for t in sb if t[0] == 'L']
    # identical shapes: an own code never equals the own code of another object nor the code of another sector
    if len(sa) == len(sb) and lit_a == lit_b and all((x[0] == 'L') == (y[0] == 'L') for x, y in zip(sa, sb)):
        for x, y in zip(sa, sb):
            if x[0] != 'L' and {x[0], y[0]} <= {OWN, 'C'} and OWN in (x[0], y[0]):
                return False
    return re.match(rx(sa), sample(sb, 'b')) is not None or re.match(rx(sb), sample(sa, 'a')) is not None


def run(prog, check):
    check.explanation = EXPLANATION
    check.not_decided = 'bit-identical floating point under reordered summation'
    check.assumptions = ['market / sector codes are unique within a currency zone (own-code holes of two objects never coincide)']
    classes = [ci for ci in prog.subclasses('Sector') if prog.is_core(ci.module.rel)]
    units = []
    seen_m = set()
    for ci in classes:
        m = prog.resolve_method(ci, '_GenerateEquations')
        if m is None:
            continue
        it = effects.run_unit(prog, ci)
        units.append((ci, m, it))
    writes, reads, consts = [], [], []
    for ci, m, it in units:
        ctor_names = {e.name.key() for e in it.effects if e.phase == 'ctor' and e.kind == 'def' and e.role == SELF}
        gen = [e for e in it.effects if e.phase == 'gen']
        for e in gen:
            fn = e.via[-1] if e.via else m.qualname
            # presence-changing writes
            if e.kind == 'def' and e.mode == 'create':
                if e.role == SELF and e.name.key() in ctor_names:
                    pass          # overwrite of a variable that exists since construction: presence unchanged
                elif e.role.kind == 'ext':
                    pass          # framework singletons (FX / XR / GOLD): idempotent set-up, never discovered by loops
                else:
                    writes.append((ci, fn, e, 'create'))
            if e.kind == 'cashflow' and e.rhs is not None and not e.rhs.is_empty() and e.role != SELF:
                from ..ledger import strip_sign
                nm = strip_sign(e.term)
                writes.append((ci, fn, e, 'define-if-empty'))
                if not any(t[0] in (OWN,) for alt in alternatives(nm) for t in skeleton(alt)):
                    consts.append((ci, fn, e, 'define-if-empty', nm))
            if e.kind == 'def' and e.mode == 'set' and e.role != SELF and e.role.kind != 'ext':
                if not any(t[0] == OWN for alt in alternatives(e.name) for t in skeleton(alt)):
                    consts.append((ci, fn, e, 'overwrite', e.name))
            # presence reads in discovery loops
            for g in e.guards:
                if g.cond.kind == 'present' and g.cond.args[0].kind == 'loop':
                    reads.append((ci, fn, g, e))
    # de-duplicate
    def uniq(items, keyf):
        seen, out = set(), []
        for x in items:
            k = keyf(x)
            if k not in seen:
                seen.add(k)
                out.append(x)
        return out
    writes = uniq(writes, lambda w: (w[1], w[2].role.key(), (w[2].name or w[2].term).key(), w[3]))
    reads = uniq(reads, lambda r: (r[1], r[2].cond.key()))
    consts = uniq(consts, lambda c: (c[1], c[2].role.key(), c[4].key(), c[3]))
    # ---- R1 (a) --------------------------------------------------------------------------------------
    for ci, fn, e, kind in writes:
        if kind != 'create':
            continue
        check.saw(prog.resolve_method(ci, '_GenerateEquations'))
        hits = []
        for cj, fn2, g, e2 in reads:
            rname = g.cond.args[1]
            if fn2 == fn and e.role != SELF:
                # the same method guards its own create with this very test (create-if-absent on a counterparty)
                if rname.key() == e.name.key():
                    continue
            if e.role == SELF and cj is ci and fn2 == fn:
                continue
            if unify(e.name, rname):
                hits.append('%s tests for %s' % (fn2, rname.show()))
        key = '%s::%s::creates(%s.%s)' % (e.where.split(':')[0], fn, short(e.role.key()), e.name.show())
        check.ob('C08.R1', key, not hits, e.where,
                 'no discovery loop tests for a name this creation can produce' if not hits else
                 'variable %s first comes into existence in this generation method, but %s: whether it is seen depends on which '
                 'object is processed first' % (e.name.show(), '; '.join(hits[:3])),
                 'declaring the discovering market before / after this sector')
    for cj, fn2, g, e2 in reads:
        check.ob('C08.R1', '%s::%s::discovers(%s)' % (e2.where.split(':')[0], fn2, g.cond.args[1].show()), True, e2.where,
                 'presence read in a discovery loop (checked against %d generation-phase creations)' % len([w for w in writes if w[3] == 'create']), '')
    # ---- R1 (a'): a loop that looks for a variable on the sectors of its own country and defines that very variable on the
    # sector running the loop finds itself in a later iteration - unless it stops at the first match.  Whether "itself" comes
    # before or after the sector it was looking for is the declaration order.
    from ..ledger import strip_sign as _strip
    for ci, m, it in units:
        for e in [x for x in it.effects if x.phase == 'gen' and x.role == SELF and x.loops]:
            if e.kind == 'cashflow' and e.rhs is not None and not e.rhs.is_empty():
                made = _strip(e.term)
            elif e.kind == 'def' and e.mode == 'create':
                made = e.name
            else:
                continue
            lk = e.loops[-1][0]
            coll = e.loops[-1][1]
            if coll is None or coll.kind not in ('country_sectors', 'zone_sectors', 'model_sectors'):
                continue
            looked = [g_ for g_ in e.guards if g_.cond.kind == 'present' and mentions_elem(g_.cond.key(), lk) and len(g_.cond.args) > 1
                      and unify(made, g_.cond.args[1])]
            if not looked:
                continue
            stops = any(b_[0] == lk and b_[3] for b_ in it.breaks)
            excluded = any(g_.cond.kind in ('is_self', 'same_object', 'sameid') and mentions_elem(g_.cond.key(), lk) for g_ in e.guards)
            key = '%s::%s::finds-its-own-definition(%s)' % (e.where.split(':')[0], ci.name, made.show())
            check.ob('C08.R1', key, stops or excluded, e.where,
                     'the loop is left at the first match (or skips the sector itself)' if (stops or excluded) else
                     'the loop over %s looks for %s and defines it on the sector running the loop, then goes on: if that sector comes later in '
                     'the list it is found as well and the flow is booked on it a second time' % (lk, made.show()),
                     'the sector that receives the flow declared before / after the sector that pays it')
    # ---- R1 (b) --------------------------------------------------------------------------------------
    for ci, fn, e, kind, nm in consts:
        key = '%s::%s::%s(%s.%s)' % (e.where.split(':')[0], fn, kind, short(e.role.key()), nm.show())
        check.ob('C08.R1', key, False, e.where,
                 'a second %s in the same zone %s the same variable %s on the same sector: %s' % (
                     ci.name, 'defines' if kind == 'define-if-empty' else 'overwrites', nm.show(),
                     'the first one processed wins' if kind == 'define-if-empty' else 'the last one processed wins'),
                 'two %s objects declared in either order' % ci.name)
    # ---- R1 (c): a generation method must not overwrite one of its own variables that other objects add to ----------
    foreign = []      # contributions made on *other* sectors during generation: (class, fn, effect, kind, name)
    own_over = []     # overwrites of own variables during generation
    for ci, m, it in units:
        for e in [x for x in it.effects if x.phase == 'gen']:
            fn = e.via[-1] if e.via else m.qualname
            if e.kind == 'def' and e.role != SELF and e.role.kind != 'ext' and e.mode == 'addterm':
                foreign.append((ci, fn, e, 'adds a term to', e.name))
            if e.kind == 'def' and e.role == SELF and e.mode in ('create', 'set') and not e.loops:
                own_over.append((ci, fn, e))
    own_over = uniq(own_over, lambda w: (w[1], w[2].name.key(), w[2].mode))
    foreign = uniq(foreign, lambda c: (c[1], c[2].role.key(), c[4].key()))
    for ci, fn, e in own_over:
        hits = []
        for cj, fn2, e2, what, nm in foreign:
            if cj is ci and fn2 == fn:
                continue
            if unify(e.name, nm):
                hits.append('%s %s %s on the sectors it visits' % (fn2, what, nm.show()))
        key = '%s::%s::overwrites-own(%s)' % (e.where.split(':')[0], fn, e.name.show())
        check.ob('C08.R1', key, not hits, e.where,
                 'no other object contributes to this variable during generation' if not hits else
                 'this generation method (re)defines its own %s, while %s: if that object is processed first its contribution is wiped out'
                 % (e.name.show(), '; '.join(hits[:2])), 'declaring the market before / after this sector')
    # ---- R3: creation order (object IDs) is only ever compared for equality --------------------------------
    from .C17 import id_uses
    n_id = 0
    for f, x, kind, ok in id_uses(prog):
        if True:
            if True:
                if kind.startswith('equality') or not ok:
                    n_id += 1
                    check.ob('C08.R3', '%s::ID-compare(%s)' % (f.key, kind), ok, '%s:%d' % (f.module.rel, x.lineno),
                             'object IDs (which follow declaration order) are compared for identity only' if ok else
                             'object IDs follow declaration order and are used for %s: the outcome depends on the order of declaration' % kind,
                             'the same sectors declared in another order')
    # registered cash flows are deferred, never filtered: the registering method records every call
    from ._common import registration_always_recorded
    for rf_, ok_, why_ in registration_always_recorded(prog, 'RegisteredCashFlows', 3):
        check.saw(rf_)
        check.ob('C08.R3', '%s::flow-registration-always-recorded' % rf_.key, ok_, rf_.where, why_, 'a flow registered by a sector that is processed before the sector creating the amount variable')
    check.floor('C08.R3', 5)
    # ---- R1 (c): the income-exclusion registry is read whenever a flow is booked - by whichever object's generation runs
    # first; an entry made during a generation method exists or not depending on that order
    n_ex = 0
    for ci, m, it in units:
        for e in it.effects:
            if e.kind == 'exclusion':
                n_ex += 1
                ok_x = e.phase != 'gen'
                check.ob('C08.R1', '%s::%s::exclusion-registered-at-construction(%s)' % (e.where.split(':')[0], ci.name, e.args[1].show() if hasattr(e.args[1], 'show') else e.args[1]),
                         ok_x, e.where,
                         'the exclusion is registered when the sector is created: every generation method sees it' if ok_x else
                         'the exclusion is registered during the generation method: a market generated before this sector books the flow as income',
                         'the goods market declared before / after the household')
    # ---- R2 ----------------------------------------------------------------------------------------
    n2 = 0
    for ci, m, it in units:
        seen_b = set()
        for lk, guards, where, selects in it.breaks:
            if not selects:
                continue       # the search only answers "is there one": nothing is chosen by position
            fnq = m.qualname
            key = '%s::%s::first-match(%s | %s)' % (where.split(':')[0], ci.name, lk, ','.join(sorted(repr(g) for g in guards if mentions_elem(g.key(), lk))))
            if key in seen_b:
                continue
            seen_b.add(key)
            n2 += 1
            check.ob('C08.R2', key, False, where,
                     'the loop over %s stops at the first sector satisfying the test: with two candidates the one declared first is chosen' % lk,
                     'two candidate sectors declared in either order')
    from ._common import truncating_breaks
    for ci, m, it in units:
        for lk_, g_, where_ in truncating_breaks(it):
            key = '%s::%s::loop-cut-short(%s)' % (where_.split(':')[0], ci.name, lk_)
            n2 += 1
            check.ob('C08.R2', key, False, where_,
                     'the loop over %s is left at the first element for which %s: which sectors are processed depends on where that element '
                     'was declared' % (lk_, ' and '.join(repr(x) for x in g_ if mentions_elem(x.key(), lk_)) or 'the test holds'),
                     'the same sectors declared before / after that object')
    # searches that enforce uniqueness are C11.R4; list the loops examined
    n_loops = 0
    for ci, m, it in units:
        lks = {l[0] for e in it.effects if e.phase == 'gen' for l in e.loops}
        n_loops += len(lks)
    check.ob('C08.R2', 'loops-examined', n_loops >= 8, 'sfc_models', '%d generation-phase loops examined, %d stop at the first match' % (n_loops, n2), '')
    check.floor('C08.R1', 15)
    check.floor('C08.R2', 1)
    check.control('order-dependence control (a sector creating a discovered variable during generation is flagged)', _control(prog))


def _control(prog):
    a = Str(['DEM_', Hole('field', 'LabourInputName')])
    b = Str(['DEM_', Hole('param', 'code')])
    c = Str(['SUP_', Hole('param', 'code')])
    return unify(a, b) and not unify(c, Str(['SUP_', Hole('param', 'code')])) and not unify(a, c)
