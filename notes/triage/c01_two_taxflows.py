import warnings; warnings.simplefilter('ignore')
from sfc_models.objects import *
mod = Model(); c = Country(mod,'CA'); gov = ConsolidatedGovernment(c,'GOV'); hh = Household(c,'HH')
bus = FixedMarginBusiness(c,'BUS'); tf = TaxFlow(c,'TF',taxrate=.2); tf2 = TaxFlow(c,'TF2',taxrate=.1); Market(c,'LAB'); Market(c,'GOOD')
gov.SetExogenous('DEM_GOOD','[20.,]*20'); mod.EquationSolver.MaxTime=3
mod.main()
print([sum(x) for x in zip(*[mod.GetTimeSeries(s+'__F') for s in ('GOV','HH','BUS')])])
print(hh.EquationBlock['F'].RHS(), '|', hh.EquationBlock['T'].RHS(), '|', gov.EquationBlock['F'].RHS(), '|', gov.EquationBlock['T'].RHS())
