"""C12 - equation-building arithmetic preserves value (decided structural clauses).

R1 opaque terms keep coefficient 1 : no store to `.Constant` of a term that may be opaque (the renderer ignores it).
R2 renderer per sign class         : abstractly evaluating Term.__str__ over {0, 1, -1, c>0, c<0} yields text whose
                                     algebraic reading is C*T.
R3 joining terms                   : create_equation_from_terms does not store into its parameter and removes a sign
                                     only as a prefix, never by global replacement.
R4 RHS assembly                    : strips one leading '+' only; empty renders as a zero literal.
R5 sign parsing (thorough)         : abstract evaluation of the Term constructor over prefix classes {+,-,none} x
                                     {no bracket, bracket with inner +,-,none} gives Constant = product of the signs and
                                     the stored text without the signs and the one bracket pair.
R8 simple terms                    : a three-token text is accepted as a simple term only under `operator in ('*', '/')`."""
import ast

from .. import cfg as cfgmod
from ..inline import flatten
from ..loader import AnalysisError, unparse, call_name
from ..dataflow import AliasAnalysis, ALIAS, mutations_in, own_exprs, linform, target_names

TECHNIQUE = ("static analysis: branch-outcome facts with definition chasing for coefficient stores, symbolic path execution of the renderer (joined text, one stripped '+', zero literal), finite sign-class abstract evaluation of the renderer and the flattened constructor (AST interpretation over class representatives), flow-sensitive alias analysis of the parameter list, verbatim-text derivation of the stored term; branch-outcome facts for the three-token acceptance and for the sign cut")
EXPLANATION = (
    'The coefficient of an opaque (blob) term is never rendered, so any store to it is lossy: every store to .Constant must '
    'be control-dependent on the term being non-opaque. The renderer is evaluated abstractly per sign class and its text is '
    're-read algebraically (must equal C*T). The term joiner must work on a copy and strip only a prefix sign; the RHS '
    'assembly strips one leading "+" and renders the empty sum as zero. Value preservation for all addition sequences '
    'follows from these by induction on the sequence, but only the clauses are decided here.')


def find_term_class(prog):
    t = prog.classes.get('Term')
    e = prog.classes.get('Equation')
    if t is None or e is None:
        raise AnalysisError('Term / Equation classes not found')
    return t, e


def run(prog, check):
    check.explanation = EXPLANATION
    check.not_decided = ('value preservation for all addition sequences and all leading expressions (operator precedence of '
                         'an arbitrary blob); the tokenizer-based simple-term recognition')
    check.assumptions = ['terms are rendered only through Term.__str__ / Equation.GetRightHandSide']
    T, E = find_term_class(prog)
    render = T.methods.get('__str__')
    if render is None:
        raise AnalysisError('Term.__str__ not found')
    check.saw(render)
    render = flatten(prog, render)
    # does the renderer ignore the coefficient of a blob?
    blob_ignores = False
    for n in ast.walk(render.node):
        if isinstance(n, ast.If) and isinstance(n.test, ast.Attribute) and n.test.attr == 'IsBlob':
            rets = [r for st in n.body for r in ast.walk(st) if isinstance(r, ast.Return)]
            if rets and not any(isinstance(x, ast.Attribute) and x.attr == 'Constant' for r in rets for x in ast.walk(r)):
                blob_ignores = True
    check.note('renderer ignores the coefficient of opaque terms: %s' % blob_ignores)
    # ---- R1 ----------------------------------------------------------------------------------------
    n1 = 0
    from ..cfg import atomic_facts

    def nonblob_at(g_, node_, obj_, depth=0):
        """reaching the node implies that `obj_` is not an opaque term: a branch outcome says so, or `obj_` is a local
        every non-None definition of which was taken from an object for which it holds"""
        for test, outcome in g_.conditions_at(node_):
            for _, v, e in atomic_facts(test, outcome):
                if isinstance(e, ast.Attribute) and e.attr == 'IsBlob' and unparse(e.value) == obj_ and v is False:
                    return True
                if isinstance(e, ast.Compare) and len(e.ops) == 1 and isinstance(e.left, ast.Attribute) and e.left.attr == 'IsBlob' and \
                        unparse(e.left.value) == obj_ and isinstance(e.comparators[0], ast.Constant) and \
                        isinstance(e.ops[0], (ast.Is, ast.Eq)) and (e.comparators[0].value is (not v)):
                    return True
        if depth > 2 or not obj_.isidentifier():
            return False
        defs = [d for d in g_.stmt_nodes() if d.kind == 'stmt' and isinstance(d.ast, ast.Assign) and
                obj_ in target_names(d.ast.targets[0])]
        nn = [d for d in defs if not (isinstance(d.ast.value, ast.Constant) and d.ast.value.value is None)]
        if not nn or len(nn) != len(defs):
            not_none = any(v is False and isinstance(e, ast.Compare) and len(e.ops) == 1 and isinstance(e.ops[0], ast.Is) and
                           unparse(e.left) == obj_ and unparse(e.comparators[0]) == 'None'
                           for test, outcome in g_.conditions_at(node_) for _, v, e in atomic_facts(test, outcome))
            if not nn or not not_none:
                return False
        return all(isinstance(d.ast.value, ast.Name) and nonblob_at(g_, d, d.ast.value.id, depth + 1) for d in nn)
    for f_raw in prog.all_functions():
        f = flatten(prog, f_raw)
        stores = []
        for n in ast.walk(f.node):
            tg = None
            if isinstance(n, ast.AugAssign):
                tg = n.target
            elif isinstance(n, ast.Assign):
                tg = n.targets[0]
            if isinstance(tg, ast.Attribute) and tg.attr == 'Constant':
                stores.append((n, tg))
        if not stores:
            continue
        g = cfgmod.build(f)
        check.saw(f)
        for n, tg in stores:
            obj = unparse(tg.value)
            if f.cls is T and f.name == '__init__' and obj == 'self':
                # constructor: the blob branch must leave the coefficient at 1
                n1 += 1
                node = g.node_of(n)
                in_blob = _under_blob_test(n, 'is_blob')
                lf = linform(n.value) if isinstance(n, ast.Assign) else None
                ok = (not in_blob) or (lf is not None and set(lf) == {''} and lf[''] == 1)
                check.ob('C12.R1', '%s::ctor-store(%s)' % (f.key, unparse(n)), ok, '%s:%d' % (f.module.rel, n.lineno),
                         'constructor store' if ok else 'an opaque term is created with a coefficient other than 1',
                         'any opaque leading expression')
                continue
            node = g.node_of(n)
            guarded = nonblob_at(g, node, obj)
            n1 += 1
            ok = guarded or not blob_ignores
            check.ob('C12.R1', '%s::coefficient-store(%s)' % (f.key, unparse(n)), ok, '%s:%d' % (f.module.rel, n.lineno),
                     'store is control-dependent on `%s` not being opaque' % obj if guarded else
                     ('coefficient of a possibly opaque term `%s` is changed but never rendered' % obj),
                     "leading expression 'x' followed by AddTerm('x'): renders 'x' instead of x+x")
    # ---- R2 ----------------------------------------------------------------------------------------
    for label, v in (('zero', 0.0), ('plus-one', 1.0), ('minus-one', -1.0), ('positive', 2.5), ('negative', -2.5)):
        try:
            txt = abstract_render(render.node, v)
        except AnalysisError as e:
            raise
        coef = read_coefficient(txt)
        ok = coef is not None and abs(coef - v) < 1e-12
        check.ob('C12.R2', '%s::render(%s)' % (render.key, label), ok, render.where,
                 'Constant=%r renders as %r, algebraic reading %s*T' % (v, txt, coef),
                 'a term added %s times' % {'zero': 'and cancelled', 'plus-one': 'once', 'minus-one': 'once negatively',
                                            'positive': 'several', 'negative': 'several negative'}[label])
    # ---- R3 ----------------------------------------------------------------------------------------
    defs = prog.definitions_of('create_equation_from_terms')
    if len(defs) != 1:
        raise AnalysisError('create_equation_from_terms: %d definitions' % len(defs))
    j = defs[0]
    check.saw(j)
    g = cfgmod.build(j)
    p = j.params()[0]
    aa = AliasAnalysis(g, j.node, prog, None, state_params=(p,))
    nm = 0
    for n in g.stmt_nodes():
        for ex in own_exprs(n):
            if n.kind == 'stmt' and isinstance(ex, (ast.For, ast.While, ast.If, ast.Try, ast.With)):
                continue
            for kind, recv, mn in mutations_in(ex):
                if kind == '+=' and isinstance(recv, ast.Name):
                    continue
                # a rebinding `terms = list(terms)` makes the name fresh afterwards
                env = aa.env_at(n)
                if isinstance(recv, ast.Name) and recv.id == p:
                    tags = env.get(p, {ALIAS}) if p in env else {ALIAS}
                else:
                    tags = aa.tags(recv, n)
                bad = ALIAS in tags
                nm += 1
                check.ob('C12.R3', '%s::%s(%s)' % (j.key, kind, unparse(recv)), not bad, '%s:%d' % (j.module.rel, getattr(mn, 'lineno', n.line)),
                         "writes into the caller's list" if bad else 'writes into a private copy',
                         'a caller that reuses its term list after the call')
    for n in ast.walk(j.node):
        if isinstance(n, ast.Call) and call_name(n) in ('replace', 'translate') and n.args and isinstance(n.args[0], ast.Constant) \
                and n.args[0].value in ('+', '-'):
            nm += 1
            check.ob('C12.R3', '%s::global-sign-replacement(%r)' % (j.key, n.args[0].value), False, '%s:%d' % (j.module.rel, n.lineno),
                     'removes every %r of the term, not only the leading sign' % n.args[0].value, "['x+y', '-z'] -> 'xy-z'")
    # positive form: the leading sign is removed as a prefix
    prefix = [n for n in ast.walk(j.node) if isinstance(n, ast.Subscript) and isinstance(n.slice, ast.Slice) and
              n.slice.lower is not None and unparse(n.slice.lower) == '1' and n.slice.upper is None]
    lstrip = [n for n in ast.walk(j.node) if isinstance(n, ast.Call) and call_name(n) == 'lstrip']
    check.ob('C12.R3', '%s::leading-sign-removed-as-prefix' % j.key, bool(prefix or lstrip) or nm == 0, j.where,
             'the first term loses only its leading sign' if (prefix or lstrip) else 'no prefix removal found', "['x+y','-z']")
    # ... and only a '+' is removed: the statement that cuts the first character off is control dependent on that character being '+'
    from ..cfg import atomic_facts as _af3
    jf = flatten(prog, j)
    gj = cfgmod.build(jf)
    for nd in gj.stmt_nodes():
        if nd.kind != 'stmt' or nd.ast is None:
            continue
        cuts = [x_ for x_ in ast.walk(nd.ast) if isinstance(x_, ast.Subscript) and isinstance(x_.slice, ast.Slice) and x_.slice.upper is None and
                x_.slice.step is None and isinstance(x_.slice.lower, ast.Constant) and x_.slice.lower.value == 1 and isinstance(x_.ctx, ast.Load)]
        if not cuts:
            continue
        facts = [(v_, e_) for t_, o_ in gj.conditions_at(nd) for _x, v_, e_ in _af3(t_, o_)]
        # a conditional expression around the cut is a condition as well
        for ife in [x_ for x_ in ast.walk(nd.ast) if isinstance(x_, ast.IfExp)]:
            if any(c_ is y_ for c_ in cuts for y_ in ast.walk(ife.body)):
                facts += [(v_, e_) for _x, v_, e_ in _af3(ife.test, True)]
            elif any(c_ is y_ for c_ in cuts for y_ in ast.walk(ife.orelse)):
                facts += [(v_, e_) for _x, v_, e_ in _af3(ife.test, False)]
        # judged only where a condition speaks about the text that is cut (a slice of the list of terms is no cut of a text)
        subj = {unparse(c_.value) for c_ in cuts}
        about = [(v_, e_) for v_, e_ in facts if any(unparse(y_) in subj for y_ in ast.walk(e_))]
        if not about:
            continue
        facts = about

        def says_plus(v_, e_):
            if isinstance(e_, ast.Call) and call_name(e_) == 'startswith' and len(e_.args) == 1 and isinstance(e_.args[0], ast.Constant) and \
                    e_.args[0].value == '+':
                return v_ is True
            if isinstance(e_, ast.Compare) and len(e_.ops) == 1 and isinstance(e_.comparators[0], ast.Constant) and e_.comparators[0].value == '+':
                if isinstance(e_.ops[0], ast.Eq):
                    return v_ is True
                if isinstance(e_.ops[0], ast.NotEq):
                    return v_ is False
            return False
        okp = any(says_plus(v_, e_) for v_, e_ in facts)
        nm += 1
        check.ob('C12.R3', '%s::cut-only-under-plus(%s)' % (j.key, unparse(cuts[0])), okp, '%s:%d' % (j.module.rel, nd.line),
                 "the first character is cut off only when it is '+'" if okp else
                 "the first character of the joined text is cut off without the test that it is '+' (conditions: %s): a leading '-' is lost"
                 % (' and '.join(('' if v_ else 'not ') + unparse(e_) for v_, e_ in facts) or 'none'),
                 "['-x', 'y'] must give -x+y")
    # the returned text is the plain concatenation of the signed terms
    rets = [r for r in ast.walk(j.node) if isinstance(r, ast.Return) and r.value is not None]
    joined = any(isinstance(x, ast.Call) and call_name(x) == 'join' and isinstance(x.func.value, ast.Constant) and x.func.value.value == ''
                 for x in ast.walk(j.node))
    check.ob('C12.R3', '%s::concatenation' % j.key, joined, j.where, "terms are concatenated with ''.join" if joined else
             'terms are not joined by plain concatenation', 'any list')
    # ---- R4 ----------------------------------------------------------------------------------------
    rhs = E.methods.get('GetRightHandSide')
    if rhs is None:
        raise AnalysisError('Equation.GetRightHandSide not found')
    check.saw(rhs)
    reps = [n for n in ast.walk(rhs.node) if isinstance(n, ast.Call) and call_name(n) in ('replace', 'strip', 'lstrip', 'rstrip')]
    check.ob('C12.R4', '%s::no-global-rewrite' % rhs.key, not reps, rhs.where,
             'the assembled text is not rewritten globally' if not reps else 'assembled text rewritten by %s' % [unparse(r) for r in reps],
             "a blob containing '+' or spaces inside a string")
    # the rendering is executed symbolically on every path:  J = join of str(t) for all t in TermList,
    # V = J without one leading '+' (only under startswith('+')), result = zero literal if V is empty else V
    rflat = flatten(prog, rhs)
    gr = cfgmod.build(rflat)

    def sym(e, env):
        if isinstance(e, ast.Constant) and isinstance(e.value, str):
            return ('const', e.value)
        if isinstance(e, ast.Name):
            return env.get(e.id, ('?', e.id))
        if isinstance(e, (ast.ListComp, ast.GeneratorExp)) and len(e.generators) == 1:
            gen = e.generators[0]
            tv = target_names(gen.target)
            if 'TermList' in unparse(gen.iter) and isinstance(gen.iter, ast.Attribute) and len(tv) == 1 and \
                    isinstance(e.elt, ast.Call) and call_name(e.elt) == 'str' and len(e.elt.args) == 1 and unparse(e.elt.args[0]) == tv[0]:
                return ('L', 'filtered') if gen.ifs else ('L',)
            return ('?', unparse(e))
        if isinstance(e, ast.Call) and isinstance(e.func, ast.Attribute) and e.func.attr == 'join' and len(e.args) == 1 and \
                isinstance(e.func.value, ast.Constant) and e.func.value.value == '':
            inner = sym(e.args[0], env)
            if inner == ('L',):
                return ('J',)
            return ('?', unparse(e))
        if isinstance(e, ast.Call) and call_name(e) == 'map' and len(e.args) == 2 and unparse(e.args[0]) == 'str' and \
                isinstance(e.args[1], ast.Attribute) and e.args[1].attr == 'TermList':
            return ('L',)
        if isinstance(e, ast.Subscript) and isinstance(e.slice, ast.Slice) and e.slice.upper is None and e.slice.step is None and \
                isinstance(e.slice.lower, ast.Constant) and e.slice.lower.value == 1:
            return ('strip1', sym(e.value, env))
        if isinstance(e, ast.IfExp):
            return ('?', unparse(e))
        return ('?', unparse(e))

    def symtest(e, env):
        """(kind, operand, polarity)"""
        pol = True
        while isinstance(e, ast.UnaryOp) and isinstance(e.op, ast.Not):
            e, pol = e.operand, not pol
        if isinstance(e, ast.Call) and call_name(e) == 'startswith' and len(e.args) == 1 and isinstance(e.args[0], ast.Constant) \
                and e.args[0].value == '+' and isinstance(e.func, ast.Attribute):
            return ('sw', sym(e.func.value, env), pol)
        if isinstance(e, ast.Compare) and len(e.ops) == 1:
            l_, r_, op = e.left, e.comparators[0], e.ops[0]
            if isinstance(r_, ast.Constant) and r_.value == '' and isinstance(op, (ast.Eq, ast.NotEq)):
                return ('empty', sym(l_, env), pol if isinstance(op, ast.Eq) else not pol)
            if isinstance(l_, ast.Call) and call_name(l_) == 'len' and len(l_.args) == 1 and isinstance(r_, ast.Constant) and r_.value == 0:
                if isinstance(op, ast.Eq):
                    return ('empty', sym(l_.args[0], env), pol)
                if isinstance(op, (ast.Gt, ast.NotEq)):
                    return ('empty', sym(l_.args[0], env), not pol)
            if isinstance(l_, ast.Subscript) and isinstance(l_.slice, ast.Constant) and l_.slice.value == 0 and \
                    isinstance(r_, ast.Constant) and r_.value == '+' and isinstance(op, ast.Eq):
                return ('sw?', sym(l_.value, env), pol)      # x[0] == '+': fails on the empty text
        if isinstance(e, ast.Name):
            return ('empty', sym(e, env), not pol)
        return ('?', unparse(e), pol)
    okp = okz = okall = True
    whyp = whyz = ''
    n_paths = 0
    for path in gr.paths(gr.entry, gr.exit, cap=5000):
        env, conds, ret = {}, [], None
        for i, nid in enumerate(path):
            nd = gr.nodes[nid]
            if nd.kind == 'stmt' and isinstance(nd.ast, ast.Assign) and len(nd.ast.targets) == 1 and isinstance(nd.ast.targets[0], ast.Name):
                env[nd.ast.targets[0].id] = sym(nd.ast.value, env)
            elif nd.kind == 'test' and i + 1 < len(path):
                labs = [lab for b_, lab in gr.succ[nid] if b_ == path[i + 1]]
                if labs and labs[0] in (True, False):
                    k, x, pol = symtest(nd.ast, env)
                    conds.append((k, x, pol if labs[0] else not pol))
            elif nd.kind == 'stmt' and isinstance(nd.ast, ast.Return):
                ret = sym(nd.ast.value, env) if nd.ast.value is not None else ('?', 'None')
        if ret is None:
            continue
        n_paths += 1
        # infeasible combinations: the joined text starts with '+' and is empty
        J = ('J',)
        sw = [c for c in conds if c[0] == 'sw' and c[1] == J]
        if any(c[0] == 'sw?' for c in conds):
            okp, whyp = False, "the first character is indexed without knowing the text is non-empty"
        V = J
        if sw and sw[0][2]:
            V = ('strip1', J)
        empt = [c for c in conds if c[0] == 'empty' and c[1] in (V, J)]
        if any(c[2] for c in sw) and any(c[2] for c in empt if c[1] == J):
            continue        # starts with '+' and is empty: infeasible
        uses_strip = any(x == ('strip1', J) for x in list(env.values()) + [ret])
        if uses_strip and not (sw and sw[0][2]):
            okp, whyp = False, "a character is removed without the startswith('+') test"
        if sw and sw[0][2] and ret not in (('strip1', J),) and not (ret[0] == 'const'):
            okp, whyp = False, "a leading '+' is kept"
        if ('L', 'filtered') in env.values() or (ret[0] == '?' ):
            okall = False
        if empt and empt[-1][2]:
            zero = ret[0] == 'const'
            try:
                zero = zero and float(ret[1]) == 0.0
            except ValueError:
                zero = False
            if not zero:
                okz, whyz = False, 'an empty sum renders as %r' % (ret[1],)
        elif empt:
            if ret != V:
                okall = False
        else:
            okz, whyz = False, 'a path returns the text without testing it for emptiness'
    if not n_paths:
        okp = okz = okall = False
    check.ob('C12.R4', '%s::one-leading-plus' % rhs.key, okp, rhs.where,
             "exactly one leading '+' is removed, under startswith('+')" if okp else
             'the leading-sign removal is not the guarded single-character prefix strip (%s)' % whyp, "first term '-x' or a blob starting with '('")
    check.ob('C12.R4', '%s::empty-sum-is-zero' % rhs.key, okz, rhs.where,
             "an empty sum renders as a zero literal" if okz else 'an empty sum does not render as zero (%s)' % whyz, 'x - x')
    check.ob('C12.R4', '%s::all-terms-rendered' % rhs.key, okall, rhs.where,
             'every term of TermList is rendered, in order, and the result is the joined text' if okall else
             'not every term is rendered (filter or other source) or the result is not the joined text', 'three terms')
    # ---- R6: AddTerm stores / merges a private Term object, never the caller's ---------------------------
    from ._common import addterm_private_copy
    at, ok = addterm_private_copy(prog)
    check.saw(at)
    check.ob('C12.R6', '%s::stores-private-copy' % at.key, ok, at.where,
             'the term object placed in the equation is constructed inside AddTerm on every path' if ok else
             'the caller\'s own Term object can be placed in the equation: a later merge changes the caller\'s object / another equation sharing it',
             'the same Term object added to two equations, or three times to one')
    # every other store into a term list: only objects constructed on the spot (who-may-write rule over the package)
    for f_ in prog.all_functions():
        if '/deprecated/' in f_.module.rel:
            continue
        for n_ in ast.walk(f_.node):
            bad_ = None
            if isinstance(n_, ast.Assign) and any(isinstance(t_, ast.Attribute) and t_.attr == 'TermList' for t_ in n_.targets):
                v_ = n_.value
                fresh_ = isinstance(v_, (ast.List, ast.Tuple)) and all(
                    isinstance(x_, ast.Call) and call_name(x_) in ('Term', 'copy', 'deepcopy') for x_ in v_.elts)
                fresh_ = fresh_ or (isinstance(v_, ast.ListComp) and isinstance(v_.elt, ast.Call) and call_name(v_.elt) in ('Term', 'copy', 'deepcopy'))
                if not fresh_:
                    bad_ = 'the term list is set to `%s`' % unparse(v_)[:80]
            elif isinstance(n_, ast.Call) and call_name(n_) in ('append', 'insert', 'extend') and isinstance(n_.func, ast.Attribute) and \
                    isinstance(n_.func.value, ast.Attribute) and n_.func.value.attr == 'TermList' and f_ is not at:
                a_ = n_.args[-1] if n_.args else None
                if not (isinstance(a_, ast.Call) and call_name(a_) in ('Term', 'copy', 'deepcopy')):
                    bad_ = 'a term list receives `%s`' % (unparse(a_)[:80] if a_ is not None else '?')
            else:
                continue
            check.saw(f_)
            check.ob('C12.R6', '%s::term-list-store(%s)' % (f_.key, unparse(n_)[:50]), bad_ is None, '%s:%d' % (f_.module.rel, n_.lineno),
                     'the term list only ever holds objects constructed for it' if bad_ is None else
                     bad_ + ': an object the caller still holds (or another equation shares) becomes part of the equation, and merging like terms rewrites it in place',
                     'one Term object used to build two equations, then a like term added to one of them')
    # ---- AddTerm: merge only textually equal terms (R1 companion) -----------------------------------
    # ---- R7: a term keeps the text it was given ----------------------------------------------------------
    from ._common import term_text_verbatim
    tinit, tstores = term_text_verbatim(prog)
    check.saw(tinit)
    for n_, ok_, why_ in tstores:
        check.ob('C12.R7', '%s::term-text-verbatim(%s)' % (tinit.key, unparse(n_.value)), ok_, '%s:%d' % (tinit.module.rel, n_.lineno), why_,
                 "a quotient 'W/P', a product 'b*a': the value of the stored text must be the value of the text passed in")
    # ---- R8: only a product or a quotient of two factors is taken for a simple term ------------------------------------------
    # a simple term is rendered as <coefficient>*<text> and its sign is pulled out in front: for a three-token text that is only
    # value-preserving when the middle token is '*' or '/'.  The store of the text under the three-token test must be control
    # dependent on the operator being one of those (other spellings of the acceptance test are not judged).
    from ..cfg import atomic_facts as _af8
    tflat = flatten(prog, tinit)
    g8 = cfgmod.build(tflat)
    for nd in g8.stmt_nodes():
        if not (nd.kind == 'stmt' and isinstance(nd.ast, ast.Assign) and len(nd.ast.targets) == 1 and isinstance(nd.ast.targets[0], ast.Attribute)
                and nd.ast.targets[0].attr == 'Term' and isinstance(nd.ast.targets[0].value, ast.Name) and nd.ast.targets[0].value.id == 'self'):
            continue
        facts = [(v_, e_) for t_, o_ in g8.conditions_at(nd) for _x, v_, e_ in _af8(t_, o_)]
        three = [e_ for v_, e_ in facts if v_ and isinstance(e_, ast.Compare) and len(e_.ops) == 1 and isinstance(e_.ops[0], ast.Eq) and
                 isinstance(e_.left, ast.Call) and call_name(e_.left) == 'len' and isinstance(e_.comparators[0], ast.Constant) and
                 e_.comparators[0].value == 3]
        if not three:
            continue

        def mult_only(v_, e_):
            if not (v_ and isinstance(e_, ast.Compare) and len(e_.ops) == 1):
                return False
            r_ = e_.comparators[0]
            if isinstance(e_.ops[0], ast.In) and isinstance(r_, (ast.Tuple, ast.List, ast.Set)):
                return bool(r_.elts) and all(isinstance(x_, ast.Constant) and x_.value in ('*', '/') for x_ in r_.elts)
            if isinstance(e_.ops[0], ast.Eq) and isinstance(r_, ast.Constant):
                return r_.value in ('*', '/')
            return False
        ok8 = any(mult_only(v_, e_) for v_, e_ in facts)
        check.ob('C12.R8', '%s::three-token-term-is-product-or-quotient' % tinit.key, ok8, '%s:%d' % (tinit.module.rel, nd.line),
                 "a three-token text is taken for a simple term only when its operator is '*' or '/'" if ok8 else
                 "a three-token text is stored as a simple term without the operator being known to be '*' or '/': a term like x//y or x%y "
                 "then has its sign pulled out of the brackets, which changes its value",
                 "Equation('v', rhs='-(x//y)') renders -x//y")
    check.floor('C12.R7', 3)
    check.floor('C12.R1', 3)
    check.floor('C12.R2', 5)
    check.floor('C12.R3', 2)
    check.floor('C12.R4', 4)
    check.floor('C12.R6', 1)
    sign_parsing(prog, check, T)
    check.floor('C12.R5', 12)


def _loop_headers(g, node):
    return {n.id for n in g.nodes if n.kind == 'for' and n.stmt in node.loops}


def _under_blob_test(n, pname):
    p = getattr(n, '_parent', None)
    child = n
    while p is not None and not isinstance(p, ast.FunctionDef):
        if isinstance(p, ast.If) and isinstance(p.test, ast.Name) and p.test.id == pname and any(child is x for x in p.body):
            return True
        child, p = p, getattr(p, '_parent', None)
    return False


def _nonblob_polarity(test, obj):
    """True when the True-outcome of `test` implies `obj` is not a blob; False when the False-outcome implies it"""
    conj = test.values if (isinstance(test, ast.BoolOp) and isinstance(test.op, ast.And)) else [test]
    for c in conj:
        if isinstance(c, ast.UnaryOp) and isinstance(c.op, ast.Not) and isinstance(c.operand, ast.Attribute) and \
                c.operand.attr == 'IsBlob' and unparse(c.operand.value) == obj:
            return True
        if isinstance(c, ast.Compare) and isinstance(c.left, ast.Attribute) and c.left.attr == 'IsBlob' and \
                unparse(c.left.value) == obj and isinstance(c.comparators[0], ast.Constant) and c.comparators[0].value is False \
                and isinstance(c.ops[0], (ast.Is, ast.Eq)):
            return True
    if isinstance(test, ast.Attribute) and test.attr == 'IsBlob' and unparse(test.value) == obj:
        return False
    return None


# ---- abstract evaluation of the renderer ------------------------------------------------------------
class _Ret(Exception):
    def __init__(self, v):
        self.v = v


def abstract_render(fn, const):
    """evaluate Term.__str__ for a non-blob simple term with Constant = const; strings are kept symbolic:
    str(self.Constant) -> repr(const), self.Term -> 'T'"""
    env = {}

    def ev(e):
        if isinstance(e, ast.Constant):
            return e.value
        if isinstance(e, ast.Name):
            if e.id in env:
                return env[e.id]
            raise AnalysisError('renderer: unbound name ' + e.id)
        if isinstance(e, ast.Attribute) and isinstance(e.value, ast.Name) and e.value.id == 'self':
            if e.attr == 'Constant':
                return const
            if e.attr == 'Term':
                return 'T'
            if e.attr == 'IsBlob':
                return False
            if e.attr == 'IsSimple':
                return True
            raise AnalysisError('renderer: unknown field ' + e.attr)
        if isinstance(e, ast.UnaryOp):
            v = ev(e.operand)
            if isinstance(e.op, ast.Not):
                return not v
            if isinstance(e.op, ast.USub):
                return -v
        if isinstance(e, ast.Compare) and len(e.ops) == 1:
            a, b = ev(e.left), ev(e.comparators[0])
            op = e.ops[0]
            return {ast.Eq: a == b, ast.NotEq: a != b, ast.Lt: a < b, ast.LtE: a <= b, ast.Gt: a > b,
                    ast.GtE: a >= b}[type(op)]
        if isinstance(e, ast.BinOp) and isinstance(e.op, ast.Add):
            return ev(e.left) + ev(e.right)
        if isinstance(e, ast.BinOp) and isinstance(e.op, ast.Mod):
            return ev(e.left) % ev(e.right)
        if isinstance(e, ast.Tuple):
            return tuple(ev(x) for x in e.elts)
        if isinstance(e, ast.Call):
            nm = call_name(e)
            if nm in ('str', 'repr') and isinstance(e.func, ast.Name):
                return repr(ev(e.args[0])) if not isinstance(ev(e.args[0]), str) else ev(e.args[0])
            if nm == 'abs':
                return abs(ev(e.args[0]))
            if nm == 'format' and isinstance(e.func, ast.Attribute):
                return ev(e.func.value).format(*[ev(a) for a in e.args])
        if isinstance(e, ast.JoinedStr):
            out = ''
            for v in e.values:
                if isinstance(v, ast.Constant):
                    out += v.value
                else:
                    x = ev(v.value)
                    out += x if isinstance(x, str) else repr(x)
            return out
        if isinstance(e, ast.BoolOp):
            vals = [ev(v) for v in e.values]
            return all(vals) if isinstance(e.op, ast.And) else any(vals)
        raise AnalysisError('renderer left the modelled fragment: ' + unparse(e)[:60])

    def run(stmts):
        for s in stmts:
            if isinstance(s, ast.Expr) and isinstance(s.value, ast.Constant):
                continue
            if isinstance(s, ast.If):
                run(s.body if ev(s.test) else s.orelse)
            elif isinstance(s, ast.Return):
                raise _Ret(ev(s.value))
            elif isinstance(s, ast.Assign) and isinstance(s.targets[0], ast.Name):
                env[s.targets[0].id] = ev(s.value)
            elif isinstance(s, ast.Raise):
                raise AnalysisError('renderer raises for a simple term')
            else:
                raise AnalysisError('renderer left the modelled fragment: ' + unparse(s)[:60])
    try:
        run(fn.body)
    except _Ret as r:
        return r.v
    raise AnalysisError('renderer returns nothing')


def read_coefficient(txt):
    """algebraic reading of rendered text as c*T (None when it is not of that form)"""
    if txt == '':
        return 0.0
    try:
        tree = ast.parse(txt.lstrip(), mode='eval')
    except SyntaxError:
        return None
    lf = linform(tree.body)
    if lf is None or set(k for k in lf if k) - {'T'}:
        return None
    if lf.get('', 0) != 0:
        return None
    return float(lf.get('T', 0))


# ---- R5: abstract evaluation of the constructor's sign handling ---------------------------------------
def sign_parsing(prog, check, T):
    ctor = T.methods.get('__init__')
    if ctor is None:
        raise AnalysisError('Term.__init__ not found')
    check.saw(ctor)
    ctor = flatten(prog, ctor)
    cases = []
    for outer, so in (('+', 1), ('-', -1), ('', 1)):
        cases.append((outer + 'x', so, 'x'))
        for inner, si in (('+', 1), ('-', -1), ('', 1)):
            cases.append((outer + '(' + inner + 'x)', so * si, 'x'))
    for text, sign, stem in cases:
        try:
            const, stored = abstract_ctor(ctor.node, text)
            ok = const == sign and stored == stem
            why = 'Term(%r): Constant=%r, text=%r (required %r, %r)' % (text, const, stored, float(sign), stem)
        except AnalysisError as e:
            ok, why = False, 'Term(%r): %s' % (text, e)
        check.ob('C12.R5', '%s::sign-class(%s)' % (ctor.key, text), ok, ctor.where, why,
                 'a term written ' + text)


class _Stop(Exception):
    pass


def abstract_ctor(fn, text):
    """interpret the sign-handling prefix of the constructor on a class representative; stops at the tokenizer part"""
    params = [a.arg for a in fn.args.args]
    env = {params[1]: text, 'is_blob': False}
    if len(params) > 2:
        env[params[2]] = False
    fields = {}

    def ev(e):
        if isinstance(e, ast.Constant):
            return e.value
        if isinstance(e, ast.Name):
            if e.id in env:
                return env[e.id]
            if e.id in ('Term', 'str'):
                return e.id
            raise _Stop()
        if isinstance(e, ast.Attribute) and isinstance(e.value, ast.Name) and e.value.id == 'self':
            if e.attr in fields:
                return fields[e.attr]
            raise _Stop()
        if isinstance(e, ast.UnaryOp):
            v = ev(e.operand)
            return (not v) if isinstance(e.op, ast.Not) else -v
        if isinstance(e, ast.Compare) and len(e.ops) == 1:
            op = e.ops[0]
            if isinstance(e.left, ast.Call) and call_name(e.left) == 'type':
                return isinstance(op, (ast.NotEq, ast.IsNot))      # the argument is a str, never a Term
            a, b = ev(e.left), ev(e.comparators[0])
            if isinstance(op, ast.In):
                return a in b
            if isinstance(op, ast.NotIn):
                return a not in b
            return {ast.Eq: a == b, ast.NotEq: a != b, ast.Lt: a < b, ast.Gt: a > b, ast.LtE: a <= b, ast.GtE: a >= b}[type(op)]
        if isinstance(e, ast.Subscript):
            v = ev(e.value)
            if isinstance(e.slice, ast.Slice):
                lo = ev(e.slice.lower) if e.slice.lower is not None else None
                hi = ev(e.slice.upper) if e.slice.upper is not None else None
                return v[lo:hi]
            return v[ev(e.slice)]
        if isinstance(e, ast.BinOp):
            a, b = ev(e.left), ev(e.right)
            if isinstance(e.op, ast.Add):
                return a + b
            if isinstance(e.op, ast.Mult):
                return a * b
        if isinstance(e, ast.Call):
            nm = call_name(e)
            if isinstance(e.func, ast.Name) and nm == 'str':
                return str(ev(e.args[0]))
            if isinstance(e.func, ast.Name) and nm == 'len':
                return len(ev(e.args[0]))
            if isinstance(e.func, ast.Attribute) and nm in ('strip', 'startswith', 'endswith', 'replace', 'lstrip', 'rstrip'):
                recv = ev(e.func.value)
                if isinstance(recv, str):
                    return getattr(recv, nm)(*[ev(a) for a in e.args])
            raise _Stop()
        if isinstance(e, ast.BoolOp):
            v = None
            for x in e.values:
                v = ev(x)
                if isinstance(e.op, ast.And) and not v:
                    return v
                if isinstance(e.op, ast.Or) and v:
                    return v
            return v
        if isinstance(e, ast.Tuple):
            return tuple(ev(x) for x in e.elts)
        if isinstance(e, ast.IfExp):
            return ev(e.body) if ev(e.test) else ev(e.orelse)
        raise _Stop()

    def run(stmts):
        for s in stmts:
            if isinstance(s, ast.Expr):
                if isinstance(s.value, ast.Constant):
                    continue
                raise _Stop()
            if isinstance(s, ast.If):
                run(s.body if ev(s.test) else s.orelse)
            elif isinstance(s, ast.Assign):
                v = ev(s.value)
                t = s.targets[0]
                def bind(t, v):
                    if isinstance(t, ast.Name):
                        env[t.id] = v
                    elif isinstance(t, ast.Attribute) and isinstance(t.value, ast.Name) and t.value.id == 'self':
                        fields[t.attr] = v
                    elif isinstance(t, (ast.Tuple, ast.List)) and isinstance(v, tuple) and len(v) == len(t.elts):
                        for tt, vv in zip(t.elts, v):
                            bind(tt, vv)
                    else:
                        raise _Stop()
                bind(t, v)
            elif isinstance(s, ast.AugAssign) and isinstance(s.op, ast.Mult):
                t = s.target
                v = ev(s.value)
                if isinstance(t, ast.Attribute):
                    fields[t.attr] = fields[t.attr] * v
                else:
                    env[t.id] = env[t.id] * v
            elif isinstance(s, ast.Raise):
                raise AnalysisError('constructor raises %s' % unparse(s.exc)[:60])
            elif isinstance(s, ast.Return):
                raise _Stop()
            else:
                raise _Stop()
    try:
        run(fn.body)
    except _Stop:
        pass
    # the working text at the point where sign handling ends
    work = [v for k, v in env.items() if k not in (params[1], 'is_blob') and isinstance(v, str)]
    # ... which is the local the constructor finally stores as the term text
    final_names = [n.value.id for n in ast.walk(fn) if isinstance(n, ast.Assign) and isinstance(n.value, ast.Name) and any(
        isinstance(t, ast.Attribute) and t.attr == 'Term' and isinstance(t.value, ast.Name) and t.value.id == 'self' for t in n.targets)]
    final = [env[nm] for nm in final_names if isinstance(env.get(nm), str)]
    if final and len(set(final)) == 1:
        work = work + [final[0]]
    stored = fields.get('Term', work[-1] if work else None)
    return fields.get('Constant'), stored
