"""Path-wise symbolic evaluation of a series accessor (C16.R3).

The accessor is walked statement by statement (its private helpers already inlined); every path carries
 * an environment name -> value,  values: NONE | ('lin', {sym: coef, '': c}) | ('obj', text) | ('ref', id) | ('flag',) | UNK
 * a heap  id -> (lo, hi)  : a list that equals stored[lo:hi]   (hi None = to the end; hi a linear form otherwise)
 * assumptions taken at branches:  sym -> 'none' | 'some' | 'zero'   and   'S' -> True | False
Every `return` yields (window, assumptions); the rule compares the window with the one the property states for those
assumptions.  Nothing is executed."""
import ast
from fractions import Fraction

from .loader import attr_chain, call_name, unparse

NONE = ('none',)
UNK = ('unk',)
MAXPATHS = 4000


class TooManyPaths(Exception):
    pass


class St(object):
    __slots__ = ('env', 'heap', 'assum', 'nref')

    def __init__(self, env=None, heap=None, assum=None, nref=0):
        self.env, self.heap, self.assum, self.nref = env or {}, heap or {}, assum or {}, nref

    def copy(self):
        return St(dict(self.env), dict(self.heap), dict(self.assum), self.nref)

    def new(self, lo, hi):
        self.nref += 1
        self.heap[self.nref] = (lo, hi)
        return ('ref', self.nref)


def lin(c=0, **syms):
    d = {'': Fraction(c)}
    for k, v in syms.items():
        d[k] = Fraction(v)
    return ('lin', d)


def lin_add(a, b, sign=1):
    out = dict(a)
    for k, v in b.items():
        out[k] = out.get(k, Fraction(0)) + sign * v
    return {k: v for k, v in out.items() if v or k == ''}


def lin_same(a, b):
    if a is None or b is None:
        return a is b
    ks = set(a) | set(b)
    return all(a.get(k, 0) == b.get(k, 0) for k in ks)


def lin_text(a):
    if a is None:
        return 'end'
    parts = []
    for k in sorted(a):
        if k and a[k]:
            parts.append(('%s' % k) if a[k] == 1 else '%s*%s' % (a[k], k))
    if a.get('', 0) or not parts:
        parts.append(str(a.get('', 0)))
    return '+'.join(parts)


class Evaluator(object):
    def __init__(self, fnode, cutoff_param, default_attr, flag_attr):
        self.fn = fnode
        self.cutoff, self.dattr, self.sattr = cutoff_param, default_attr, flag_attr
        self.returns = []          # (value-or-window, assumptions, line)
        self.npaths = 0

    # ---- expressions: generator of (value, state) -------------------------------------------------
    def ev(self, e, st):
        if e is None:
            yield NONE, st
            return
        if isinstance(e, ast.Constant):
            if e.value is None:
                yield NONE, st
            elif isinstance(e.value, bool):
                yield UNK, st
            elif isinstance(e.value, int):
                yield lin(e.value), st
            else:
                yield UNK, st
            return
        if isinstance(e, ast.Name):
            yield st.env.get(e.id, UNK), st
            return
        if isinstance(e, ast.Attribute):
            ch = attr_chain(e)
            if ch and ch[0] == 'self':
                txt = '.'.join(ch)
                if txt == 'self.' + self.dattr:
                    yield lin(0, D=1), st
                elif txt == 'self.' + self.sattr:
                    yield ('flag',), st
                else:
                    yield ('obj', txt), st
                return
            for v, s in self.ev(e.value, st):
                yield (('obj', '%s.%s' % (v[1], e.attr)) if v[0] == 'obj' else UNK), s
            return
        if isinstance(e, ast.IfExp):
            for s, truth in self.test(e.test, st):
                for r in self.ev(e.body if truth else e.orelse, s):
                    yield r
            return
        if isinstance(e, ast.BinOp) and isinstance(e.op, (ast.Add, ast.Sub)):
            for a, s1 in self.ev(e.left, st):
                for b, s2 in self.ev(e.right, s1):
                    if a[0] == 'lin' and b[0] == 'lin':
                        yield ('lin', lin_add(a[1], b[1], 1 if isinstance(e.op, ast.Add) else -1)), s2
                    else:
                        yield UNK, s2
            return
        if isinstance(e, ast.Subscript):
            for base, s1 in self.ev(e.value, st):
                if isinstance(e.slice, ast.Slice):
                    if e.slice.step is not None or base[0] != 'ref':
                        yield UNK, s1
                        continue
                    for lo, s2 in self.ev(e.slice.lower, s1):
                        for hi, s3 in self.ev(e.slice.upper, s2):
                            s4 = s3.copy()
                            yield self.sub_window(s4, base, lo, hi), s4
                else:
                    if base[0] == 'obj':
                        s2 = s1.copy()
                        yield s2.new(0, None), s2          # the stored series itself
                    else:
                        yield UNK, s1
            return
        if isinstance(e, ast.Call):
            nm = call_name(e)
            arg = None
            if nm in ('list', 'copy', 'deepcopy') and len(e.args) == 1 and not e.keywords:
                arg = e.args[0]
            elif nm == 'copy' and isinstance(e.func, ast.Attribute) and not e.args:
                arg = e.func.value
            if arg is not None:
                for v, s1 in self.ev(arg, st):
                    if v[0] == 'ref':
                        s2 = s1.copy()
                        yield s2.new(*s2.heap[v[1]]), s2
                    else:
                        yield UNK, s1
                return
            if nm == 'pop' and isinstance(e.func, ast.Attribute):
                for v, s1 in self.ev(e.func.value, st):
                    s2 = s1.copy()
                    self.remove_first(s2, v, e.args)
                    yield UNK, s2
                return
            if nm == 'getattr' and len(e.args) == 2 and not e.keywords:
                for base, s1 in self.ev(e.args[0], st):
                    yield (('obj', base[1] + '.<attr>') if base[0] == 'obj' else UNK), s1
                return
            if nm == 'int' and len(e.args) == 1:
                for r in self.ev(e.args[0], st):
                    yield r
                return
            if nm == 'get' and isinstance(e.func, ast.Attribute) and e.args:
                for base, s1 in self.ev(e.func.value, st):
                    yield UNK, s1
                return
            # any other call: mutable windows passed as arguments are no longer known
            s1 = st.copy()
            for a in list(e.args) + [k.value for k in e.keywords]:
                if isinstance(a, ast.Name) and s1.env.get(a.id, UNK)[0] == 'ref':
                    s1.heap[s1.env[a.id][1]] = ('?', '?')
            yield UNK, s1
            return
        yield UNK, st

    def sub_window(self, st, base, lo, hi):
        blo, bhi = st.heap[base[1]]
        if blo == '?':
            return UNK
        if lo == NONE:
            nlo = blo
        elif lo[0] == 'lin' and set(lo[1]) == {''} and lo[1][''] >= 0:
            nlo = blo + int(lo[1][''])
        else:
            return UNK
        if hi == NONE:
            nhi = bhi
        elif hi[0] == 'lin' and bhi is None:
            nhi = lin_add(hi[1], {'': Fraction(blo)})
        else:
            return UNK
        return st.new(nlo, nhi)

    def remove_first(self, st, v, args):
        if v[0] != 'ref':
            return
        lo, hi = st.heap[v[1]]
        zero = len(args) == 1 and isinstance(args[0], ast.Constant) and args[0].value == 0 and not isinstance(args[0].value, bool)
        st.heap[v[1]] = (lo + 1, hi) if (zero and lo != '?') else ('?', '?')

    # ---- tests: generator of (state, truth) ---------------------------------------------------------
    def test(self, t, st):
        if isinstance(t, ast.UnaryOp) and isinstance(t.op, ast.Not):
            for s, tr in self.test(t.operand, st):
                yield s, (not tr)
            return
        if isinstance(t, ast.BoolOp):
            is_and = isinstance(t.op, ast.And)
            def chain(i, s):
                if i == len(t.values) - 1:
                    for r in self.test(t.values[i], s):
                        yield r
                    return
                for s1, tr in self.test(t.values[i], s):
                    if tr != is_and:
                        yield s1, tr
                    else:
                        for r in chain(i + 1, s1):
                            yield r
            for r in chain(0, st):
                yield r
            return
        if isinstance(t, ast.Compare) and len(t.ops) == 1 and isinstance(t.ops[0], (ast.Is, ast.IsNot, ast.Eq, ast.NotEq)) and \
                isinstance(t.comparators[0], ast.Constant) and t.comparators[0].value is None:
            pos = isinstance(t.ops[0], (ast.Is, ast.Eq))
            for v, s in self.ev(t.left, st):
                for s2, isnone in self.noneness(v, s):
                    yield s2, (isnone == pos)
            return
        if isinstance(t, (ast.Name, ast.Attribute)):
            for v, s in self.ev(t, st):
                if v == ('flag',):
                    if 'S' in s.assum:
                        yield s, s.assum['S']
                    else:
                        for b in (True, False):
                            s2 = s.copy()
                            s2.assum['S'] = b
                            yield s2, b
                elif v == NONE:
                    yield s, False
                elif v[0] == 'lin' and self.single_sym(v):
                    sym = self.single_sym(v)
                    a = s.assum.get(sym)
                    if a == 'none' or a == 'zero':
                        yield s, False
                    elif a == 'some':
                        yield s, True      # may also be zero: the rule treats an untested zero like any number
                    else:
                        for a2, tr in (('some', True), ('none', False), ('zero', False)):
                            s2 = s.copy()
                            s2.assum[sym] = a2
                            yield s2, tr
                else:
                    yield s, True
                    yield s, False
            return
        if isinstance(t, ast.Compare) and len(t.ops) == 1 and isinstance(t.ops[0], (ast.Is, ast.IsNot, ast.Eq, ast.NotEq)) and \
                isinstance(t.comparators[0], ast.Constant) and isinstance(t.comparators[0].value, bool):
            pos = isinstance(t.ops[0], (ast.Is, ast.Eq)) == t.comparators[0].value
            for s, tr in self.test(t.left, st):
                yield s, (tr == pos)
            return
        if isinstance(t, ast.Constant):
            yield st, bool(t.value)
            return
        yield st, True
        yield st, False

    @staticmethod
    def single_sym(v):
        ks = [k for k in v[1] if k and v[1][k]]
        if len(ks) == 1 and v[1][ks[0]] == 1 and not v[1].get('', 0):
            return ks[0]
        return None

    def noneness(self, v, s):
        if v == NONE:
            yield s, True
        elif v[0] == 'lin' and self.single_sym(v):
            sym = self.single_sym(v)
            a = s.assum.get(sym)
            if a is not None:
                yield s, a == 'none'
            else:
                for a2 in ('none', 'some'):
                    s2 = s.copy()
                    s2.assum[sym] = a2
                    yield s2, a2 == 'none'
        elif v == UNK:
            yield s, True
            yield s, False
        else:
            yield s, False

    # ---- statements: list of fall-through states ----------------------------------------------------
    def block(self, stmts, states):
        for st_ in stmts:
            nxt = []
            for s in states:
                nxt.extend(self.stmt(st_, s))
            states = nxt
            self.npaths = max(self.npaths, len(states))
            if len(states) > MAXPATHS:
                raise TooManyPaths()
            if not states:
                break
        return states

    @staticmethod
    def assigned(node):
        out = set()
        for n in ast.walk(node):
            if isinstance(n, ast.Name) and isinstance(n.ctx, (ast.Store, ast.Del)):
                out.add(n.id)
        return out

    def havoc(self, node, s):
        s2 = s.copy()
        for nm in self.assigned(node):
            s2.env[nm] = UNK
        for n in ast.walk(node):       # a window mutated inside is unknown afterwards
            if isinstance(n, ast.Call) and isinstance(n.func, ast.Attribute) and isinstance(n.func.value, ast.Name) and \
                    s2.env.get(n.func.value.id, UNK)[0] == 'ref' and n.func.attr in (
                        'pop', 'remove', 'insert', 'append', 'extend', 'clear', 'sort', 'reverse'):
                s2.heap[s2.env[n.func.value.id][1]] = ('?', '?')
            if isinstance(n, (ast.Delete,)):
                for t in n.targets:
                    if isinstance(t, ast.Subscript) and isinstance(t.value, ast.Name) and s2.env.get(t.value.id, UNK)[0] == 'ref':
                        s2.heap[s2.env[t.value.id][1]] = ('?', '?')
        return s2

    def stmt(self, n, s):
        if isinstance(n, ast.Return):
            for v, s2 in self.ev(n.value, s):
                w = s2.heap[v[1]] if v[0] == 'ref' else None
                self.returns.append((v, w, dict(s2.assum), n.lineno))
            return []
        if isinstance(n, ast.Raise):
            return []
        if isinstance(n, ast.Assign):
            out = []
            for v, s2 in self.ev(n.value, s):
                s3 = s2.copy()
                for t in n.targets:
                    if isinstance(t, ast.Name):
                        s3.env[t.id] = v
                    elif isinstance(t, (ast.Tuple, ast.List)):
                        for nm in self.assigned(t):
                            s3.env[nm] = UNK
                    elif isinstance(t, ast.Subscript) and isinstance(t.value, ast.Name) and s3.env.get(t.value.id, UNK)[0] == 'ref':
                        s3.heap[s3.env[t.value.id][1]] = ('?', '?')
                out.append(s3)
            return out
        if isinstance(n, ast.AugAssign):
            if isinstance(n.target, ast.Name) and isinstance(n.op, (ast.Add, ast.Sub)):
                out = []
                cur = s.env.get(n.target.id, UNK)
                for v, s2 in self.ev(n.value, s):
                    s3 = s2.copy()
                    s3.env[n.target.id] = ('lin', lin_add(cur[1], v[1], 1 if isinstance(n.op, ast.Add) else -1)) \
                        if cur[0] == 'lin' and v[0] == 'lin' else UNK
                    out.append(s3)
                return out
            return [self.havoc(n, s)]
        if isinstance(n, ast.Expr):
            return [s2 for _, s2 in self.ev(n.value, s)] if isinstance(n.value, ast.Call) else [s]
        if isinstance(n, ast.Delete):
            s2 = s.copy()
            for t in n.targets:
                if isinstance(t, ast.Subscript) and isinstance(t.value, ast.Name) and s2.env.get(t.value.id, UNK)[0] == 'ref':
                    ref = s2.env[t.value.id][1]
                    lo, hi = s2.heap[ref]
                    sl = t.slice
                    first = (isinstance(sl, ast.Constant) and sl.value == 0 and not isinstance(sl.value, bool)) or (
                        isinstance(sl, ast.Slice) and sl.step is None and
                        (sl.lower is None or (isinstance(sl.lower, ast.Constant) and sl.lower.value == 0)) and
                        isinstance(sl.upper, ast.Constant) and sl.upper.value == 1)
                    s2.heap[ref] = (lo + 1, hi) if (first and lo != '?') else ('?', '?')
                elif isinstance(t, ast.Name):
                    s2.env[t.id] = UNK
            return [s2]
        if isinstance(n, ast.If):
            out = []
            for s2, truth in self.test(n.test, s):
                out.extend(self.block(n.body if truth else n.orelse, [s2]))
            return out
        if isinstance(n, (ast.For, ast.While)):
            h = self.havoc(n, s)
            # a name that the loop (and its else) only ever binds to holders of series is a holder of series afterwards
            assigns = {}
            for x in ast.walk(n):
                if isinstance(x, ast.Assign) and len(x.targets) == 1 and isinstance(x.targets[0], ast.Name):
                    assigns.setdefault(x.targets[0].id, []).append(x)
            for nm_, lst in assigns.items():
                before = s.env.get(nm_, UNK)
                in_else = any(any(a_ is y for y in ast.walk(ast.Module(body=list(n.orelse), type_ignores=[]))) for a_ in lst)
                kinds = set()
                for a_ in lst:
                    for v_, _s in self.ev(a_.value, h):
                        kinds.add(v_[0])
                if kinds == {'obj'} and (before[0] == 'obj' or in_else):
                    h.env[nm_] = ('obj', 'one of several holders')
            inside = self.block(n.body, [h.copy()])      # collects the returns inside the loop
            after = [h] + [self.havoc(n, x) for x in inside[:1]]
            return self.block(n.orelse, after[:1]) if n.orelse else after[:1]
        if isinstance(n, ast.Try):
            ok = self.block(n.body, [s])
            if n.orelse:
                ok = self.block(n.orelse, ok)
            h = self.havoc(ast.Module(body=n.body, type_ignores=[]), s)
            for hd in n.handlers:
                h2 = h.copy()
                if hd.name:
                    h2.env[hd.name] = UNK
                ok = ok + self.block(hd.body, [h2])
            if n.finalbody:
                ok = self.block(n.finalbody, ok)
            return ok
        if isinstance(n, ast.With):
            return self.block(n.body, [self.havoc(ast.Module(body=[ast.Expr(value=i.context_expr) for i in n.items], type_ignores=[]), s)])
        if isinstance(n, (ast.Pass, ast.FunctionDef, ast.Import, ast.ImportFrom, ast.Assert, ast.Global, ast.Nonlocal, ast.ClassDef)):
            return [s]
        return [self.havoc(n, s)]

    def run(self, params):
        s = St()
        for p in params:
            s.env[p] = lin(0, C=1) if p == self.cutoff else UNK
        s.env['self'] = ('obj', 'self')
        rest = self.block(self.fn.body, [s])
        for s2 in rest:
            self.returns.append((NONE, None, dict(s2.assum), getattr(self.fn, 'end_lineno', self.fn.lineno)))
        return self.returns


def expected_window(assum):
    """the window the property states under the assumptions of a path, or (None, reason) when the path never settled them"""
    c = assum.get('C')
    if c is None:
        return None, 'the path never tests whether the cutoff argument is None'
    if c == 'none':
        d = assum.get('D')
        if d is None:
            return None, 'no cutoff argument and the path never tests whether the model default is None'
        hi = None if d == 'none' else {'D': Fraction(1), '': Fraction(1)}
        if d == 'zero':
            hi = {'D': Fraction(1), '': Fraction(1)}
    else:
        hi = {'C': Fraction(1), '': Fraction(1)}
    if 'S' not in assum:
        return None, 'the path never consults the time-zero suppression flag'
    return (1 if assum['S'] else 0, hi), None
