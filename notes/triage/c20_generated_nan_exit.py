"""Triage for C20.R4: the generated stand-alone solver reports a diverged (overflowed) period as solved."""
import importlib.util, os, sys, tempfile
from sfc_models.deprecated.iterative_machine_generator import IterativeMachineGenerator
eqs = "x = x*x + 2.\nt = LAG_t + 1.0\nLAG_t = t(k-1)\nMaxTime = 3\nErr_Tolerance = 1e-6\nx(0) = 2."
d = tempfile.mkdtemp()
f = os.path.join(d, 'gen_mod.py')
g = IterativeMachineGenerator(eqs)
g.main(f)
spec = importlib.util.spec_from_file_location('gen_mod', f)
m = importlib.util.module_from_spec(spec)
spec.loader.exec_module(m)
obj = m.SFCModel()
try:
    obj.main()
    print('returned normally; x =', obj.x)
except Exception as e:
    print('raised', type(e).__name__, e)
