"""C14 - equation text is classified faithfully; comments are inert (decided structural clauses).

R1 comment non-interference : in the parser's line loop the raw line is tainted (may contain comment text); no branch
                              and no stored value may depend on tainted text unless conjoined with / dominated by a
                              "statement part is empty" test.
R2 exactly one class        : every path through the loop body stores into exactly one class container, or records
                              a warning, or is a blank / marker skip.
R3 lag spelling agreement   : every spelling of X(k-1) the model emits (the repo's lag templates pushed through stdlib
                              tokenize/untokenize, as the emitter does) is normalised by the parser's table.
R4 default time axis        : 't = k' appended iff the user supplied no t.
R5 RHS kept verbatim        : the stored right-hand side undergoes only strip() and the lag-spelling normalisations."""
import ast
import io
import tokenize

from .. import cfg as cfgmod
from ..cfg import atomic_facts
from ..loader import AnalysisError, unparse, call_name
from ..dataflow import forward, target_names, single_assign_subst
from .C10 import parser_line_loop, check_default_t
from ..inline import flatten

TECHNIQUE = ("static analysis: flow-sensitive taint analysis (raw line vs comment-stripped text) with branch refinement over the CFG of the flattened parser loop; bounded path enumeration of the classification loop; reader/writer table agreement (replace chains); branch-outcome facts for '='-splits elsewhere; lint of emitted comment lines; bounded-split lint; must-pass-through of the class resets; the reserved-k clause of C11.R3 recorded as R4")
EXPLANATION = (
    'Taint analysis of the parser line loop: the raw line may carry comment text; every branch condition and every value '
    'stored into a class container must be computed from the comment-stripped text (or be conjoined with a test that the '
    'statement part is empty). All acyclic paths through the loop body are enumerated: each stores into exactly one class, '
    'or warns, or skips a blank/marker line. The lag spellings the model emits are pushed through tokenize/untokenize and '
    "must be covered by the parser's normalisation table; the stored RHS is only stripped and lag-normalised.")

RAW, CLEAN, POS, STRIPPED = 'raw', 'clean', 'pos', 'stripped'
CLASS_LISTS = ('Endogenous', 'Lagged', 'Exogenous')
CLASS_DICTS = ('InitialConditions',)
CLASS_SCALARS = ('MaxTime', 'Err_Tolerance')


class Taint(object):
    def __init__(self, g, loop):
        self.g = g
        self.loop = loop
        self.hdr = [n for n in g.nodes if n.kind == 'for' and n.stmt is loop][0]
        self.pos_of = {}       # name -> variable whose '#' position it holds
        self.ins = forward(g, {}, self.transfer, self.refine)

    # expression -> tags
    def expr(self, e, st):
        if isinstance(e, ast.Name):
            return set(st.get(e.id, {CLEAN}))
        if isinstance(e, ast.Constant) or e is None:
            return {CLEAN}
        if isinstance(e, ast.Subscript):
            base = self.expr(e.value, st)
            # v[0:pos] with pos = v.find('#')  -> clean ;  v.split('#')[0] / partition('#')[0] -> clean
            if isinstance(e.slice, ast.Slice) and e.slice.upper is not None and isinstance(e.slice.upper, ast.Name) and \
                    isinstance(e.value, ast.Name) and ('pos:' + e.value.id) in st.get(e.slice.upper.id, ()) and \
                    (e.slice.lower is None or (isinstance(e.slice.lower, ast.Constant) and e.slice.lower.value == 0)):
                return {CLEAN}
            if isinstance(e.value, ast.Call) and call_name(e.value) in ('split', 'partition') and e.value.args and \
                    isinstance(e.value.args[0], ast.Constant) and e.value.args[0].value == '#' and \
                    isinstance(e.slice, ast.Constant) and e.slice.value == 0:
                return {CLEAN}
            return base | self.expr(e.slice, st) if not isinstance(e.slice, ast.Slice) else base
        if isinstance(e, ast.Call):
            tags = set()
            if isinstance(e.func, ast.Attribute):
                tags |= self.expr(e.func.value, st)
            for a in e.args:
                tags |= self.expr(a, st)
            for k in e.keywords:
                tags |= self.expr(k.value, st)
            return tags or {CLEAN}
        tags = set()
        for c in ast.iter_child_nodes(e):
            if isinstance(c, ast.expr):
                tags |= self.expr(c, st)
        return tags or {CLEAN}

    def transfer(self, node, st):
        s = node.ast
        if node.kind == 'for':
            if node.stmt is self.loop:
                for nm in target_names(s.target):
                    st[nm] = {RAW}
            else:
                t = self.expr(s.iter, st)
                for nm in target_names(s.target):
                    st[nm] = set(t)
            return st
        if node.kind != 'stmt':
            return st
        if isinstance(s, ast.Assign):
            v = s.value
            # pos = v.find('#')
            if isinstance(v, ast.Call) and call_name(v) == 'find' and v.args and isinstance(v.args[0], ast.Constant) \
                    and v.args[0].value == '#' and isinstance(v.func.value, ast.Name) and isinstance(s.targets[0], ast.Name):
                st[s.targets[0].id] = {'pos:' + v.func.value.id}
                return st
            # head, sep, tail = v.partition('#'): the head holds no comment sign
            if isinstance(v, ast.Call) and call_name(v) == 'partition' and len(v.args) == 1 and isinstance(v.args[0], ast.Constant) \
                    and v.args[0].value == '#' and isinstance(v.func, ast.Attribute) and len(s.targets) == 1 and \
                    isinstance(s.targets[0], (ast.Tuple, ast.List)) and len(s.targets[0].elts) == 3 and \
                    all(isinstance(t_, ast.Name) for t_ in s.targets[0].elts):
                src_tags = self.expr(v.func.value, st) - {STRIPPED}
                names_ = [t_.id for t_ in s.targets[0].elts]
                for nm in names_[1:]:
                    st[nm] = set(src_tags)
                st[names_[0]] = {CLEAN}
                return st
            tags = self.expr(v, st) - {STRIPPED}
            if isinstance(v, ast.Call) and call_name(v) == 'strip' and not v.args and isinstance(v.func, ast.Attribute):
                tags = tags | {STRIPPED}
            elif isinstance(v, ast.Name) and STRIPPED in st.get(v.id, ()):
                tags = tags | {STRIPPED}
            for t in s.targets:
                for nm in target_names(t):
                    st[nm] = set(tags)
        elif isinstance(s, ast.AugAssign) and isinstance(s.target, ast.Name):
            st[s.target.id] = set(st.get(s.target.id, {CLEAN})) | self.expr(s.value, st)
        return st

    def refine(self, node, lab, st):
        # `pos > -1` / `pos >= 0` / `pos != -1` false  => the variable holds no '#': it is clean
        ptags = [t for t in st.get(getattr(getattr(node.ast, 'left', None), 'id', None), ()) if t.startswith('pos:')] \
            if node.kind == 'test' and isinstance(node.ast, ast.Compare) and isinstance(node.ast.left, ast.Name) else []
        if len(ptags) == 1 and len(st[node.ast.left.id]) == 1 and len(node.ast.ops) == 1:
            op = node.ast.ops[0]
            try:
                k = ast.literal_eval(node.ast.comparators[0])
            except Exception:
                return st
            present_when = None
            if (isinstance(op, ast.Gt) and k == -1) or (isinstance(op, ast.GtE) and k == 0) or (isinstance(op, ast.NotEq) and k == -1):
                present_when = True
            elif (isinstance(op, ast.Eq) and k == -1) or (isinstance(op, ast.Lt) and k == 0) or (isinstance(op, ast.LtE) and k == -1):
                present_when = False
            if present_when is not None and lab is (not present_when):
                st[ptags[0][4:]] = {CLEAN}
        return st

    def tags_at(self, node, e):
        return self.expr(e, self.ins.get(node.id, {}))


def is_empty_test(e, taint, node):
    """`len(c.strip()) == 0`, `c.strip() == ''`, `not c.strip()`, `len(c) == 0`, `not c`, `c == ''` on clean c"""
    def clean_text(x):
        """comment-stripped text whose emptiness means "no statement on this line": it must also be whitespace-stripped,
        either here (x.strip()) or already (the variable holds stripped text)"""
        stripped = False
        while isinstance(x, ast.Call) and call_name(x) in ('strip', 'lower', 'rstrip', 'lstrip') and isinstance(x.func, ast.Attribute):
            if call_name(x) == 'strip':
                stripped = True
            x = x.func.value
        if not isinstance(x, ast.Name) or RAW in taint.tags_at(node, x):
            return False
        return stripped or STRIPPED in taint.tags_at(node, x)
    if isinstance(e, ast.UnaryOp) and isinstance(e.op, ast.Not):
        return clean_text(e.operand)
    if isinstance(e, ast.Compare) and len(e.ops) == 1 and isinstance(e.ops[0], ast.Eq):
        l, r = e.left, e.comparators[0]
        if isinstance(l, ast.Call) and call_name(l) == 'len' and isinstance(r, ast.Constant) and r.value == 0:
            return clean_text(l.args[0])
        if isinstance(r, ast.Constant) and r.value == '':
            return clean_text(l)
    return False


def _is_nonempty_test(e, taint, node):
    """`c.strip()`, `len(c.strip()) > 0`, `c.strip() != ''` on comment-stripped text c: true iff the statement part is not empty"""
    if isinstance(e, ast.Compare) and len(e.ops) == 1:
        l, r, op = e.left, e.comparators[0], e.ops[0]
        if isinstance(l, ast.Call) and call_name(l) == 'len' and isinstance(r, ast.Constant) and r.value == 0 and isinstance(op, (ast.Gt, ast.NotEq)):
            return is_empty_test(ast.UnaryOp(op=ast.Not(), operand=l.args[0]), taint, node)
        if isinstance(r, ast.Constant) and r.value == '' and isinstance(op, ast.NotEq):
            return is_empty_test(ast.UnaryOp(op=ast.Not(), operand=l), taint, node)
        return False
    return is_empty_test(ast.UnaryOp(op=ast.Not(), operand=e), taint, node)


def run(prog, check):
    check.explanation = EXPLANATION
    check.not_decided = 'the meaning of right-hand-side text; behaviour on malformed (non-documented) line forms'
    check.assumptions = ["variable names do not contain the marker word (property's own premise)"]
    f, loop = parser_line_loop(prog)
    check.saw(f)
    g = cfgmod.build(f)
    taint = Taint(g, loop)
    inside = set(id(x) for x in ast.walk(loop))
    body_nodes = [n for n in g.nodes if n.stmt is not None and id(n.stmt) in inside and n is not taint.hdr]
    # ---- R1 ----------------------------------------------------------------------------------------
    n1 = 0
    for n in body_nodes:
        if n.kind == 'test':
            tags = taint.tags_at(n, n.ast)
            if RAW not in tags:
                n1 += 1
                check.ob('C14.R1', '%s::branch(%s)' % (f.key, unparse(n.ast)), True, '%s:%d' % (f.module.rel, n.line),
                         'condition computed from comment-stripped text', '')
                continue
            # tainted: every tainted operand must be conjoined with an empty-statement test, or the node dominated by one
            ok = False
            e = n.ast
            disj = e.values if (isinstance(e, ast.BoolOp) and isinstance(e.op, ast.Or)) else [e]
            parts_ok = []
            for d in disj:
                if RAW not in taint.tags_at(n, d):
                    parts_ok.append(True)
                    continue
                conj = d.values if (isinstance(d, ast.BoolOp) and isinstance(d.op, ast.And)) else [d]
                parts_ok.append(any(is_empty_test(c, taint, n) for c in conj))
            ok = all(parts_ok)
            if not ok:
                for t in body_nodes:
                    if t.kind == 'test' and is_empty_test(t.ast, taint, t) and g.dominates(t, n):
                        tgt = [b for b, l in g.succ[t.id] if l is False]
                        if n.id not in g.reach(tgt, avoid={taint.hdr.id}, include_src=True):
                            ok = True
            if not ok:
                # the same, stated as a branch-outcome fact: the test is reached only when the statement part is empty,
                # in whichever polarity the emptiness was tested (`if stmt.strip(): ... elif <raw test>`)
                tnodes = {id(x.ast): x for x in body_nodes if x.kind == 'test'}
                for test, outcome in g.conditions_at(n):
                    tn = tnodes.get(id(test))
                    if tn is None:
                        continue
                    for _, val, e in atomic_facts(test, outcome):
                        pos = e if val else ast.UnaryOp(op=ast.Not(), operand=e)
                        if is_empty_test(pos, taint, tn) or (not val and _is_nonempty_test(e, taint, tn)):
                            ok = True
            n1 += 1
            check.ob('C14.R1', '%s::branch(%s)' % (f.key, unparse(n.ast)), ok, '%s:%d' % (f.module.rel, n.line),
                     'raw-line test is conjoined with / dominated by "statement part empty"' if ok else
                     'branch depends on the raw line including its comment text',
                     "an equation line whose trailing comment / description contains 'exogenous', '=' or '(0)'")
        elif n.kind == 'stmt':
            # values stored into containers / attributes of self
            s = n.ast
            stored = []
            if isinstance(s, ast.Assign):
                for t in s.targets:
                    if isinstance(t, (ast.Subscript, ast.Attribute)):
                        stored.append((unparse(t), s.value))
                        if isinstance(t, ast.Subscript):
                            stored.append((unparse(t) + '[key]', t.slice))
            for c in ast.walk(s):
                if isinstance(c, ast.Call) and call_name(c) == 'append' and isinstance(c.func.value, ast.Attribute):
                    for a in c.args:
                        stored.append((unparse(c.func.value), a))
            for name, val in stored:
                tags = taint.tags_at(n, val)
                n1 += 1
                check.ob('C14.R1', '%s::stored(%s)' % (f.key, name), RAW not in tags, '%s:%d' % (f.module.rel, n.line),
                         'stored value is computed from comment-stripped text' if RAW not in tags else
                         'stored value may contain comment text', 'a trailing comment containing (k-1), = or a name')
    # ---- R2 ----------------------------------------------------------------------------------------
    mode_vars = set()
    for n in ast.walk(loop):
        if isinstance(n, ast.Compare) and isinstance(n.left, ast.Name) and isinstance(n.comparators[0], ast.Constant) \
                and n.comparators[0].value in ('endogenous', 'exogenous'):
            mode_vars.add(n.left.id)

    # ... or a flag set under a test for the marker word
    for nd_ in body_nodes:
        if nd_.kind == 'stmt' and isinstance(nd_.ast, ast.Assign) and len(nd_.ast.targets) == 1 and isinstance(nd_.ast.targets[0], ast.Name):
            if any(isinstance(c_, ast.Constant) and isinstance(c_.value, str) and c_.value.lower() == 'exogenous'
                   for test_, _o in g.conditions_at(nd_) for c_ in ast.walk(test_)):
                mode_vars.add(nd_.ast.targets[0].id)

    def class_stores(node):
        out = []
        if node.kind != 'stmt':
            return out
        s = node.ast
        for c in ast.walk(s):
            if isinstance(c, ast.Call) and call_name(c) == 'append' and isinstance(c.func.value, ast.Attribute) and \
                    c.func.value.attr in CLASS_LISTS:
                out.append(c.func.value.attr)
        if isinstance(s, ast.Assign):
            for t in s.targets:
                if isinstance(t, ast.Subscript) and isinstance(t.value, ast.Attribute) and t.value.attr in CLASS_DICTS:
                    out.append(t.value.attr)
                if isinstance(t, ast.Attribute) and t.attr in CLASS_SCALARS:
                    out.append(t.attr)
        return out

    first = [b for b, lab in g.succ[taint.hdr.id] if lab is True]
    paths = []
    for b in first:
        paths += [[taint.hdr.id] + p for p in g.paths(b, taint.hdr, cap=20000)] if b != taint.hdr.id else []
    npaths = 0
    bad_multi, bad_silent = [], []
    # message lists: local lists that are joined into the text the parser returns
    warning_lists = set()
    for r_ in ast.walk(f.node):
        if isinstance(r_, ast.Return) and r_.value is not None:
            for c_ in ast.walk(r_.value):
                if isinstance(c_, ast.Call) and call_name(c_) == 'join' and c_.args and isinstance(c_.args[0], ast.Name):
                    warning_lists.add(c_.args[0].id)
    for p in paths:
        npaths += 1
        stores, warned, marker, blank = [], False, False, False
        for i, nid in enumerate(p):
            nd = g.nodes[nid]
            stores += class_stores(nd)
            if nd.kind == 'stmt' and isinstance(nd.ast, ast.AugAssign) and isinstance(nd.ast.target, ast.Name) and \
                    isinstance(nd.ast.op, ast.Add):
                warned = True
            if nd.kind == 'stmt' and isinstance(nd.ast, ast.Assign) and any(
                    nm in mode_vars for t in nd.ast.targets for nm in target_names(t)):
                marker = True
            if nd.kind == 'test' and i + 1 < len(p) and is_empty_test(nd.ast, taint, nd):
                labs = [l for b2, l in g.succ[nid] if b2 == p[i + 1]]
                if True in labs:
                    blank = True
            if nd.kind == 'test' and i + 1 < len(p) and _is_nonempty_test(nd.ast, taint, nd):
                labs = [l for b2, l in g.succ[nid] if b2 == p[i + 1]]
                if False in labs:
                    blank = True        # the false outcome of `if statement:` is the blank line
            if nd.kind == 'stmt' and isinstance(nd.ast, ast.Expr) and isinstance(nd.ast.value, ast.Call) and \
                    call_name(nd.ast.value) in ('append', 'extend') and isinstance(nd.ast.value.func.value, ast.Name) and \
                    nd.ast.value.func.value.id in warning_lists:
                warned = True
        if len(stores) > 1:
            bad_multi.append((p, stores))
        if len(stores) == 0 and not (warned or marker or blank):
            bad_silent.append(p)
    check.ob('C14.R2', '%s::at-most-one-class-per-line' % f.key, not bad_multi, '%s:%d' % (f.module.rel, loop.lineno),
             '%d acyclic paths through the loop body; none stores into two classes' % npaths if not bad_multi else
             'a path stores into %s' % (bad_multi[0][1],), 'a line that is both lagged and simultaneous')
    check.ob('C14.R2', '%s::no-silent-drop' % f.key, not bad_silent, '%s:%d' % (f.module.rel, loop.lineno),
             'every path without a class store warns, switches the section or skips a blank line' if not bad_silent else
             'a path drops a non-blank line without classification or warning (via line %s)' % (
                 [g.nodes[i].line for i in bad_silent[0]][1:6],), 'a well-formed equation line')
    check.ob('C14.R2', '%s::paths-enumerated' % f.key, npaths >= 8, '%s:%d' % (f.module.rel, loop.lineno),
             '%d paths' % npaths, '')
    # each class is reachable (a class that lost its store would silently vanish)
    seen_classes = set()
    for p in paths:
        for nid in p:
            seen_classes.update(class_stores(g.nodes[nid]))
    for cls in CLASS_LISTS + CLASS_DICTS + CLASS_SCALARS:
        check.ob('C14.R2', '%s::class-has-a-store(%s)' % (f.key, cls), cls in seen_classes, '%s:%d' % (f.module.rel, loop.lineno),
                 'some path stores into %s' % cls if cls in seen_classes else 'no path stores into %s any more' % cls,
                 'a %s line' % cls)
    # malformed lines are reported: what the function returns accumulates over the lines (a report is never overwritten by a later one)
    ret_names = {r_.value.id for r_ in ast.walk(f.node) if isinstance(r_, ast.Return) and isinstance(r_.value, ast.Name)}
    for rn_ in sorted(ret_names):
        over = []
        n_acc = 0
        for st_ in ast.walk(loop):
            if isinstance(st_, ast.AugAssign) and isinstance(st_.target, ast.Name) and st_.target.id == rn_:
                n_acc += 1
            elif isinstance(st_, ast.Assign) and any(isinstance(t_, ast.Name) and t_.id == rn_ for t_ in st_.targets):
                if any(isinstance(x_, ast.Name) and x_.id == rn_ for x_ in ast.walk(st_.value)):
                    n_acc += 1
                else:
                    over.append(st_)
            elif isinstance(st_, ast.Call) and isinstance(st_.func, ast.Attribute) and st_.func.attr in ('append', 'extend') and \
                    isinstance(st_.func.value, ast.Name) and st_.func.value.id == rn_:
                n_acc += 1
        if not (n_acc or over):
            continue
        check.ob('C14.R2', '%s::reports-accumulate(%s)' % (f.key, rn_), not over, '%s:%d' % (f.module.rel, (over[0] if over else loop).lineno),
                 'every report about a line is added to what was reported before' if not over else
                 '`%s` overwrites the reports collected so far: a malformed line reported earlier is dropped without a trace' % unparse(over[0])[:70],
                 "a block with an unreadable line followed by a line with two '='")
    # a parse starts from empty classes: what the lists hold afterwards is what this text says, not what an earlier text left behind
    hdr_ = [n_ for n_ in g.nodes if n_.kind == 'for' and n_.stmt is loop]
    for cls in CLASS_LISTS + CLASS_DICTS:
        resets_ = [n_ for n_ in g.stmt_nodes() if n_.kind == 'stmt' and isinstance(n_.ast, ast.Assign) and any(
            isinstance(t_, ast.Attribute) and t_.attr == cls and isinstance(t_.value, ast.Name) and t_.value.id == 'self' for t_ in n_.ast.targets) and
            ((isinstance(n_.ast.value, (ast.List, ast.Dict)) and not getattr(n_.ast.value, 'elts', getattr(n_.ast.value, 'keys', None))) or
             (isinstance(n_.ast.value, ast.Call) and call_name(n_.ast.value) in ('list', 'dict') and not n_.ast.value.args))]
        okr_ = bool(hdr_) and bool(resets_) and g.must_pass(g.entry, hdr_[0], resets_)
        check.ob('C14.R2', '%s::class-starts-empty(%s)' % (f.key, cls), okr_, '%s:%d' % (f.module.rel, loop.lineno),
                 '%s is emptied before the lines are read' % cls if okr_ else
                 '%s is not emptied before the lines are read: entries of a text parsed earlier by the same object stay in the class' % cls,
                 'a parser object given a second text that has fewer lines of this class')
    # the exogenous class is selected by the section mode, the others by line form
    # ---- R3 ----------------------------------------------------------------------------------------
    table = []
    finds = []
    rhs_var = None
    for n in ast.walk(loop):
        if isinstance(n, ast.Call) and call_name(n) == 'append' and isinstance(n.func.value, ast.Attribute) and \
                n.func.value.attr == 'Endogenous' and n.args and isinstance(n.args[0], ast.Tuple) and \
                isinstance(n.args[0].elts[1], ast.Name):
            rhs_var = n.args[0].elts[1].id
    if rhs_var is None:
        raise AnalysisError('cannot identify the RHS variable stored into Endogenous')
    for n in ast.walk(loop):
        if isinstance(n, ast.Assign) and isinstance(n.targets[0], ast.Name) and n.targets[0].id == rhs_var:
            chain = replace_chain(n.value, rhs_var)
            if chain:
                table.extend(chain)
        if isinstance(n, ast.Call) and call_name(n) in ('find', 'index', 'partition', 'split', 'rfind') and isinstance(n.func.value, ast.Name) and \
                n.func.value.id == rhs_var and n.args and isinstance(n.args[0], ast.Constant) and isinstance(n.args[0].value, str) \
                and '(' in n.args[0].value:
            finds.append(n.args[0].value)
        if isinstance(n, ast.Compare) and len(n.ops) == 1 and isinstance(n.ops[0], (ast.In, ast.NotIn)) and isinstance(n.left, ast.Constant) \
                and isinstance(n.left.value, str) and '(' in n.left.value and isinstance(n.comparators[0], ast.Name) and n.comparators[0].id == rhs_var \
                and 'k' in n.left.value:
            finds.append(n.left.value)
    if len(set(finds)) != 1:
        raise AnalysisError('expected one lag-marker search on the RHS, found %s' % finds)
    marker = finds[0]
    templates = lag_templates(prog)
    for where, lit in templates:
        emitted = untok('X' + lit)
        variants = {('X' + lit), emitted, emitted.replace('X', 'X', 1)}
        ok = True
        bad = None
        for v in variants:
            w = v
            for a, b in table:
                w = w.replace(a, b)
            if marker not in w:
                ok, bad = False, v
        check.ob('C14.R3', 'lag-template(%r)@%s' % (lit, where.split(':')[0]), ok, where,
                 'emitted spellings %s are normalised to %r' % (sorted(variants), marker) if ok else
                 'emitted spelling %r is not recognised as a lag by the parser (table %s)' % (bad, table),
                 'any model with a lagged variable: it would be parsed as a simultaneous equation calling X(...)')
    # documented user spellings
    for user in ('X(k-1)', 'X(t-1)'):
        w = user
        for a, b in table:
            w = w.replace(a, b)
        check.ob('C14.R3', 'user-lag-spelling(%s)' % user, marker in w, '%s:%d' % (f.module.rel, loop.lineno),
                 'documented spelling %s is recognised' % user if marker in w else
                 'documented spelling %s is no longer recognised' % user, 'a block using ' + user)
    # ---- R4 ----------------------------------------------------------------------------------------
    check_default_t(prog, check, 'C14.R4')
    # ---- R6: the emitter decides "exogenous" from the right-hand side only, never from the description ----
    n6 = 0
    from ..inline import judged_at_callers as _jac
    model_funcs = [fn_ for fn_ in prog.all_functions() if (fn_.cls is not None and fn_.cls.name == 'Model') or
                   (fn_.cls is None and fn_.module.rel.endswith('models.py'))]
    at_callers_ = _jac(prog, model_funcs)
    seen_sites = set()
    for fn_raw in model_funcs:
        if fn_raw.key in at_callers_ or fn_raw.cls is None:
            continue        # a private helper is read where it is inlined (its parameter is then the caller's expression)
        fn = flatten(prog, fn_raw)
        sub = single_assign_subst(fn.node)
        for n in ast.walk(fn.node):
            if (getattr(n, 'lineno', None), getattr(n, 'col_offset', None), type(n).__name__) in seen_sites:
                continue
            subject = None
            if isinstance(n, ast.Compare) and isinstance(n.ops[0], (ast.In, ast.NotIn)) and isinstance(n.left, ast.Constant) and n.left.value == 'EXOGENOUS':
                subject = n.comparators[0]
            elif isinstance(n, ast.Call) and call_name(n) == 'replace' and n.args and isinstance(n.args[0], ast.Constant) and n.args[0].value == 'EXOGENOUS':
                subject = n.func.value
            if subject is None:
                continue
            seen_sites.add((n.lineno, n.col_offset, type(n).__name__))
            e = subject
            if isinstance(e, ast.Name) and e.id in sub:
                e = sub[e.id]
            ok = isinstance(e, ast.Subscript) and isinstance(e.slice, ast.Constant) and e.slice.value == 1
            if not ok and isinstance(subject, ast.Name):
                ok = only_from_component(fn.node, subject.id, 1)
            n6 += 1
            check.saw(fn)
            check.ob('C14.R6', '%s::marker-tested-on-rhs-only(%s)' % (fn.key, unparse(subject)), ok, '%s:%d' % (fn.module.rel, n.lineno),
                     'the EXOGENOUS marker is looked for / removed in the right-hand side component only' if ok else
                     'the EXOGENOUS marker is looked for in `%s`, which includes the free-text description' % unparse(subject),
                     "a variable whose description contains the word EXOGENOUS")
    # descriptions are emitted behind '#': the row template (followed through concatenation, replace chains and .format, any
    # number written as N) reads  <name> = <rhs>  # <description>
    def template_text(e, env):
        if isinstance(e, ast.Constant) and isinstance(e.value, str):
            return e.value
        if isinstance(e, ast.Name):
            return env.get(e.id)
        if isinstance(e, ast.Call) and isinstance(e.func, ast.Name) and e.func.id in ('str', 'repr', 'int', 'len', 'max'):
            return 'N'
        if isinstance(e, ast.BinOp) and isinstance(e.op, ast.Add):
            l_, r_ = template_text(e.left, env), template_text(e.right, env)
            return None if l_ is None or r_ is None else l_ + r_
        if isinstance(e, ast.JoinedStr):
            out = ''
            for v_ in e.values:
                out += v_.value if isinstance(v_, ast.Constant) else 'N'
            return out
        if isinstance(e, ast.Call) and isinstance(e.func, ast.Attribute) and e.func.attr == 'replace' and len(e.args) == 2:
            base, a_, b_ = template_text(e.func.value, env), template_text(e.args[0], env), template_text(e.args[1], env)
            return None if None in (base, a_, b_) else base.replace(a_, b_)
        if isinstance(e, ast.Call) and isinstance(e.func, ast.Attribute) and e.func.attr == 'format':
            base = template_text(e.func.value, env)
            if base is None:
                return None
            import re as _r
            return _r.sub(r'\{[^{}]*\}', 'N', base).replace('{{', '{').replace('}}', '}')
        return None
    fmt_ok = False
    n_templates = 0
    for fn_raw_ in prog.all_functions():
        if fn_raw_.cls is None or fn_raw_.cls.name != 'Model':
            continue
        # with the private helpers in place: the template may be built by one step and applied by the next
        fn = flatten(prog, fn_raw_)
        env_ = {}
        uses = []
        for st_ in ast.walk(fn.node):
            pass
        # straight-line order of the function body
        for st_ in [x for x in ast.walk(fn.node) if isinstance(x, ast.Assign)]:
            if len(st_.targets) == 1 and isinstance(st_.targets[0], ast.Name):
                t_ = template_text(st_.value, env_)
                if t_ is not None:
                    env_[st_.targets[0].id] = t_
                else:
                    env_.pop(st_.targets[0].id, None)
        for c in ast.walk(fn.node):
            if isinstance(c, ast.BinOp) and isinstance(c.op, ast.Mod):
                txt = template_text(c.left, env_)
                if txt is not None and txt.count('%') >= 3 and '#' in txt:
                    n_templates += 1
                    fmt_ok = txt.rfind('%') > txt.find('#') and txt.count('#') == 1 and txt.find('=') < txt.find('#')
    check.ob('C14.R6', 'Model::description-behind-comment-sign', fmt_ok, 'sfc_models/models.py',
             'rows are formatted as `name = rhs  # description`' if fmt_ok else 'the description is not emitted behind a single comment sign', 'any description')
    # free text (descriptions, long names) is never emitted on a comment-only line: the parser reads such lines for the
    # section marker, so anything dynamic there can switch the section
    import re as _re
    for fn in prog.all_functions():
        if fn.cls is None or fn.cls.name != 'Model':
            continue
        for c in ast.walk(fn.node):
            if isinstance(c, ast.Constant) and isinstance(c.value, str) and _re.search(r'(^|\n)[ \t]*#[^\n]*(%[-0-9.]*[srd]|\{[^}]*\})', c.value):
                par = getattr(c, '_parent', None)
                if isinstance(par, ast.Expr):
                    continue        # docstring
                n6 += 1
                check.saw(fn)
                check.ob('C14.R6', '%s::no-dynamic-comment-line(%r)' % (fn.key, c.value[:30]), False, '%s:%d' % (fn.module.rel, c.lineno),
                         'text supplied by the model (description / name) is written on a comment-only line of the emitted block: a '
                         'description containing the word "exogenous" switches the parser into the exogenous section',
                         'a long description containing the word exogenous')
    # ---- R1 (cont.): every other place that splits an equation string at '=' does so on comment-free text ----------
    from ..cfg import atomic_facts as _facts
    for fn in prog.all_functions():
        if fn.key == f.key or '/deprecated/' in fn.module.rel or fn.key in set(getattr(f, 'inlined', ())):
            continue        # (a private helper inlined into the parser's line loop has been judged there)
        sites = []
        for c in ast.walk(fn.node):
            if isinstance(c, ast.Call) and call_name(c) in ('split', 'partition', 'rpartition', 'rsplit', 'find', 'index') and c.args and \
                    isinstance(c.args[0], ast.Constant) and c.args[0].value == '=' and isinstance(c.func, ast.Attribute):
                sites.append((c, c.func.value))
            elif isinstance(c, ast.Compare) and len(c.ops) == 1 and isinstance(c.ops[0], (ast.In, ast.NotIn)) and \
                    isinstance(c.left, ast.Constant) and c.left.value == '=':
                sites.append((c, c.comparators[0]))
        if not sites:
            continue
        gfn = cfgmod.build(fn)
        fsub = single_assign_subst(fn.node)
        check.saw(fn)
        for c, subj in sites:
            st = c
            while st is not None and not isinstance(st, ast.stmt):
                st = getattr(st, '_parent', None)
            nd = None
            for cand in gfn.nodes:
                if cand.stmt is st and (cand.kind != 'test' or any(x is c for x in ast.walk(cand.ast))):
                    nd = cand
                    break
            clean = False
            why = 'the text is split at "=" although it may still carry a trailing comment'
            if nd is not None:
                for test, outcome in gfn.conditions_at(nd):
                    for _, v, e in _facts(test, outcome):
                        if v is False and isinstance(e, ast.Compare) and len(e.ops) == 1 and isinstance(e.ops[0], ast.In) and \
                                isinstance(e.left, ast.Constant) and e.left.value == '#' and unparse(e.comparators[0]) == unparse(subj):
                            clean, why = True, 'reached only when the text contains no "#"'
            r = subj
            if isinstance(r, ast.Name) and r.id in fsub:
                r = fsub[r.id]
            if isinstance(r, ast.Subscript) and isinstance(r.slice, ast.Constant) and r.slice.value == 0 and isinstance(r.value, ast.Call) and \
                    call_name(r.value) in ('split', 'partition') and r.value.args and getattr(r.value.args[0], 'value', None) == '#':
                clean, why = True, 'the text before the first "#"'
            n1 += 1
            check.ob('C14.R1', '%s::split-at-equals-on-comment-free-text(%s)' % (fn.key, unparse(subj)), clean, '%s:%d' % (fn.module.rel, c.lineno), why,
                     "a declaration 'T # tax rule: T = rate*W' (an '=' inside the comment)")
    # ---- R1 (cont.): free text may hold any number of separators -----------------------------------------------------------
    # `a, b = text.split(sep)` works only for exactly one separator in the text: where the text carries a comment or a description
    # (anything after '#', or a right-hand side after '=') the split must be bounded (`split(sep, 1)`, partition) - otherwise whether
    # the equation exists depends on what its comment says
    for fn in prog.all_functions():
        if '/deprecated/' in fn.module.rel:
            continue
        for a_ in ast.walk(fn.node):
            if not (isinstance(a_, ast.Assign) and len(a_.targets) == 1 and isinstance(a_.targets[0], (ast.Tuple, ast.List)) and
                    not any(isinstance(e_, ast.Starred) for e_ in a_.targets[0].elts)):
                continue
            v_ = a_.value
            if not (isinstance(v_, ast.Call) and call_name(v_) in ('split', 'rsplit') and isinstance(v_.func, ast.Attribute) and v_.args and
                    isinstance(v_.args[0], ast.Constant) and v_.args[0].value in ('#', '=')):
                continue
            k_ = len(a_.targets[0].elts)
            bounded = (len(v_.args) >= 2 and isinstance(v_.args[1], ast.Constant) and v_.args[1].value == k_ - 1) or \
                any(kw.arg == 'maxsplit' and isinstance(kw.value, ast.Constant) and kw.value.value == k_ - 1 for kw in v_.keywords)
            n1 += 1
            check.saw(fn)
            check.ob('C14.R1', '%s::bounded-split(%s)' % (fn.key, unparse(v_)), bounded, '%s:%d' % (fn.module.rel, a_.lineno),
                     'the text is cut at the first %r only' % v_.args[0].value if bounded else
                     'the text is cut at every %r and unpacked into %d names: a second %r in the comment / description raises ValueError, so '
                     'the equation is accepted or refused depending on its comment' % (v_.args[0].value, k_, v_.args[0].value),
                     "a declaration 'x = y # item #3'")
    # a row is (name, right-hand side, description): every place that builds an Equation from a row takes the same item for the same
    # argument (cross-check of sibling call sites; a description parsed as a right-hand side makes the model depend on its wording)
    for fn in prog.all_functions():
        if '/deprecated/' in fn.module.rel:
            continue
        uses = []
        for c_ in ast.walk(fn.node):
            if isinstance(c_, ast.Call) and call_name(c_) == 'Equation':
                kw_ = {k_.arg: k_.value for k_ in c_.keywords if k_.arg}
                idx_ = {}
                for nm_ in ('desc', 'rhs'):
                    v_ = kw_.get(nm_)
                    items = [x_ for x_ in (ast.walk(v_) if v_ is not None else []) if isinstance(x_, ast.Subscript) and isinstance(x_.value, ast.Name)
                             and isinstance(x_.slice, ast.Constant) and isinstance(x_.slice.value, int)]
                    if items:
                        idx_[nm_] = (items[0].value.id, items[0].slice.value)
                if len(idx_) == 2 and idx_['desc'][0] == idx_['rhs'][0]:
                    uses.append((c_, idx_['desc'][1], idx_['rhs'][1]))
        if len(uses) >= 2:
            shapes = {}
            for c_, d_, r_ in uses:
                shapes.setdefault((d_, r_), []).append(c_)
            major = max(shapes.items(), key=lambda kv: len(kv[1]))[0]
            for (d_, r_), cs_ in sorted(shapes.items()):
                for c_ in cs_:
                    n1 += 1
                    check.saw(fn)
                    check.ob('C14.R1', '%s::row-items-used-alike(%s)' % (fn.key, unparse(c_)[:60]), len(shapes) == 1, '%s:%d' % (fn.module.rel, c_.lineno),
                             'every Equation built from a row takes item %d as description and item %d as right-hand side' % (d_, r_) if len(shapes) == 1 else
                             'this call takes item %d of the row as description and item %d as right-hand side, another call in the same function the '
                             'other way round: one of them parses the description as an expression' % (d_, r_),
                             "a description with an apostrophe or an unbalanced bracket")
    # ---- R5 ----------------------------------------------------------------------------------------
    for n in ast.walk(loop):
        if isinstance(n, ast.Assign) and any(rhs_var in target_names(t) for t in n.targets):
            v = n.value
            ok = False
            why = 'unexpected transformation of the right-hand side: ' + unparse(v)
            REWRITERS = ('replace', 'lower', 'upper', 'title', 'capitalize', 'swapcase', 'translate', 'format', 'join', 'casefold',
                         'expandtabs', 'zfill', 'center', 'ljust', 'rjust')
            rewriting = [c for c in ast.walk(v) if isinstance(c, ast.Call) and isinstance(c.func, ast.Attribute) and c.func.attr in REWRITERS]
            sliced = [c for c in ast.walk(v) if isinstance(c, ast.Subscript) and isinstance(c.slice, ast.Slice)]
            concat = [c for c in ast.walk(v) if isinstance(c, (ast.BinOp, ast.JoinedStr))]
            if isinstance(v, ast.Call) and call_name(v) == 'strip' and not v.args and isinstance(v.func.value, ast.Subscript):
                ok, why = True, 'split part, stripped'
            elif not rewriting and not sliced and not concat:
                ok, why = True, 'a part of the statement / a copy, at most stripped'
            elif replace_chain(v, rhs_var):
                ok = True
                whys = []
                for a, b in replace_chain(v, rhs_var):
                    lagish = b == marker and ('1' in a and '(' in a and ')' in a and ('k' in a or 't' in a))
                    ok = ok and lagish
                    whys.append('lag-spelling normalisation %r -> %r' % (a, b) if lagish else 'rewrites %r -> %r in every right-hand side' % (a, b))
                why = '; '.join(whys)
            elif isinstance(v, ast.Call) and call_name(v) == 'strip' and isinstance(v.func.value, ast.Name) and v.func.value.id == rhs_var:
                ok, why = True, 'stripped'
            check.ob('C14.R5', '%s::rhs-transform(%s)' % (f.key, unparse(v)), ok, '%s:%d' % (f.module.rel, n.lineno), why,
                     'a right-hand side containing spaces, capitals or other characters the rewrite touches')
    # the lagged store keeps the text before the marker
    for n in ast.walk(loop):
        if isinstance(n, ast.Call) and call_name(n) == 'append' and isinstance(n.func.value, ast.Attribute) and \
                n.func.value.attr == 'Lagged' and n.args and isinstance(n.args[0], ast.Tuple):
            v = n.args[0].elts[1]
            ok = isinstance(v, ast.Subscript) and isinstance(v.slice, ast.Slice) and isinstance(v.value, ast.Name) and \
                v.value.id == rhs_var and isinstance(v.slice.upper, ast.Name) and \
                (v.slice.lower is None or (isinstance(v.slice.lower, ast.Constant) and v.slice.lower.value == 0))
            if not ok and isinstance(v, ast.Name):
                # the head of rhs.partition(marker) / rhs.split(marker, 1)
                for a_ in ast.walk(loop):
                    if isinstance(a_, ast.Assign) and len(a_.targets) == 1 and isinstance(a_.targets[0], (ast.Tuple, ast.List)) and \
                            a_.targets[0].elts and isinstance(a_.targets[0].elts[0], ast.Name) and a_.targets[0].elts[0].id == v.id and \
                            isinstance(a_.value, ast.Call) and call_name(a_.value) in ('partition', 'split') and \
                            isinstance(a_.value.func.value, ast.Name) and a_.value.func.value.id == rhs_var and a_.value.args and \
                            getattr(a_.value.args[0], 'value', None) == marker:
                        ok = True
            if not ok and isinstance(v, ast.Subscript) and isinstance(v.slice, ast.Constant) and v.slice.value == 0 and isinstance(v.value, ast.Call) \
                    and call_name(v.value) in ('partition', 'split') and isinstance(v.value.func.value, ast.Name) and v.value.func.value.id == rhs_var:
                ok = True
            check.ob('C14.R5', '%s::lagged-source-text' % f.key, ok, '%s:%d' % (f.module.rel, n.lineno),
                     'lag source is the text before the marker' if ok else 'lag source is not the text before the marker',
                     'X = Y(k-1)')
    # the split is on the clean text at '='
    # the time variable the parser supplies is `t = k`: k is the solver's own period counter and must not be definable by the block
    # (the clause C11.R3 decides for the reserved names)
    if not getattr(check, '_borrowing', False):
        from ..report import Borrowed
        from . import C11 as _c11
        b11 = Borrowed(check, lambda rule, key: rule == 'C11.R3' and 'reserved-source(k)' in key, 'C14.R4',
                       "a block with a line `k = 5.`: it must be refused, otherwise the supplied t = k is not the period")
        b11.run_lender(_c11, prog)
    check.floor('C14.R1', 10)
    check.floor('C14.R2', 8)
    check.floor('C14.R3', 5)
    check.floor('C14.R4', 2)
    check.floor('C14.R6', 2)
    check.floor('C14.R5', 3)


def replace_chain(v, var):
    """[(old, new), ...] when v is  var.replace(a, b).replace(c, d)...  with literal arguments (innermost first)"""
    out = []
    while isinstance(v, ast.Call) and call_name(v) == 'replace' and isinstance(v.func, ast.Attribute) and len(v.args) == 2 and \
            all(isinstance(a, ast.Constant) and isinstance(a.value, str) for a in v.args):
        out.append((v.args[0].value, v.args[1].value))
        v = v.func.value
    if out and isinstance(v, ast.Name) and v.id == var:
        return list(reversed(out))
    return []


def only_from_component(fn_node, name, index, depth=0):
    """every definition of the local `name` is `<row>[index]` or computed from `name` itself alone"""
    defs = [n.value for n in ast.walk(fn_node) if isinstance(n, ast.Assign) and len(n.targets) == 1 and
            isinstance(n.targets[0], ast.Name) and n.targets[0].id == name]
    others = [n for n in ast.walk(fn_node) if isinstance(n, (ast.For, ast.comprehension, ast.AugAssign)) and
              name in target_names(n.target)]
    if not defs or others:
        return False
    for d in defs:
        if isinstance(d, ast.Subscript) and isinstance(d.slice, ast.Constant) and d.slice.value == index:
            continue
        roots = {x.id for x in ast.walk(d) if isinstance(x, ast.Name)}
        if roots == {name}:
            continue
        return False
    return True


def untok(s):
    toks = [(t.type, t.string) for t in tokenize.tokenize(io.BytesIO(s.encode('utf-8')).readline)]
    return tokenize.untokenize(toks).decode('utf-8')


def lag_templates(prog):
    """string literals in the package that spell a lag: '...(k-1)' used as (part of) an equation"""
    out = []
    for rel, m in sorted(prog.modules.items()):
        if rel.endswith('equation_parser.py') or '/deprecated/' in rel:
            continue
        for n in ast.walk(m.tree):
            if isinstance(n, ast.Constant) and isinstance(n.value, str) and '(k-1)' in n.value.replace(' ', ''):
                p = getattr(n, '_parent', None)
                if isinstance(p, ast.Expr):
                    continue    # docstring
                lit = n.value
                i = lit.replace(' ', '').find('(k-1)')
                # keep the suffix spelling from the '(' on
                j = lit.find('(')
                out.append(('%s:%d' % (rel, n.lineno), lit[j:] if j >= 0 else lit))
    if not out:
        raise AnalysisError('no lag templates found in the package')
    return out
